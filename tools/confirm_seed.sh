#!/bin/bash
export VERIF_EVIDENCE_DIR=/var/tmp/evidence-experiments
# usage: tools/confirm_seed.sh <name> <dir with patch.diff demo.rs meta.json> <property ids to run...>
# 1. confirms independently, in a scratch worktree, that the change compiles, the 37 repository tests pass with it,
#    the demonstration passes without it and fails with it;
# 2. applies it to /repo, runs the quick checks of the given properties, reverts;
# 3. stores it under /verif/seeded/<name>/ with what was run.
name=$1; src=$2; shift 2; ids="$@"
W=/var/tmp/confirm
export CARGO_TARGET_DIR=/var/tmp/confirm-target
[ -d $W ] || git -C /repo worktree add -q --detach $W HEAD
git -C $W checkout -q -- . ; rm -f $W/tests/demo.rs
cp $src/demo.rs $W/tests/demo.rs
without=$(cd $W && cargo test --offline --test demo 2>&1 | grep -E "^test result" | head -1)
if ! git -C $W apply $src/patch.diff; then echo "$name: patch does not apply"; exit 1; fi
mv $W/tests/demo.rs /var/tmp/demo.rs.keep
suite=$(cd $W && cargo test --workspace --no-fail-fast --offline 2>&1 | grep -E "^test result" | awk '{p+=$4; f+=$6} END {print p" passed, "f" failed"}')
mv /var/tmp/demo.rs.keep $W/tests/demo.rs
with=$(cd $W && cargo test --offline --test demo 2>&1 | grep -E "^test result" | head -1)
git -C $W checkout -q -- . ; rm -f $W/tests/demo.rs
echo "$name: suite with change: $suite | demo without change: $without | demo with change: $with"
case "$suite" in "37 passed, 0 failed") ;; *) echo "$name: NOT KEPT (suite)"; exit 1;; esac
case "$without" in *"0 failed"*) ;; *) echo "$name: NOT KEPT (demo fails without change)"; exit 1;; esac
case "$with" in *" 0 failed"*) echo "$name: NOT KEPT (demo passes with change)"; exit 1;; esac
unset CARGO_TARGET_DIR
# run my checks against it
cd /verif
if [ -n "$(git -C /repo status --porcelain --untracked-files=no)" ]; then echo "/repo not clean"; exit 2; fi
git -C /repo apply $src/patch.diff || exit 2
verdicts=""
before=""
if [ -d /var/tmp/before/harness ]; then
  # the harness as it was before this round's strengthening (a frozen worktree of /verif), same patched /repo
  for id in $ids; do
    case $id in C17|C19) before="$before $id:not-measured"; continue;; esac
    # (release pass only: BEFORE_BOTH=1 also builds and runs the checked profile)
    (cd /var/tmp/before/harness && CARGO_TARGET_DIR=/var/tmp/before-target cargo build --release --offline >/dev/null 2>&1; [ -n "$BEFORE_BOTH" ] && CARGO_TARGET_DIR=/var/tmp/before-target cargo build --profile checked --offline >/dev/null 2>&1)
    bout=$(cd /var/tmp/before/harness && if [ -n "$BEFORE_BOTH" ]; then VERIF_LANE=/var/tmp/before-lane /var/tmp/before-target/release/blsful-mc $id quick 2>/dev/null; else VERIF_SINGLE_PROFILE=1 VERIF_LANE=/var/tmp/before-lane /var/tmp/before-target/release/blsful-mc $id quick 2>/dev/null; fi); bcode=$?
    before="$before $id:exit$bcode"
  done
fi
for id in $ids; do
  out=$(./run.sh $id quick 2>/dev/null); code=$?
  keys=$(echo "$out" | grep -c "^VIOLATION property=$id")
  verdicts="$verdicts $id:exit$code/${keys}keys"
done
git -C /repo checkout -- .
mkdir -p /verif/seeded/$name
cp $src/patch.diff $src/demo.rs /verif/seeded/$name/
BEFORE_VERDICTS="$before" python3 - "$name" "$src" "$suite" "$without" "$with" "$verdicts" <<'PY'
import json,sys
name,src,suite,without,withc,verd=sys.argv[1:7]
m=json.load(open(src+'/meta.json'))
m['confirmed_by_me']={'repo_suite_with_change':suite,'demo_without_change':without,'demo_with_change':withc,'how':'fresh worktree of /repo HEAD under /var/tmp, cargo test --offline'}
m['quick_checks_with_change']=verd.strip()
import os
m['quick_checks_before_this_rounds_strengthening']=os.environ.get('BEFORE_VERDICTS','')
json.dump(m,open(f'/verif/seeded/{name}/meta.json','w'),indent=1)
PY
echo "| $name | $suite | ${with#test result: } |$verdicts | before:$before |" | tee -a /verif/seeded/RESULTS.md
