#!/bin/bash
# usage: tools/run_mutants.sh [-n RUNS] <patch file>...   (patch name starts with the property id, e.g. C08-foo.patch;
#        a second id may follow after '+', e.g. C16+C19-foo.patch)
# For each patch: apply to /repo, check that it compiles and the repository's own 37 tests still pass,
# run the quick check of the named properties RUNS times (default 1), expect exit 1 every time, revert.
# Appends one line per patch to /verif/mutants/RESULTS.md. Never leaves /repo modified.
RUNS=1
if [ "$1" = "-n" ]; then RUNS=$2; shift 2; fi
cd /verif
for p in "$@"; do
  p=$(realpath "$p")
  name=$(basename "$p" .patch)
  ids=$(echo "$name" | sed 's/-.*//' | tr '+' ' ')
  if [ -n "$(git -C /repo status --porcelain --untracked-files=no)" ]; then echo "/repo is not clean"; exit 2; fi
  if ! git -C /repo apply "$p"; then echo "| $name | patch does not apply | | |" >> mutants/RESULTS.md; continue; fi
  suite=$(cd /repo && cargo test --workspace --no-fail-fast --offline 2>&1 | grep -E "^test result" | awk '{p+=$4; f+=$6} END {print p" passed, "f" failed"}')
  verdicts=""
  for id in $ids; do
    for i in $(seq $RUNS); do
      out=$(./run.sh $id quick 2>/dev/null); code=$?
      nviol=$(echo "$out" | grep -c "^VIOLATION property=$id")
      verdicts="$verdicts $id:exit$code/${nviol}keys"
    done
  done
  git -C /repo checkout -- .
  echo "| $name | $suite |$verdicts | $(date -u +%H:%M) |" | tee -a mutants/RESULTS.md
done
