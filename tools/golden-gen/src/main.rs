use blsful::inner_types::{Group, GroupEncoding};
use blsful::*;
use rand_core::SeedableRng;
use serde::{de::DeserializeOwned, Serialize};
use serde_json::{json, Value};

fn hx<T: AsRef<[u8]>>(b: T) -> String {
    hex::encode(b)
}

/// one value in its three encodings
fn value<T: Serialize>(out: &mut Vec<Value>, ty: &str, g: &str, label: &str, bytes: Option<Vec<u8>>, v: &T) {
    if let Some(b) = bytes {
        out.push(json!({"kind":"value","type":format!("{}<{}>", ty, g),"label":label,"codec":"Bytes","hex":hx(b)}));
    }
    out.push(json!({"kind":"value","type":format!("{}<{}>", ty, g),"label":label,"codec":"Bare","hex":hx(serde_bare::to_vec(v).unwrap())}));
    out.push(json!({"kind":"value","type":format!("{}<{}>", ty, g),"label":label,"codec":"Json","hex":hx(serde_json::to_vec(v).unwrap())}));
}

fn gen<C>(g: &str, out: &mut Vec<Value>)
where
    C: BlsSignatureImpl + Serialize + DeserializeOwned + PartialEq + Eq + Copy + std::fmt::Debug,
{
    let schemes = [
        ("Basic", SignatureSchemes::Basic),
        ("MessageAugmentation", SignatureSchemes::MessageAugmentation),
        ("ProofOfPossession", SignatureSchemes::ProofOfPossession),
    ];
    let sk = SecretKey::<C>::from_hash(b"golden corpus key");
    let sk2 = SecretKey::<C>::from_hash(b"golden corpus key 2");
    let pk = sk.public_key();
    let msg = b"golden corpus message, 33 bytes..".to_vec();
    let id = b"golden id".to_vec();
    value(out, "SecretKey", g, "key", Some(Vec::from(&sk)), &sk);
    out.push(json!({"kind":"value","type":format!("SecretKey<{}>", g),"label":"key","codec":"Be","hex":hx(sk.to_be_bytes())}));
    out.push(json!({"kind":"value","type":format!("SecretKey<{}>", g),"label":"key","codec":"Le","hex":hx(sk.to_le_bytes())}));
    value(out, "PublicKey", g, "key", Some(Vec::from(&pk)), &pk);
    out.push(json!({"kind":"keypair","group":g,"sk":hx(sk.to_be_bytes()),"pk":hx(Vec::from(&pk)),"seed":hx(b"golden corpus key")}));
    let pop = sk.proof_of_possession().unwrap();
    value(out, "ProofOfPossession", g, "pop", Some(Vec::from(&pop)), &pop);
    out.push(json!({"kind":"pop","group":g,"pk":hx(Vec::from(&pk)),"pop":hx(Vec::from(&pop))}));
    let mut sigs = vec![];
    for (sn, s) in schemes {
        let sig = sk.sign(s, &msg).unwrap();
        sigs.push(sig);
        value(out, "Signature", g, sn, Some(Vec::from(&sig)), &sig);
        out.push(json!({"kind":"signature","group":g,"scheme":sn,"pk":hx(Vec::from(&pk)),"msg":hx(&msg),"sig":hx(Vec::from(&sig))}));
        // aggregate of two signers over two messages
        let s2 = sk2.sign(s, b"second message").unwrap();
        let agg = AggregateSignature::<C>::from_signatures([sig, s2]).unwrap();
        value(out, "AggregateSignature", g, sn, Some(Vec::from(&agg)), &agg);
        out.push(json!({"kind":"aggregate","group":g,"scheme":sn,"agg":hx(Vec::from(&agg)),"pairs":[[hx(Vec::from(&pk)),hx(&msg)],[hx(Vec::from(&sk2.public_key())),hx(b"second message")]]}));
        if sn != "MessageAugmentation" {
            let m2 = sk2.sign(s, &msg).unwrap();
            let multi = MultiSignature::<C>::from_signatures([sig, m2]).unwrap();
            let mpk = MultiPublicKey::<C>::from_public_keys([pk, sk2.public_key()]);
            value(out, "MultiSignature", g, sn, Some(Vec::from(&multi)), &multi);
            value(out, "MultiPublicKey", g, sn, Some(Vec::from(&mpk)), &mpk);
            out.push(json!({"kind":"multisig","group":g,"scheme":sn,"multi":hx(Vec::from(&multi)),"mpk":hx(Vec::from(&mpk)),"msg":hx(&msg)}));
        }
        // signcryption
        let ct = pk.sign_crypt(s, &msg);
        value(out, "SignCryptCiphertext", g, sn, Some(Vec::from(&ct)), &ct);
        let key = sk.sign_decryption_key::<&[u8]>(&ct);
        value(out, "SignCryptDecryptionKey", g, sn, Some(Vec::from(&key)), &key);
        out.push(json!({"kind":"signcrypt","group":g,"scheme":sn,"sk":hx(sk.to_be_bytes()),"ct":hx(Vec::from(&ct)),"key":hx(Vec::from(&key)),"msg":hx(&msg)}));
        let ct0 = pk.sign_crypt(s, b"");
        out.push(json!({"kind":"signcrypt","group":g,"scheme":sn,"sk":hx(sk.to_be_bytes()),"ct":hx(Vec::from(&ct0)),"key":hx(Vec::from(&sk.sign_decryption_key::<&[u8]>(&ct0))),"msg":""}));
        // time lock
        let tl = pk.encrypt_time_lock(s, &msg, &id).unwrap();
        value(out, "TimeCryptCiphertext", g, sn, Some(Vec::from(&tl)), &tl);
        let idsig = sk.sign(s, &id).unwrap();
        let opened: Option<Vec<u8>> = tl.decrypt(&idsig).into();
        // trait level signature over the bare identifier under this scheme's tag
        let dst: &[u8] = match sn {
            "Basic" => <C as BlsSignatureBasic>::DST,
            "MessageAugmentation" => <C as BlsSignatureMessageAugmentation>::DST,
            _ => <C as BlsSignaturePop>::SIG_DST,
        };
        let core = <C as BlsSignatureCore>::core_sign(&sk.0, &id, dst).unwrap();
        let core_sig = match sn {
            "Basic" => Signature::<C>::Basic(core),
            "MessageAugmentation" => Signature::<C>::MessageAugmentation(core),
            _ => Signature::<C>::ProofOfPossession(core),
        };
        let opened_core: Option<Vec<u8>> = tl.decrypt(&core_sig).into();
        out.push(json!({"kind":"timelock","group":g,"scheme":sn,"ct":hx(Vec::from(&tl)),"id":hx(&id),
            "scheme_sig":hx(Vec::from(&idsig)),"scheme_sig_opens":opened.map(hx),
            "core_sig":hx(Vec::from(&core_sig)),"core_sig_opens":opened_core.map(hx),"msg":hx(&msg)}));
        // proofs of knowledge (the augmentation scheme only verifies over pk || msg)
        let pmsg: Vec<u8> = if sn == "MessageAugmentation" { let mut m = Vec::from(&pk); m.extend_from_slice(&msg); m } else { msg.clone() };
        let (c, x) = ProofCommitment::<C>::generate(&pmsg, sig).unwrap();
        let y = ProofCommitmentChallenge::<C>::from_hash(b"golden challenge");
        let pok = c.finalize(x, y, sig).unwrap();
        assert!(pok.verify(pk, &pmsg, y).is_ok());
        value(out, "ProofCommitment", g, sn, Some(Vec::from(&c)), &c);
        value(out, "ProofOfKnowledge", g, sn, Some(Vec::from(&pok)), &pok);
        if sn == "Basic" {
            value(out, "ProofCommitmentSecret", g, "x", Some(Vec::from(&x)), &x);
            value(out, "ProofCommitmentChallenge", g, "y", Some(Vec::from(&y)), &y);
        }
        out.push(json!({"kind":"pok","group":g,"scheme":sn,"pk":hx(Vec::from(&pk)),"msg":hx(&pmsg),"y":hx(Vec::from(&y)),"proof":hx(Vec::from(&pok))}));
        let pt = ProofOfKnowledgeTimestamp::<C>::generate(&pmsg, sig).unwrap();
        assert!(pt.verify(pk, &pmsg, None).is_ok());
        value(out, "ProofOfKnowledgeTimestamp", g, sn, Some(Vec::from(&pt)), &pt);
        out.push(json!({"kind":"pok_ts","group":g,"scheme":sn,"pk":hx(Vec::from(&pk)),"msg":hx(&pmsg),"proof":hx(Vec::from(&pt))}));
    }
    // shares
    let shares = sk.split_with_rng(2, 3, rand_chacha::ChaCha20Rng::from_seed([7u8; 32])).unwrap();
    let ct = pk.sign_crypt(SignatureSchemes::Basic, &msg);
    let eg = pk.encrypt_key_el_gamal(&sk2).unwrap();
    let mut sh_hex = vec![];
    let mut pk_sh_hex = vec![];
    let mut sig_sh_hex = vec![];
    let mut dec_sh_hex = vec![];
    let mut eg_sh_hex = vec![];
    for (i, sh) in shares.iter().enumerate() {
        let l = format!("share {}", i + 1);
        value(out, "SecretKeyShare", g, &l, Some(Vec::from(sh)), sh);
        let p = sh.public_key().unwrap();
        value(out, "PublicKeyShare", g, &l, Some(Vec::from(&p)), &p);
        let s = sh.sign(SignatureSchemes::ProofOfPossession, &msg).unwrap();
        value(out, "SignatureShare", g, &l, Some(Vec::from(&s)), &s);
        let d = ct.create_decryption_share(sh).unwrap();
        value(out, "SignDecryptionShare", g, &l, Some(Vec::from(&d)), &d);
        let e = ElGamalDecryptionShare::<C>(<C as BlsSignatureCore>::public_key_share_with_generator(&sh.0, eg.c1).unwrap());
        value(out, "ElGamalDecryptionShare", g, &l, Some(Vec::from(&e)), &e);
        sh_hex.push(hx(Vec::from(sh)));
        pk_sh_hex.push(hx(Vec::from(&p)));
        sig_sh_hex.push(hx(Vec::from(&s)));
        dec_sh_hex.push(hx(Vec::from(&d)));
        eg_sh_hex.push(hx(Vec::from(&e)));
    }
    let whole = sk.sign(SignatureSchemes::ProofOfPossession, &msg).unwrap();
    out.push(json!({"kind":"shares","group":g,"sk":hx(sk.to_be_bytes()),"pk":hx(Vec::from(&pk)),"msg":hx(&msg),"whole_sig":hx(Vec::from(&whole)),
        "secret_shares":sh_hex,"pk_shares":pk_sh_hex,"sig_shares":sig_sh_hex,
        "signcrypt_ct":hx(Vec::from(&ct)),"dec_shares":dec_sh_hex,
        "elgamal_ct":hx(Vec::from(&eg)),"elgamal_shares":eg_sh_hex,"elgamal_plain_point":hx(eg.decrypt(&sk).to_bytes())}));
    // ElGamal
    value(out, "ElGamalCiphertext", g, "ct", Some(Vec::from(&eg)), &eg);
    let egp = pk.encrypt_key_el_gamal_with_proof(&sk2).unwrap();
    assert!(egp.verify(pk).is_ok());
    value(out, "ElGamalProof", g, "proof", Some(Vec::from(&egp)), &egp);
    let dk = ElGamalDecryptionKey::<C>(eg.c1 * sk.0);
    value(out, "ElGamalDecryptionKey", g, "key", Some(Vec::from(&dk)), &dk);
    let gen = <C as BlsElGamal>::message_generator();
    out.push(json!({"kind":"elgamal","group":g,"sk":hx(sk.to_be_bytes()),"pk":hx(Vec::from(&pk)),"plain_sk":hx(sk2.to_be_bytes()),
        "ct":hx(Vec::from(&eg)),"proof":hx(Vec::from(&egp)),"generator":hx(gen.to_bytes()),"plain_point":hx((gen * sk2.0).to_bytes()),"dec_key":hx(Vec::from(&dk))}));
    // deterministic derivations
    let ch = ProofCommitmentChallenge::<C>::from_hash(b"golden challenge");
    out.push(json!({"kind":"derive","group":g,"challenge_from_hash":hx(Vec::from(&ch)),"key_from_hash":hx(sk.to_be_bytes())}));
}

fn main() {
    let mut out = vec![];
    gen::<Bls12381G1Impl>("G1", &mut out);
    gen::<Bls12381G2Impl>("G2", &mut out);
    // non generic types (serde forms; the byte form of SecretKeyEnum was never self-readable at the pinned commit)
    let k1 = SecretKeyEnum::from_hash(Bls12381::G1, b"golden corpus key");
    let k2 = SecretKeyEnum::from_hash(Bls12381::G2, b"golden corpus key");
    for (l, k) in [("G1", &k1), ("G2", &k2)] {
        out.push(json!({"kind":"value","type":"SecretKeyEnum","label":l,"codec":"Bare","hex":hx(serde_bare::to_vec(k).unwrap())}));
        out.push(json!({"kind":"value","type":"SecretKeyEnum","label":l,"codec":"Json","hex":hx(serde_json::to_vec(k).unwrap())}));
    }
    for s in [SignatureSchemes::Basic, SignatureSchemes::MessageAugmentation, SignatureSchemes::ProofOfPossession] {
        out.push(json!({"kind":"value","type":"SignatureSchemes","label":s.to_string(),"codec":"Bare","hex":hx(serde_bare::to_vec(&s).unwrap())}));
        out.push(json!({"kind":"value","type":"SignatureSchemes","label":s.to_string(),"codec":"Json","hex":hx(serde_json::to_vec(&s).unwrap())}));
    }
    for b in [Bls12381::G1, Bls12381::G2] {
        out.push(json!({"kind":"value","type":"Bls12381","label":b.to_string(),"codec":"Bare","hex":hx(serde_bare::to_vec(&b).unwrap())}));
        out.push(json!({"kind":"value","type":"Bls12381","label":b.to_string(),"codec":"Json","hex":hx(serde_json::to_vec(&b).unwrap())}));
    }
    let doc = json!({"pinned_commit":"4bdca94","generated_by":"/verif/tools/golden-gen against a pristine worktree of the pinned commit","entries":out});
    std::fs::write("/verif/golden/corpus.json", serde_json::to_string_pretty(&doc).unwrap()).unwrap();
    println!("{} entries", doc["entries"].as_array().unwrap().len());
}
