#!/usr/bin/env python3
"""Regenerates /verif/MANIFEST.json from the table below (claimed checks) - run after adding a check."""
import json, subprocess
props=[json.loads(l) for l in open('/verif/properties.jsonl')]
T="bounded explicit-state exploration (BFS with visited set over the real blsful API, deviation-bounded) + independent reference model as oracle"
CLAIMS={
 "C01":("6.C01","Exhaustive over a stated finite space: every (group, scheme, key, message) tuple of the alphabets, and on a 3x3 sub-alphabet every combination of encodings for secret key, public key and signature (BFS over transport actions, depth 3). Each state executes the real sign/sign/public_key/verify, a negative control, and the independent reference verifier. Data values outside the alphabets are not covered - that is the limit of this family for a pure function.",
        "trusts rustc, bls12_381_plus as reference arithmetic (anchored by RFC 9380 / RFC 5869 vectors at start-up), sha2/hmac shared by subject and reference"),
}
checks=[]
for p in props:
    i=p["id"]
    if i in CLAIMS:
        ref,text,note=CLAIMS[i]
        checks.append({"property_id":i,"quick_cmd":f"./run.sh {i} quick","thorough_cmd":f"./run.sh {i} thorough",
          "evidence_file":f"/verif/evidence/{i}.json","replay_cmd_template":"./run.sh replay {path}","engine":"blsful-mc",
          "level_claimed":{"category":"model_checking","text":text,"design_ref":ref},"level_note":note,"technique":T})
hooks=subprocess.run(["git","-C","/repo","log","--format=%H","--grep=^verif-hooks"],capture_output=True,text=True).stdout.split()
m={"version":1,"setup_cmd":"./setup.sh",
 "hooks":{"guard":"cargo feature `verif-hooks` of blsful","enable":"the harness crate depends on /repo by path with features=[\"verif-hooks\"]; with the feature compiled in but no override installed the crate behaves as without it","baseline_off_cmd":"cd /repo && cargo test --workspace --no-fail-fast --offline","source_commits":hooks,"add_only":True},
 "engines":[{"name":"blsful-mc","path":"/verif/harness","serves_properties":[c["property_id"] for c in checks],"kind_free_text":"Rust binary: bounded explicit-state explorer (BFS, visited set, depth/deviation bound, 16 threads) that executes the real blsful API in every state; reference model on bls12_381_plus; stateright 0.31 BFS cross-check of state counts for the stateful models in the thorough tier"}],
 "checks":checks,
 "not_applicable":[{"property_id":p["id"],"reason":"check still under construction (DESIGN.md section 6 describes the planned model); not claimed yet"} for p in props if p["id"] not in CLAIMS],
 "notes":"Exit codes: 0 held (KNOWN-FINDING lines possible), 1 violation (VIOLATION line + replay file), 2 machinery failure (never a verdict). Known findings: /verif/KNOWN_FINDINGS.txt."}
json.dump(m,open('/verif/MANIFEST.json','w'),indent=1)
print(len(checks),"checks claimed")
