#!/bin/bash
export VERIF_EVIDENCE_DIR=/var/tmp/evidence-experiments
# usage: tools/recheck_seeds.sh <suffix e.g. agent5> [ids...]: apply each confirmed seed to /repo, run the owning property's quick check, revert
suffix=$1; shift
ids=${@:-$(seq -w 1 20 | sed 's/^/C/')}
cd /verif
for id in $ids; do
  d=/verif/seeded/$id-$suffix
  [ -f $d/patch.diff ] || continue
  if [ -n "$(git -C /repo status --porcelain --untracked-files=no)" ]; then echo "/repo not clean"; exit 2; fi
  git -C /repo apply $d/patch.diff || { echo "$id: patch does not apply"; continue; }
  out=$(./run.sh $id quick 2>/dev/null); code=$?
  git -C /repo checkout -- .
  keys=$(echo "$out" | grep -c "^VIOLATION property=$id")
  echo "$id-$suffix exit$code/${keys}keys"
done
