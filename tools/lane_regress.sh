#!/bin/bash
# usage: tools/lane_regress.sh <out file> <suffix...>: every confirmed seed of the given rounds applied in the lane, owner's quick check run there
out=$1; shift
touch $out
for suffix in "$@"; do
  for id in $(seq -w 1 20 | sed 's/^/C/'); do
    d=/verif/seeded/$id-$suffix
    [ -f $d/patch.diff ] || continue
    grep -q "^$id-$suffix " $out && continue
    /verif/tools/lane.sh clean
    if ! /verif/tools/lane.sh apply $d/patch.diff 2>/dev/null; then echo "$id-$suffix patch-does-not-apply" >> $out; continue; fi
    res=$(/verif/tools/lane.sh run $id quick 2>/dev/null); code=$?
    keys=$(echo "$res" | grep -c "^VIOLATION property=$id")
    echo "$id-$suffix exit$code/${keys}keys" >> $out
  done
done
/verif/tools/lane.sh clean
echo DONE >> $out
