#!/bin/bash
# A second lane: the same harness and checks run against a scratch worktree of /repo under /var/tmp/lane, so that seeded
# changes can be applied and checked there while /repo stays untouched.
#   tools/lane.sh setup            create / refresh the lane (worktree of /repo HEAD, copy of harness + xb)
#   tools/lane.sh run <ID> [tier]  build the lane's harness against the lane's repo and run one check
#   tools/lane.sh apply <patch>    apply a patch to the lane's repo;  tools/lane.sh clean  restore it
#   tools/lane.sh remove           delete the lane with its build output
L=/var/tmp/lane
case "$1" in
  setup)
    [ -d $L/repo ] || git -C /repo worktree add -q --detach $L/repo HEAD
    git -C $L/repo checkout -q --detach $(git -C /repo rev-parse HEAD); git -C $L/repo checkout -q -- .
    mkdir -p $L/verif $L/.target $L/replays $L/evidence
    rsync -a --delete /verif/harness/ $L/verif/harness/ --exclude target
    rsync -a --delete /verif/xb/ $L/verif/xb/ --exclude target
    sed -i "s#path = \"/repo\"#path = \"$L/repo\"#" $L/verif/harness/Cargo.toml $L/verif/xb/Cargo.toml
    sed -i "s#/verif/.target#$L/.target#" $L/verif/harness/.cargo/config.toml 2>/dev/null
    grep -n "path = " $L/verif/harness/Cargo.toml $L/verif/xb/Cargo.toml ;;
  apply) git -C $L/repo apply "$2" ;;
  clean) git -C $L/repo checkout -q -- . ;;
  run)
    id=$2; tier=${3:-quick}
    export CARGO_NET_OFFLINE=true CARGO_TARGET_DIR=$L/.target VERIF_LANE=$L VERIF_REPO=$L/repo
    cd $L/verif/harness || exit 2
    [ -n "$LANE_SINGLE_PROFILE" ] && export VERIF_SINGLE_PROFILE=1
    if [ "$id" != C19 ] && [ -z "$LANE_SINGLE_PROFILE" ]; then cargo build --profile checked --offline >$L/.target/build-checked.log 2>&1 & cpid=$!; fi
    cargo build --release --offline >$L/.target/build.log 2>&1 || { tail -20 $L/.target/build.log >&2; echo "MACHINERY-ERROR build failed" >&2; [ -n "$cpid" ] && wait $cpid; exit 2; }
    if [ -n "$cpid" ]; then wait $cpid || { tail -20 $L/.target/build-checked.log >&2; echo "MACHINERY-ERROR build (checked) failed" >&2; exit 2; }; fi
    if [ "$id" = C19 ]; then
      for b in blst rust; do (cd $L/verif/xb && cargo build --release --offline --no-default-features --features $b --target-dir $L/.target/xb-$b >$L/.target/build-xb-$b.log 2>&1) || { echo "MACHINERY-ERROR xb $b build failed" >&2; exit 2; }; done
    fi
    exec $L/.target/release/blsful-mc $id $tier ;;
  remove)
    git -C /repo worktree remove --force $L/repo 2>/dev/null; rm -rf $L; git -C /repo worktree prune ;;
  *) echo "usage: $0 setup|run|apply|clean|remove"; exit 2 ;;
esac
