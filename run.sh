#!/bin/sh
# usage: ./run.sh <ID> quick|thorough   |   ./run.sh replay <file>
# Rebuilds the harness against /repo's current working tree (verif-hooks feature on), then runs.
cd /verif/harness || exit 2
export CARGO_NET_OFFLINE=true
# the build output location is fixed: an inherited CARGO_TARGET_DIR must not redirect it
export CARGO_TARGET_DIR=/verif/.target
# the release and the checked profile (release + debug assertions + overflow checks in every crate) build side by side;
# every check except C19 runs in both (C19 compares the backends through its own tool)
case "$1" in
  C19|c19) checked=no ;;
  *) checked=yes ;;
esac
if [ $checked = yes ]; then
  cargo build --profile checked --offline >/verif/.target/build-checked.log 2>&1 &
  cpid=$!
fi
if ! cargo build --release --offline >/verif/.target/build.log 2>&1; then
  # a tree that does not compile is a machinery failure, never a verdict
  tail -40 /verif/.target/build.log >&2
  echo "MACHINERY-ERROR build failed" >&2
  [ $checked = yes ] && wait $cpid
  exit 2
fi
if [ $checked = yes ] && ! wait $cpid; then
  tail -40 /verif/.target/build-checked.log >&2
  echo "MACHINERY-ERROR build (checked profile) failed" >&2
  exit 2
fi
case "$1" in
  C19|c19|replay)
    # C19 compares the two arithmetic backends: build the transcript tool once per backend
    for b in blst rust; do
      if ! (cd /verif/xb && cargo build --release --offline --no-default-features --features $b --target-dir /verif/.target/xb-$b >/verif/.target/build-xb-$b.log 2>&1); then
        tail -40 /verif/.target/build-xb-$b.log >&2
        echo "MACHINERY-ERROR build of xb ($b backend) failed" >&2
        exit 2
      fi
    done ;;
esac
exec /verif/.target/release/blsful-mc "$@"
