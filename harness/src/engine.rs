//! Bounded explicit-state explorer over the real blsful API.
//!
//! A `Model` describes a finite space of executions: initial states, the actions
//! enabled in a state, the successor, and a `check` that runs the *real* library on
//! the execution the state denotes and records observations. The explorer does
//! breadth-first search with a visited set (the state itself is the canonical key),
//! a depth bound, runs `check` on every distinct state exactly once, and counts
//! states / transitions / evaluations / outcome classes. Nothing here samples.
use rayon::prelude::*;
use serde::{de::DeserializeOwned, Serialize};
use sha2::{Digest, Sha256};
use std::collections::{BTreeMap, HashSet};
use std::fmt::Debug;
use std::hash::Hash;
use std::panic::{catch_unwind, AssertUnwindSafe};
use std::time::Instant;

#[derive(Copy, Clone, Debug, PartialEq, Eq)]
pub enum Tier {
    Quick,
    Thorough,
}

impl Tier {
    pub fn name(self) -> &'static str {
        match self {
            Tier::Quick => "quick",
            Tier::Thorough => "thorough",
        }
    }
    pub fn thorough(self) -> bool {
        self == Tier::Thorough
    }
}

#[derive(Clone, Debug, Serialize, serde::Deserialize)]
pub struct Violation {
    /// structural finding key (entry point, scheme, group, mutation class) - never seed dependent data
    pub key: String,
    pub expected: String,
    pub observed: String,
}

/// Per-state observation collector handed to `Model::check`.
pub struct Obs {
    pub evals: u64,
    pub nontrivial: bool,
    pub outcomes: Vec<String>,
    pub violations: Vec<Violation>,
    pub notes: Vec<String>,
    hasher: Sha256,
}

impl Default for Obs {
    fn default() -> Self {
        Self::new()
    }
}

impl Obs {
    pub fn violations_len(&self) -> usize {
        self.violations.len()
    }
    pub fn new() -> Self {
        Obs {
            evals: 0,
            nontrivial: false,
            outcomes: vec![],
            violations: vec![],
            notes: vec![],
            hasher: Sha256::new(),
        }
    }
    /// count `n` real library calls
    pub fn calls(&mut self, n: u64) {
        self.evals += n;
    }
    /// feed raw observation bytes into the determinism digest
    pub fn record(&mut self, tag: &str, data: &[u8]) {
        self.hasher.update((tag.len() as u32).to_le_bytes());
        self.hasher.update(tag.as_bytes());
        self.hasher.update((data.len() as u32).to_le_bytes());
        self.hasher.update(data);
    }
    /// an outcome class of an invariant (for the vacuity guards / histogram)
    pub fn outcome(&mut self, class: &str) {
        self.record("outcome", class.as_bytes());
        self.outcomes.push(class.to_string());
    }
    /// recorded-not-judged observation
    pub fn note(&mut self, s: String) {
        self.record("note", s.as_bytes());
        if self.notes.len() < 4 {
            self.notes.push(s);
        }
    }
    /// state an expectation; a failed one is a violation with the given finding key
    pub fn expect(&mut self, key: &str, ok: bool, expected: &str, observed: &str) {
        self.record("expect", key.as_bytes());
        self.record("ok", &[ok as u8]);
        if !ok {
            self.violations.push(Violation {
                key: key.to_string(),
                expected: expected.to_string(),
                observed: observed.to_string(),
            });
        }
    }
    pub fn digest(&self) -> [u8; 32] {
        self.hasher.clone().finalize().into()
    }
}

thread_local! {
    static LAST_PANIC: std::cell::RefCell<String> = const { std::cell::RefCell::new(String::new()) };
}

/// Install a panic hook that stays quiet and remembers the message for the calling thread.
pub fn install_quiet_panic_hook() {
    std::panic::set_hook(Box::new(|info| {
        let msg = if let Some(s) = info.payload().downcast_ref::<&str>() {
            s.to_string()
        } else if let Some(s) = info.payload().downcast_ref::<String>() {
            s.clone()
        } else {
            "panic".to_string()
        };
        let loc = info
            .location()
            .map(|l| {
                // keep only the file name: line numbers and paths are not part of finding keys
                let f = l.file().rsplit('/').next().unwrap_or("?");
                format!("{}:{}", f, l.line())
            })
            .unwrap_or_default();
        LAST_PANIC.with(|p| *p.borrow_mut() = format!("{} @ {}", msg, loc));
    }));
}

pub fn last_panic() -> String {
    LAST_PANIC.with(|p| p.borrow().clone())
}

/// Run a library call, turning a panic into `Err(message)`.
pub fn guard<T>(f: impl FnOnce() -> T) -> Result<T, String> {
    match catch_unwind(AssertUnwindSafe(f)) {
        Ok(v) => Ok(v),
        Err(_) => Err(last_panic()),
    }
}

pub trait Model {
    type State: Clone + Eq + Hash + Debug + Send + Sync + Serialize + DeserializeOwned + 'static;
    type Action: Clone + Debug + Send + Sync + 'static;
    fn name(&self) -> String;
    fn init(&self) -> Vec<Self::State>;
    fn actions(&self, s: &Self::State) -> Vec<Self::Action>;
    fn step(&self, s: &Self::State, a: &Self::Action) -> Option<Self::State>;
    /// run the real code on the execution this state denotes
    fn check(&self, s: &Self::State, obs: &mut Obs);
    /// human readable path / description of the state
    fn describe(&self, s: &Self::State) -> String {
        format!("{:?}", s)
    }
    /// outcome classes that must all have been observed, else the run is vacuous (exit 2)
    fn required_outcomes(&self) -> Vec<String> {
        vec![]
    }
}

/// The explorer hands `&M` to worker threads. Models are only ever instantiated with the two
/// concrete curve assignments, whose point and scalar types are plain data (Send + Sync, asserted
/// in `main::static_asserts`); the generic associated types merely hide that from the compiler.
struct AssertSync<'a, M>(&'a M);
unsafe impl<'a, M> Send for AssertSync<'a, M> {}
unsafe impl<'a, M> Sync for AssertSync<'a, M> {}

#[derive(Default, Clone, Serialize, serde::Deserialize)]
pub struct ModelStats {
    pub model: String,
    pub states: u64,
    pub transitions: u64,
    pub evaluations: u64,
    pub distinct_nontrivial: u64,
    pub max_depth: usize,
    pub depth_bound: usize,
    pub states_per_depth: Vec<u64>,
    pub outcome_histogram: BTreeMap<String, u64>,
    pub samples: Vec<String>,
    pub notes: Vec<String>,
    pub determinism_rechecked: u64,
    pub wall_s: f64,
    pub stateright_unique_states: Option<u64>,
}

#[derive(Serialize, serde::Deserialize)]
pub struct FoundViolation {
    pub model: String,
    pub state_json: String,
    pub describe: String,
    pub depth: usize,
    pub v: Violation,
}

#[derive(Serialize, serde::Deserialize)]
pub struct Exploration {
    pub stats: ModelStats,
    pub violations: Vec<FoundViolation>,
    pub machinery_errors: Vec<String>,
}

/// Options for running the explorer inside a child process on one partition of the initial states.
#[derive(Clone, Copy)]
pub struct Opts {
    pub part: usize,
    pub nparts: usize,
    /// sequential, and print `CASE <state>` before every check so a dead process names its last case
    pub progress: bool,
}

pub static CASE_STARTED_MS: std::sync::atomic::AtomicU64 = std::sync::atomic::AtomicU64::new(0);

pub fn now_ms() -> u64 {
    std::time::SystemTime::now().duration_since(std::time::UNIX_EPOCH).map(|d| d.as_millis() as u64).unwrap_or(0)
}

pub fn explore<M: Model>(m: &M, depth_bound: usize) -> Exploration {
    explore_opts(m, depth_bound, Opts { part: 0, nparts: 1, progress: false })
}

pub fn explore_opts<M: Model>(m: &M, depth_bound: usize, opts: Opts) -> Exploration {
    let t0 = Instant::now();
    let shared = AssertSync(m);
    let mut stats = ModelStats {
        model: m.name(),
        depth_bound,
        ..Default::default()
    };
    let mut violations = vec![];
    let mut machinery = vec![];
    let mut visited: HashSet<M::State> = HashSet::new();
    let mut frontier: Vec<M::State> = vec![];
    for (i, s) in m.init().into_iter().enumerate() {
        if i % opts.nparts != opts.part {
            continue;
        }
        if visited.insert(s.clone()) {
            frontier.push(s);
        }
    }
    let mut depth = 0usize;
    let mut recheck: Vec<(M::State, [u8; 32])> = vec![];
    let mut all_samples: Vec<String> = vec![];
    while !frontier.is_empty() {
        stats.states_per_depth.push(frontier.len() as u64);
        stats.max_depth = depth;
        // run the real code on every state of this level, in parallel, results kept in order
        let run_one = |s: &M::State| {
                let sh = &shared;
                let mut obs = Obs::new();
                if opts.progress {
                    use std::io::Write;
                    CASE_STARTED_MS.store(now_ms(), std::sync::atomic::Ordering::SeqCst);
                    let mut so = std::io::stdout().lock();
                    let _ = writeln!(so, "CASE {}", serde_json::to_string(s).unwrap_or_default());
                    let _ = so.flush();
                }
                if let Err(p) = guard(|| sh.0.check(s, &mut obs)) {
                    obs.expect(
                        &format!("{}:harness-panic", sh.0.name()),
                        false,
                        "check completes",
                        &format!("PANIC {}", p),
                    );
                }
                let mut succ = vec![];
                let mut trans = 0u64;
                if depth < depth_bound {
                    for a in sh.0.actions(s) {
                        if let Some(n) = sh.0.step(s, &a) {
                            trans += 1;
                            succ.push(n);
                        }
                    }
                }
                (obs, succ, trans)
        };
        let results: Vec<(Obs, Vec<M::State>, u64)> = if opts.progress { frontier.iter().map(run_one).collect() } else { frontier.par_iter().map(run_one).collect() };
        if opts.progress {
            CASE_STARTED_MS.store(0, std::sync::atomic::Ordering::SeqCst);
        }
        let mut next = vec![];
        let n_level = frontier.len();
        for (i, (s, (obs, succ, trans))) in frontier.iter().zip(results.into_iter()).enumerate() {
            stats.states += 1;
            stats.transitions += trans;
            stats.evaluations += obs.evals;
            if obs.nontrivial {
                stats.distinct_nontrivial += 1;
            }
            for o in &obs.outcomes {
                *stats.outcome_histogram.entry(o.clone()).or_insert(0) += 1;
            }
            for n in &obs.notes {
                if stats.notes.len() < 12 {
                    stats.notes.push(n.clone());
                }
            }
            if i == 0 || i == n_level / 2 || i + 1 == n_level {
                all_samples.push(format!("depth {}: {}", depth, m.describe(s)));
            }
            if stats.states % 97 == 1 && recheck.len() < 24 {
                recheck.push((s.clone(), obs.digest()));
            }
            for v in obs.violations {
                violations.push(FoundViolation {
                    model: m.name(),
                    state_json: serde_json::to_string(s).unwrap_or_default(),
                    describe: m.describe(s),
                    depth,
                    v,
                });
            }
            for n in succ {
                if visited.insert(n.clone()) {
                    next.push(n);
                }
            }
        }
        frontier = next;
        depth += 1;
    }
    // determinism self-check: a fixed slice of states is executed again and digests compared
    for (s, d) in &recheck {
        let mut obs = Obs::new();
        let _ = guard(|| m.check(s, &mut obs));
        stats.determinism_rechecked += 1;
        if &obs.digest() != d {
            machinery.push(format!(
                "nondeterministic observations for state {} of model {}",
                m.describe(s),
                m.name()
            ));
        }
    }
    for r in m.required_outcomes() {
        if stats.outcome_histogram.get(&r).copied().unwrap_or(0) == 0 {
            machinery.push(format!(
                "vacuity guard: outcome class '{}' never observed in model {}",
                r,
                m.name()
            ));
        }
    }
    // keep first / middle / last samples overall plus per level ones (bounded)
    let k = all_samples.len();
    if k <= 9 {
        stats.samples = all_samples;
    } else {
        let idx = [0, 1, 2, k / 2 - 1, k / 2, k / 2 + 1, k - 3, k - 2, k - 1];
        stats.samples = idx.iter().map(|i| all_samples[*i].clone()).collect();
    }
    stats.wall_s = t0.elapsed().as_secs_f64();
    Exploration {
        stats,
        violations,
        machinery_errors: machinery,
    }
}

/// Re-run one state (from a replay file) twice without the explorer.
pub fn replay_state<M: Model>(m: &M, state_json: &str) -> Result<(Vec<Violation>, bool), String> {
    let s: M::State = serde_json::from_str(state_json).map_err(|e| e.to_string())?;
    let mut o1 = Obs::new();
    let r1 = guard(|| m.check(&s, &mut o1));
    let mut o2 = Obs::new();
    let r2 = guard(|| m.check(&s, &mut o2));
    if let Err(p) = r1 {
        o1.expect("harness-panic", false, "check completes", &p);
    }
    let _ = r2;
    let same = o1.digest() == o2.digest();
    Ok((o1.violations, same))
}

// ---------------------------------------------------------------------------------------------
// stateright cross-check: the same model value explored by stateright's BFS checker; the unique
// state count must equal the explorer's and no `always` property may have a discovery.

pub mod sr {
    use super::*;
    use std::sync::Arc;

    pub struct Adapter<M: Model> {
        pub m: Arc<M>,
        pub depth_bound: usize,
        pub depth_of: fn(&M, &M::State) -> usize,
        /// evaluate the oracle in every state again (models up to RECHECK_LIMIT states); above that the cross-check
        /// compares the reachable state sets only - the oracle has already run in every state under the explorer
        pub recheck: bool,
    }
    pub const RECHECK_LIMIT: u64 = 20_000;
    unsafe impl<M: Model> Send for Adapter<M> {}
    unsafe impl<M: Model> Sync for Adapter<M> {}

    impl<M: Model + 'static> stateright::Model for Adapter<M> {
        type State = M::State;
        type Action = M::Action;
        fn init_states(&self) -> Vec<Self::State> {
            self.m.init()
        }
        fn actions(&self, state: &Self::State, actions: &mut Vec<Self::Action>) {
            if (self.depth_of)(&self.m, state) < self.depth_bound {
                actions.extend(self.m.actions(state));
            }
        }
        fn next_state(&self, last: &Self::State, action: Self::Action) -> Option<Self::State> {
            self.m.step(last, &action)
        }
        fn properties(&self) -> Vec<stateright::Property<Self>> {
            // violations listed as known findings do not count: stateright stops exploring as soon as every
            // property has a discovery, so a known finding would otherwise end the search early
            vec![stateright::Property::<Self>::always("invariants", |a, s| {
                if !a.recheck {
                    return true;
                }
                let mut obs = Obs::new();
                let r = guard(|| a.m.check(s, &mut obs));
                r.is_ok() && obs.violations.iter().all(|v| is_known_key(&v.key))
            })]
        }
    }

    /// returns (unique states, discovery present)
    pub fn cross_check<M: Model + 'static>(
        m: Arc<M>,
        depth_bound: usize,
        depth_of: fn(&M, &M::State) -> usize,
        recheck: bool,
    ) -> (u64, bool)
    where
        M::Action: PartialEq,
    {
        use stateright::{Checker, Model as _};
        let a = Adapter {
            m,
            depth_bound,
            depth_of,
            recheck,
        };
        let checker = a.checker().threads(16).spawn_bfs().join();
        let n = checker.unique_state_count() as u64;
        let disc = checker.discovery("invariants").is_some();
        (n, disc)
    }
}

// ---------------------------------------------------------------------------------------------
// Report: merges explorations of one property, applies known findings, writes evidence, prints
// VIOLATION / KNOWN-FINDING lines and yields the exit code.

pub struct Report {
    pub property: String,
    pub tier: Tier,
    pub seed: u64,
    pub started: Instant,
    pub models: Vec<ModelStats>,
    pub violations: Vec<FoundViolation>,
    pub machinery_errors: Vec<String>,
    pub rule: String,
    pub assumptions: Vec<String>,
    pub not_covered: Vec<String>,
    pub alphabet: BTreeMap<String, serde_json::Value>,
    pub exhaustive: bool,
    pub deviation_bound_completed: String,
    pub extra: BTreeMap<String, serde_json::Value>,
    /// the same models explored by the binary built with debug assertions and overflow checks (second pass)
    pub profile_models: Vec<ModelStats>,
}

/// where scratch output goes (replays, evidence, child scratch, the per-backend tools): /verif, or the directory named
/// by VERIF_LANE when the same harness is run a second time side by side (regression of the seeded changes against a
/// scratch copy of the repository); the committed inputs (known findings, golden corpus, vectors) are always read from /verif
pub fn lane() -> String {
    std::env::var("VERIF_LANE").unwrap_or_else(|_| "/verif".to_string())
}
/// the repository whose sources the registry self-check parses
pub fn repo_dir() -> String {
    std::env::var("VERIF_REPO").unwrap_or_else(|_| "/repo".to_string())
}

pub const CHECKED_SUFFIX: &str = " [checked profile]";

/// what a second-profile child hands back to its parent
#[derive(Serialize, serde::Deserialize)]
pub struct ProfileSummary {
    pub models: Vec<ModelStats>,
    pub violations: Vec<FoundViolation>,
    pub machinery_errors: Vec<String>,
}

#[derive(Debug)]
struct KnownFinding {
    property: String,
    key_glob: String,
    text: String,
}

fn glob_match(pat: &str, s: &str) -> bool {
    // '*' matches any run of characters
    let parts: Vec<&str> = pat.split('*').collect();
    if parts.len() == 1 {
        return pat == s;
    }
    let mut pos = 0usize;
    for (i, p) in parts.iter().enumerate() {
        if p.is_empty() {
            continue;
        }
        if i == 0 {
            if !s.starts_with(p) {
                return false;
            }
            pos = p.len();
        } else if i == parts.len() - 1 {
            return s.len() >= pos + p.len() && s[pos..].ends_with(p);
        } else {
            match s[pos..].find(p) {
                Some(k) => pos += k + p.len(),
                None => return false,
            }
        }
    }
    true
}

pub fn is_known_key(key: &str) -> bool {
    static KNOWN: std::sync::OnceLock<Vec<KnownFinding>> = std::sync::OnceLock::new();
    KNOWN.get_or_init(load_known_findings).iter().any(|k| glob_match(&k.key_glob, key))
}

fn load_known_findings() -> Vec<KnownFinding> {
    let mut out = vec![];
    let txt = std::fs::read_to_string("/verif/KNOWN_FINDINGS.txt").unwrap_or_default();
    for line in txt.lines() {
        let line = line.trim();
        if let Some(rest) = line.strip_prefix("finding:") {
            let rest = rest.trim();
            let mut it = rest.splitn(3, ' ');
            let p = it.next().unwrap_or("");
            let k = it.next().unwrap_or("");
            let t = it.next().unwrap_or("");
            if let (Some(p), Some(k)) = (p.strip_prefix("property="), k.strip_prefix("key=")) {
                out.push(KnownFinding {
                    property: p.to_string(),
                    key_glob: k.to_string(),
                    text: t.to_string(),
                });
            }
        }
    }
    out
}

impl Report {
    pub fn new(property: &str, tier: Tier, seed: u64) -> Self {
        Report {
            property: property.to_string(),
            tier,
            seed,
            started: Instant::now(),
            models: vec![],
            violations: vec![],
            machinery_errors: vec![],
            rule: String::new(),
            assumptions: vec![],
            not_covered: vec![],
            alphabet: BTreeMap::new(),
            exhaustive: true,
            deviation_bound_completed: String::new(),
            extra: BTreeMap::new(),
            profile_models: vec![],
        }
    }

    /// merge the exploration of the same property by the checked-profile binary: a violation whose key the
    /// release pass did not report is added (its replay runs under the checked binary)
    pub fn merge_profile(&mut self, sum: ProfileSummary) {
        for mut m in sum.models {
            m.model.push_str(CHECKED_SUFFIX);
            self.profile_models.push(m);
        }
        for mut v in sum.violations {
            if !self.violations.iter().any(|x| x.v.key == v.v.key) {
                v.model.push_str(CHECKED_SUFFIX);
                self.violations.push(v);
            }
        }
        for e in sum.machinery_errors {
            self.machinery_errors.push(format!("checked profile: {}", e));
        }
    }

    pub fn run<M: Model>(&mut self, m: &M, depth_bound: usize) -> &ModelStats {
        let ex = explore(m, depth_bound);
        eprintln!(
            "[{}] model {}: states={} transitions={} evaluations={} nontrivial={} depth<={} ({:.1}s) outcomes={:?}",
            self.property,
            ex.stats.model,
            ex.stats.states,
            ex.stats.transitions,
            ex.stats.evaluations,
            ex.stats.distinct_nontrivial,
            ex.stats.max_depth,
            ex.stats.wall_s,
            ex.stats.outcome_histogram
        );
        self.models.push(ex.stats);
        self.violations.extend(ex.violations);
        self.machinery_errors.extend(ex.machinery_errors);
        self.models.last().unwrap()
    }

    /// thorough tier: explore the same model with stateright and compare unique state counts
    pub fn cross_check<M: Model + 'static>(
        &mut self,
        m: std::sync::Arc<M>,
        depth_bound: usize,
        depth_of: fn(&M, &M::State) -> usize,
    ) where
        M::Action: PartialEq,
    {
        let name = m.name();
        let t0 = Instant::now();
        let ours = self
            .models
            .iter()
            .find(|s| s.model == name)
            .map(|s| s.states)
            .unwrap_or(0);
        let (n, disc) = sr::cross_check(m, depth_bound, depth_of, ours <= sr::RECHECK_LIMIT);
        eprintln!(
            "[{}] stateright cross-check {}: unique_states={} (explorer {}), discovery={} ({:.1}s)",
            self.property,
            name,
            n,
            ours,
            disc,
            t0.elapsed().as_secs_f64()
        );
        if let Some(s) = self.models.iter_mut().find(|s| s.model == name) {
            s.stateright_unique_states = Some(n);
        }
        if n != ours {
            self.machinery_errors.push(format!(
                "cross-engine mismatch for {}: stateright {} unique states, explorer {}",
                name, n, ours
            ));
        }
        let ours_viol = self.violations.iter().any(|v| v.model == name && !is_known_key(&v.v.key));
        if disc != ours_viol {
            self.machinery_errors.push(format!(
                "cross-engine verdict mismatch for {}: stateright discovery={} explorer violations={}",
                name, disc, ours_viol
            ));
        }
    }

    pub fn machinery(&mut self, msg: String) {
        self.machinery_errors.push(msg);
    }

    /// Write evidence, print verdict lines, return the process exit code.
    pub fn finish(mut self) -> i32 {
        if let Ok(path) = std::env::var("VERIF_PROFILE_CHILD") {
            // second-profile child: hand everything to the parent, which judges and writes the evidence
            let states: u64 = self.models.iter().map(|m| m.states).sum();
            if states == 0 && self.machinery_errors.is_empty() {
                self.machinery_errors.push("nothing explored".into());
            }
            let sum = ProfileSummary { models: self.models, violations: self.violations, machinery_errors: self.machinery_errors };
            return match std::fs::write(&path, serde_json::to_string(&sum).unwrap()) {
                Ok(()) => 0,
                Err(e) => {
                    eprintln!("cannot write {}: {}", path, e);
                    2
                }
            };
        }
        let wall = self.started.elapsed().as_secs_f64();
        let known = load_known_findings();
        // group violations by finding key; first (lowest depth, BFS order) is the representative
        let mut groups: BTreeMap<String, Vec<&FoundViolation>> = BTreeMap::new();
        for v in &self.violations {
            groups.entry(v.v.key.clone()).or_default().push(v);
        }
        let mut known_hit: Vec<String> = vec![];
        let mut new_keys: Vec<(String, String)> = vec![];
        let _ = std::fs::create_dir_all(format!("{}/replays", lane()));
        // replay files of earlier runs of this property are stale
        if let Ok(rd) = std::fs::read_dir(format!("{}/replays", lane())) {
            for e in rd.flatten() {
                if e.file_name().to_string_lossy().starts_with(&format!("{}-", self.property)) {
                    let _ = std::fs::remove_file(e.path());
                }
            }
        }
        for (key, vs) in &groups {
            let kf = known
                .iter()
                .find(|k| k.property == self.property && glob_match(&k.key_glob, key));
            if let Some(k) = kf {
                let line = format!(
                    "KNOWN-FINDING: property={} {} [key={} count={}]",
                    self.property,
                    k.text,
                    key,
                    vs.len()
                );
                println!("{}", line);
                known_hit.push(line);
                continue;
            }
            let rep = vs.iter().min_by_key(|v| v.depth).unwrap();
            let mut h = Sha256::new();
            h.update(key.as_bytes());
            let dg = hex::encode(&h.finalize()[..6]);
            let path = format!("{}/replays/{}-{}.json", lane(), self.property, dg);
            let doc = serde_json::json!({
                "property": self.property,
                "model": rep.model,
                "key": key,
                "state": serde_json::from_str::<serde_json::Value>(&rep.state_json).unwrap_or(serde_json::Value::Null),
                "path": rep.describe,
                "seed": self.seed,
                "tier": self.tier.name(),
                "expected": rep.v.expected,
                "observed": rep.v.observed,
                "count_with_this_key": vs.len(),
            });
            let _ = std::fs::write(&path, serde_json::to_string_pretty(&doc).unwrap());
            new_keys.push((key.clone(), path));
        }
        let states: u64 = self.models.iter().map(|m| m.states).sum();
        let transitions: u64 = self.models.iter().map(|m| m.transitions).sum();
        let evaluations: u64 = self.models.iter().map(|m| m.evaluations).sum();
        let nontrivial: u64 = self.models.iter().map(|m| m.distinct_nontrivial).sum();
        let mut samples: Vec<String> = vec![];
        for m in &self.models {
            for s in m.samples.iter().take(4) {
                samples.push(format!("{}: {}", m.model, s));
            }
        }
        let mut hist: BTreeMap<String, u64> = BTreeMap::new();
        for m in &self.models {
            for (k, v) in &m.outcome_histogram {
                *hist.entry(format!("{}/{}", m.model, k)).or_insert(0) += v;
            }
        }
        let mut coverage = serde_json::json!({
            "states": states,
            "transitions": transitions.max(if states > 0 {1} else {0}),
            "traces_validated_against_impl": states,
            "samples": samples,
            "evaluations": evaluations,
            "distinct_nontrivial": nontrivial,
            "rule": self.rule,
            "exhaustive": self.exhaustive && self.machinery_errors.is_empty(),
            "deviation_bound_completed": self.deviation_bound_completed,
            "outcome_histogram": hist,
            "alphabet": self.alphabet,
            "models": self.models,
            "known_findings_hit": known_hit,
            "violation_keys": new_keys.iter().map(|(k, _)| k.clone()).collect::<Vec<_>>(),
            "machinery_errors": self.machinery_errors,
            "not_covered": self.not_covered,
            "explanation": "every state is an execution of the real blsful code (no abstract model): traces_validated_against_impl equals the number of explored states",
        });
        for (k, v) in &self.extra {
            coverage[k] = v.clone();
        }
        if !self.profile_models.is_empty() {
            coverage["second_pass_checked_profile"] = serde_json::json!({
                "what": "the same models explored again by the binary built with debug assertions and overflow checks in every crate (cfg(debug_assertions) code paths, debug_assert side effects, arithmetic that wraps silently in release); not added to the totals above",
                "states": self.profile_models.iter().map(|m| m.states).sum::<u64>(),
                "evaluations": self.profile_models.iter().map(|m| m.evaluations).sum::<u64>(),
                "models": self.profile_models,
            });
        }
        let ev = serde_json::json!({
            "property_id": self.property,
            "tier": self.tier.name(),
            "seed": self.seed,
            "level": "model_checking",
            "coverage": coverage,
            "assumptions": self.assumptions,
            "wall_s": wall,
            "violations": new_keys.len(),
        });
        let _ = std::fs::create_dir_all(format!("{}/evidence", lane()));
        // experiments (other seeds, seeded changes applied to /repo) write their evidence aside
        let evp = match std::env::var("VERIF_EVIDENCE_DIR") {
            Ok(d) => {
                let _ = std::fs::create_dir_all(&d);
                format!("{}/{}.json", d, self.property)
            }
            Err(_) => format!("{}/evidence/{}.json", lane(), self.property),
        };
        if let Err(e) = std::fs::write(&evp, serde_json::to_string_pretty(&ev).unwrap()) {
            eprintln!("cannot write evidence {}: {}", evp, e);
            return 2;
        }
        eprintln!(
            "[{}] total: states={} transitions={} evaluations={} nontrivial={} wall={:.1}s",
            self.property, states, transitions, evaluations, nontrivial, wall
        );
        for (_k, p) in &new_keys {
            println!("VIOLATION property={} replay={}", self.property, p);
        }
        if !new_keys.is_empty() {
            for (k, _) in &new_keys {
                eprintln!("  violation key: {}", k);
            }
            return 1;
        }
        if !self.machinery_errors.is_empty() {
            for e in &self.machinery_errors {
                eprintln!("MACHINERY-ERROR property={} {}", self.property, e);
            }
            return 2;
        }
        if states == 0 {
            eprintln!("MACHINERY-ERROR property={} nothing explored", self.property);
            return 2;
        }
        println!("OK property={} states={} evaluations={}", self.property, states, evaluations);
        0
    }
}

// ---------------------------------------------------------------------------------------------
// Object-safe wrapper so that a property is a list of bounded models.

pub trait DynModel {
    fn name(&self) -> String;
    fn explore_into(&self, r: &mut Report);
    fn replay(&self, state_json: &str) -> Result<(Vec<Violation>, bool), String>;
}

pub struct Bounded<M: Model> {
    pub m: std::sync::Arc<M>,
    pub depth: usize,
    /// when set, the thorough tier cross-checks with stateright using this depth function
    pub cross: Option<fn(&M, &M::State) -> usize>,
}

impl<M: Model + 'static> DynModel for Bounded<M>
where
    M::Action: PartialEq,
{
    fn name(&self) -> String {
        self.m.name()
    }
    fn explore_into(&self, r: &mut Report) {
        r.run(&*self.m, self.depth);
        if let Some(d) = self.cross {
            if r.tier.thorough() || std::env::var("VERIF_CROSS").is_ok() {
                r.cross_check(self.m.clone(), self.depth, d);
            }
        }
    }
    fn replay(&self, state_json: &str) -> Result<(Vec<Violation>, bool), String> {
        replay_state(&*self.m, state_json)
    }
}

pub fn bounded<M: Model + 'static>(m: M, depth: usize) -> Box<dyn DynModel>
where
    M::Action: PartialEq,
{
    Box::new(Bounded {
        m: std::sync::Arc::new(m),
        depth,
        cross: None,
    })
}

pub fn bounded_cross<M: Model + 'static>(
    m: M,
    depth: usize,
    depth_of: fn(&M, &M::State) -> usize,
) -> Box<dyn DynModel>
where
    M::Action: PartialEq,
{
    Box::new(Bounded {
        m: std::sync::Arc::new(m),
        depth,
        cross: Some(depth_of),
    })
}
