//! A serde data format that does not exist: every `deserialize_*` hint a type gives is answered with the next entry of a
//! scripted answer list (a byte string of some length, a sequence of some length, a string, an integer, unit, none, ...),
//! whatever the hint was - what a self describing format does when the document holds something else than the type
//! expects. The library's decoders are reachable through any serde format a caller picks, so their visitors must return
//! (a value or an error) for every visitor method a format may call.
use serde::de::{self, DeserializeSeed, Deserializer, EnumAccess, MapAccess, SeqAccess, VariantAccess, Visitor};
use serde::{Deserialize, Serialize};
use std::cell::Cell;
use std::rc::Rc;

#[derive(Clone, Copy, Debug, PartialEq, Eq, Hash, Serialize, Deserialize, PartialOrd, Ord)]
pub enum Ans {
    /// `visit_bytes` with this many bytes
    Bytes(usize),
    /// `visit_borrowed_bytes`
    BorrowedBytes(usize),
    /// `visit_byte_buf`
    ByteBuf(usize),
    /// `visit_seq` with this many elements, each answered by the following answers
    Seq(usize),
    /// `visit_map` with this many entries (string keys "a", "b", ...)
    Map(usize),
    /// `visit_str` with this many hex digits
    Str(usize),
    /// `visit_borrowed_str`
    BorrowedStr(usize),
    /// `visit_string`
    String(usize),
    U8(u8),
    U64(u64),
    I64(i64),
    F64,
    Bool,
    Char,
    Unit,
    None,
    /// `visit_some` / `visit_newtype_struct` with the following answers
    Some,
    Newtype,
    /// `visit_enum` with this variant index and a newtype / tuple / unit payload answered by the following answers
    Enum(u32),
}

#[derive(Debug)]
pub struct PErr(pub String);
impl std::fmt::Display for PErr {
    fn fmt(&self, f: &mut std::fmt::Formatter<'_>) -> std::fmt::Result {
        write!(f, "{}", self.0)
    }
}
impl std::error::Error for PErr {}
impl de::Error for PErr {
    fn custom<T: std::fmt::Display>(msg: T) -> Self {
        PErr(msg.to_string())
    }
}

/// bytes handed out: a counter pattern (never all zero, never all equal)
pub static BYTES: [u8; 4096] = {
    let mut b = [0u8; 4096];
    let mut i = 0;
    while i < 4096 {
        b[i] = (i as u8).wrapping_mul(7).wrapping_add(1);
        i += 1;
    }
    b
};
pub static HEX: &str = "00112233445566778899aabbccddeeff00112233445566778899aabbccddeeff00112233445566778899aabbccddeeff00112233445566778899aabbccddeeff00112233445566778899aabbccddeeff00112233445566778899aabbccddeeff00112233445566778899aabbccddeeff00112233445566778899aabbccddeeff00112233445566778899aabbccddeeff00112233445566778899aabbccddeeff00112233445566778899aabbccddeeff00112233445566778899aabbccddeeff00112233445566778899aabbccddeeff";

#[derive(Clone)]
pub struct Probe<'s> {
    script: &'s [Ans],
    /// next answer (shared by all nested deserializers of one run); past the end of the script the LAST answer repeats
    /// for leaves and containers are answered with `U8`
    next: Rc<Cell<usize>>,
    hr: bool,
    /// total answers given (guards against unbounded recursion of scripted containers)
    budget: Rc<Cell<usize>>,
}

impl<'s> Probe<'s> {
    pub fn new(script: &'s [Ans], hr: bool) -> Self {
        Probe { script, next: Rc::new(Cell::new(0)), hr, budget: Rc::new(Cell::new(100_000)) }
    }
    fn take(&self) -> Ans {
        let i = self.next.get();
        self.next.set(i + 1);
        if self.budget.get() == 0 {
            return Ans::Unit;
        }
        self.budget.set(self.budget.get() - 1);
        match self.script.get(i) {
            Some(a) => *a,
            // the tail of a document: small integers (elements of byte sequences, tags)
            Option::None => Ans::U8((i as u8).wrapping_mul(5).wrapping_add(1)),
        }
    }
    fn answer<'de, V: Visitor<'de>>(self, v: V) -> Result<V::Value, PErr> {
        match self.take() {
            Ans::Bytes(n) => v.visit_bytes(&BYTES[..n.min(4096)]),
            Ans::BorrowedBytes(n) => {
                // 'static data outlives every 'de
                let b: &'static [u8] = &BYTES[..n.min(4096)];
                v.visit_borrowed_bytes(unsafe { std::mem::transmute::<&'static [u8], &'de [u8]>(b) })
            }
            Ans::ByteBuf(n) => v.visit_byte_buf(BYTES[..n.min(4096)].to_vec()),
            Ans::Seq(n) => v.visit_seq(Elems { p: self, left: n }),
            Ans::Map(n) => v.visit_map(Elems { p: self, left: n }),
            Ans::Str(n) => v.visit_str(&HEX[..n.min(HEX.len())]),
            Ans::BorrowedStr(n) => {
                let s: &'static str = &HEX[..n.min(HEX.len())];
                v.visit_borrowed_str(unsafe { std::mem::transmute::<&'static str, &'de str>(s) })
            }
            Ans::String(n) => v.visit_string(HEX[..n.min(HEX.len())].to_string()),
            Ans::U8(x) => v.visit_u8(x),
            Ans::U64(x) => v.visit_u64(x),
            Ans::I64(x) => v.visit_i64(x),
            Ans::F64 => v.visit_f64(1.5),
            Ans::Bool => v.visit_bool(true),
            Ans::Char => v.visit_char('a'),
            Ans::Unit => v.visit_unit(),
            Ans::None => v.visit_none(),
            Ans::Some => v.visit_some(self),
            Ans::Newtype => v.visit_newtype_struct(self),
            Ans::Enum(i) => v.visit_enum(En { p: self, idx: i }),
        }
    }
}

macro_rules! all_hints {
    ($($f:ident)*) => { $(fn $f<V: Visitor<'de>>(self, v: V) -> Result<V::Value, PErr> { self.answer(v) })* };
}

impl<'de, 's> Deserializer<'de> for Probe<'s> {
    type Error = PErr;
    all_hints!(deserialize_any deserialize_bool deserialize_i8 deserialize_i16 deserialize_i32 deserialize_i64 deserialize_u8 deserialize_u16 deserialize_u32 deserialize_u64 deserialize_f32 deserialize_f64 deserialize_char deserialize_str deserialize_string deserialize_bytes deserialize_byte_buf deserialize_option deserialize_unit deserialize_seq deserialize_map deserialize_identifier deserialize_ignored_any);
    fn deserialize_unit_struct<V: Visitor<'de>>(self, _n: &'static str, v: V) -> Result<V::Value, PErr> {
        self.answer(v)
    }
    fn deserialize_newtype_struct<V: Visitor<'de>>(self, _n: &'static str, v: V) -> Result<V::Value, PErr> {
        self.answer(v)
    }
    fn deserialize_tuple<V: Visitor<'de>>(self, _l: usize, v: V) -> Result<V::Value, PErr> {
        self.answer(v)
    }
    fn deserialize_tuple_struct<V: Visitor<'de>>(self, _n: &'static str, _l: usize, v: V) -> Result<V::Value, PErr> {
        self.answer(v)
    }
    fn deserialize_struct<V: Visitor<'de>>(self, _n: &'static str, _f: &'static [&'static str], v: V) -> Result<V::Value, PErr> {
        self.answer(v)
    }
    fn deserialize_enum<V: Visitor<'de>>(self, _n: &'static str, _vs: &'static [&'static str], v: V) -> Result<V::Value, PErr> {
        self.answer(v)
    }
    fn is_human_readable(&self) -> bool {
        self.hr
    }
}

struct Elems<'s> {
    p: Probe<'s>,
    left: usize,
}

impl<'de, 's> SeqAccess<'de> for Elems<'s> {
    type Error = PErr;
    fn next_element_seed<T: DeserializeSeed<'de>>(&mut self, seed: T) -> Result<Option<T::Value>, PErr> {
        if self.left == 0 {
            return Ok(Option::None);
        }
        self.left -= 1;
        seed.deserialize(self.p.clone()).map(Some)
    }
    fn size_hint(&self) -> Option<usize> {
        Some(self.left)
    }
}

impl<'de, 's> MapAccess<'de> for Elems<'s> {
    type Error = PErr;
    fn next_key_seed<K: DeserializeSeed<'de>>(&mut self, seed: K) -> Result<Option<K::Value>, PErr> {
        if self.left == 0 {
            return Ok(Option::None);
        }
        self.left -= 1;
        // keys are short strings whatever the script says
        seed.deserialize(de::value::StrDeserializer::<PErr>::new(["a", "b", "c", "d", "e", "f", "g", "h"][self.left % 8])).map(Some)
    }
    fn next_value_seed<V: DeserializeSeed<'de>>(&mut self, seed: V) -> Result<V::Value, PErr> {
        seed.deserialize(self.p.clone())
    }
}

struct En<'s> {
    p: Probe<'s>,
    idx: u32,
}

impl<'de, 's> EnumAccess<'de> for En<'s> {
    type Error = PErr;
    type Variant = Probe<'s>;
    fn variant_seed<V: DeserializeSeed<'de>>(self, seed: V) -> Result<(V::Value, Probe<'s>), PErr> {
        let v = seed.deserialize(de::value::U32Deserializer::<PErr>::new(self.idx))?;
        Ok((v, self.p))
    }
}

impl<'de, 's> VariantAccess<'de> for Probe<'s> {
    type Error = PErr;
    fn unit_variant(self) -> Result<(), PErr> {
        Ok(())
    }
    fn newtype_variant_seed<T: DeserializeSeed<'de>>(self, seed: T) -> Result<T::Value, PErr> {
        seed.deserialize(self)
    }
    fn tuple_variant<V: Visitor<'de>>(self, _len: usize, v: V) -> Result<V::Value, PErr> {
        self.answer(v)
    }
    fn struct_variant<V: Visitor<'de>>(self, _f: &'static [&'static str], v: V) -> Result<V::Value, PErr> {
        self.answer(v)
    }
}

/// decode `T` from the scripted document: (a value was returned, number of answers the type asked for)
pub fn run_counted<T: for<'de> Deserialize<'de>>(script: &[Ans], hr: bool) -> (bool, usize) {
    let p = Probe::new(script, hr);
    let n = p.next.clone();
    let ok = T::deserialize(p).is_ok();
    (ok, n.get())
}

/// the answer alphabet: lengths around every array size of the library's wire formats (32/33 scalars and scalar shares,
/// 48/49/50 G1 points and shares, 96/97/98 G2 points and shares) and the small counts of tuple / struct arities
pub fn alphabet() -> Vec<Ans> {
    let lens = [0usize, 1, 2, 31, 32, 33, 34, 47, 48, 49, 50, 51, 95, 96, 97, 98, 99, 192, 193, 1000];
    let mut v = vec![];
    for l in lens {
        v.push(Ans::Bytes(l));
        v.push(Ans::BorrowedBytes(l));
        v.push(Ans::ByteBuf(l));
        v.push(Ans::Seq(l));
    }
    for l in [3usize, 4, 5, 6, 7, 8] {
        v.push(Ans::Seq(l));
    }
    for l in [0usize, 1, 2, 63, 64, 65, 66, 96, 98, 192, 194, 196] {
        v.push(Ans::Str(l));
        v.push(Ans::BorrowedStr(l));
        v.push(Ans::String(l));
    }
    for l in [0usize, 1, 2, 3, 5] {
        v.push(Ans::Map(l));
    }
    v.extend([Ans::U8(0), Ans::U8(1), Ans::U8(2), Ans::U8(3), Ans::U8(255), Ans::U64(0), Ans::U64(u64::MAX), Ans::U64(1 << 32), Ans::I64(-1), Ans::I64(i64::MIN), Ans::F64, Ans::Bool, Ans::Char, Ans::Unit, Ans::None, Ans::Some, Ans::Newtype]);
    for i in [0u32, 1, 2, 3, 4, 255, u32::MAX] {
        v.push(Ans::Enum(i));
    }
    v
}

/// reduced alphabet for the third and later answers of a script
pub fn alphabet_small() -> Vec<Ans> {
    let mut v = vec![];
    for l in [0usize, 32, 33, 34, 48, 49, 50, 96, 97, 98] {
        v.push(Ans::Bytes(l));
        v.push(Ans::Seq(l));
    }
    v.extend([Ans::ByteBuf(33), Ans::BorrowedBytes(49), Ans::Str(64), Ans::Str(66), Ans::Str(96), Ans::String(98), Ans::Map(1), Ans::U8(0), Ans::U8(3), Ans::U64(u64::MAX), Ans::Unit, Ans::None, Ans::Some, Ans::Newtype, Ans::Enum(0), Ans::Enum(2)]);
    v
}
