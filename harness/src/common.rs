//! Subject-side glue: the two curve assignments, shared alphabets, codecs (transports).
use crate::refmodel::{self as rf, RefSuite, Scheme};
pub use blsful::inner_types::{Field, Group, GroupEncoding, PrimeField};
use blsful::*;
use serde::{de::DeserializeOwned, Serialize};
use std::fmt::Debug;

pub trait Suite:
    BlsSignatureImpl + Default + Serialize + DeserializeOwned + PartialEq + Eq + Copy + Debug + Send + Sync + 'static
{
    type R: RefSuite;
    const G: &'static str;
}
impl Suite for Bls12381G1Impl {
    type R = rf::RG1;
    const G: &'static str = "G1";
}
impl Suite for Bls12381G2Impl {
    type R = rf::RG2;
    const G: &'static str = "G2";
}

pub type PkP<C> = <C as Pairing>::PublicKey;
pub type SgP<C> = <C as Pairing>::Signature;
pub type Sc<C> = <<C as Pairing>::PublicKey as Group>::Scalar;

pub fn lib_scheme(s: Scheme) -> SignatureSchemes {
    match s {
        Scheme::Basic => SignatureSchemes::Basic,
        Scheme::Aug => SignatureSchemes::MessageAugmentation,
        Scheme::Pop => SignatureSchemes::ProofOfPossession,
    }
}

pub fn sig_scheme<C: Suite>(s: &Signature<C>) -> Scheme {
    match s {
        Signature::Basic(_) => Scheme::Basic,
        Signature::MessageAugmentation(_) => Scheme::Aug,
        Signature::ProofOfPossession(_) => Scheme::Pop,
    }
}

pub fn mk_sig<C: Suite>(s: Scheme, p: SgP<C>) -> Signature<C> {
    match s {
        Scheme::Basic => Signature::Basic(p),
        Scheme::Aug => Signature::MessageAugmentation(p),
        Scheme::Pop => Signature::ProofOfPossession(p),
    }
}

pub fn pt<G: GroupEncoding>(p: &G) -> Vec<u8> {
    p.to_bytes().as_ref().to_vec()
}

pub fn pt_from<G: GroupEncoding>(b: &[u8]) -> Option<G> {
    let mut repr = G::Repr::default();
    if repr.as_ref().len() != b.len() {
        return None;
    }
    repr.as_mut().copy_from_slice(b);
    G::from_bytes(&repr).into()
}

/// honest secret key built from the field element itself (model construction must not depend on the byte import,
/// which is a subject of several properties)
pub fn sk_from_be<C: Suite>(b: &[u8; 32]) -> Option<SecretKey<C>> {
    let s = sc_from_be::<C>(b);
    if bool::from(s.is_zero()) {
        None
    } else {
        Some(SecretKey(s))
    }
}
/// the library's own big endian import
pub fn sk_import_be<C: Suite>(b: &[u8; 32]) -> Option<SecretKey<C>> {
    SecretKey::<C>::from_be_bytes(b).into()
}

/// scalar of the subject's field from big endian bytes (through the public byte import)
pub fn sc_from_be<C: Suite>(b: &[u8; 32]) -> Sc<C> {
    let mut repr = <Sc<C> as PrimeField>::Repr::default();
    let r = repr.as_mut();
    r.copy_from_slice(b);
    r.reverse();
    Option::<Sc<C>>::from(<Sc<C> as PrimeField>::from_repr(repr)).expect("canonical scalar")
}

pub fn sc_to_be<C: Suite>(s: &Sc<C>) -> [u8; 32] {
    let mut repr = s.to_repr();
    let r = repr.as_mut();
    r.reverse();
    let mut out = [0u8; 32];
    out.copy_from_slice(r);
    out
}

// ---- deterministic pseudo-random data: SHAKE128(seed || label) --------------------------------

pub fn data(seed: u64, label: &str, n: usize) -> Vec<u8> {
    let mut inp = seed.to_le_bytes().to_vec();
    inp.extend_from_slice(label.as_bytes());
    rf::shake128(&inp, n)
}

pub fn data32(seed: u64, label: &str) -> [u8; 32] {
    data(seed, label, 32).try_into().unwrap()
}

// ---- key alphabet -------------------------------------------------------------------------------

#[derive(Clone)]
pub struct KeyAlpha {
    pub names: Vec<String>,
    /// big endian scalar bytes
    pub be: Vec<[u8; 32]>,
}

pub const EDGE_KEYS: [&str; 8] = ["1", "2", "3", "128", "2^32", "(r-1)/2", "r-2", "r-1"];

pub fn key_alphabet(seed: u64, full: bool) -> KeyAlpha {
    let mut names = vec![];
    let mut be = vec![];
    let edges: &[&str] = if full { &EDGE_KEYS } else { &["1", "128", "r-1"] };
    for e in edges {
        names.push(format!("sk={}", e));
        be.push(rf::scalar_to_be(&rf::scalar_edge(e)));
    }
    let derived: Vec<Vec<u8>> = if full {
        vec![b"".to_vec(), b"a".to_vec(), data(seed, "key-seed-1", 32), data(seed, "key-seed-2", 32)]
    } else {
        vec![b"".to_vec(), b"a".to_vec(), data(seed, "key-seed-1", 32)]
    };
    for (i, d) in derived.iter().enumerate() {
        names.push(format!("sk=keygen#{}", i));
        be.push(rf::scalar_to_be(&rf::keygen(d)));
    }
    KeyAlpha { names, be }
}

// ---- message alphabet ---------------------------------------------------------------------------

/// dense band of lengths: every length up to 300, every multiple of 100 up to 2000 and both neighbours of the usual
/// chunk and batch sizes (1000, 1024, 2048, 4096, 8192, 10000, 100000)
pub fn dense_lens() -> Vec<usize> {
    let mut v: Vec<usize> = (0..=300).collect();
    v.extend((4..=20).map(|i| i * 100));
    for c in [1000usize, 1024, 2048, 4096, 8192, 10_000, 100_000] {
        v.extend([c - 1, c, c + 1]);
    }
    v.sort();
    v.dedup();
    v
}


#[derive(Clone)]
pub struct MsgAlpha {
    pub names: Vec<String>,
    pub msgs: Vec<Vec<u8>>,
}

pub fn msg_of(seed: u64, len: usize, content: usize) -> Vec<u8> {
    match content {
        0 => vec![0u8; len],
        1 => vec![0xFFu8; len],
        2 => (0..len).map(|i| i as u8).collect(),
        _ => data(seed, &format!("msg-{}", len), len),
    }
}

pub fn msg_alphabet(seed: u64, full: bool) -> MsgAlpha {
    // the large band (16 KiB, 64 KiB, 2 MiB boundaries: LEB128 widths, u16 / u32 length arithmetic) is in both tiers
    let lens: Vec<usize> = if full {
        vec![0, 1, 31, 32, 33, 127, 128, 129, 255, 256, 257, 4096, 16383, 16384, 65535, 65536, 65537, 2097151, 2097152, 2097153, 16777216]
    } else {
        vec![0, 1, 31, 32, 33, 127, 128, 129, 255, 256, 257, 4096, 16383, 16384, 65535, 65536, 65537, 2097152]
    };
    let mut names = vec![];
    let mut msgs = vec![];
    for l in lens {
        let contents: &[usize] = if l == 0 {
            &[0]
        } else if l > 4096 {
            &[3]
        } else if full || l <= 33 {
            &[0, 1, 2, 3]
        } else {
            &[2, 3]
        };
        for c in contents {
            names.push(format!("msg(len={},content={})", l, ["zeros", "ff", "counter", "shake"][*c]));
            msgs.push(msg_of(seed, l, *c));
        }
    }
    MsgAlpha { names, msgs }
}

// ---- codecs (transports) --------------------------------------------------------------------------

#[derive(Copy, Clone, Debug, PartialEq, Eq, Hash, serde::Serialize, serde::Deserialize, PartialOrd, Ord)]
pub enum Codec {
    None,
    Bytes,
    Bare,
    Json,
    Be,
    Le,
    /// the by-value / container conversions: Vec<u8>::from(T), TryFrom<Vec<u8>>, TryFrom<&Vec<u8>>, TryFrom<Box<[u8]>>
    VecOwned,
    VecRef,
    BoxSlice,
    /// the JSON document read through `serde_json::from_reader` (owned strings) / through a `serde_json::Value`
    JsonReader,
    JsonValue,
}

pub fn via_bare<T: Serialize + DeserializeOwned>(v: &T) -> Result<T, String> {
    let b = serde_bare::to_vec(v).map_err(|e| format!("bare encode: {}", e))?;
    serde_bare::from_slice(&b).map_err(|e| format!("bare decode: {}", e))
}
pub fn via_json<T: Serialize + DeserializeOwned>(v: &T) -> Result<T, String> {
    let b = serde_json::to_vec(v).map_err(|e| format!("json encode: {}", e))?;
    serde_json::from_slice(&b).map_err(|e| format!("json decode: {}", e))
}

/// the JSON document read back through `serde_json::from_reader` (the deserializer hands out owned strings)
pub fn via_json_reader<T: Serialize + DeserializeOwned>(v: &T) -> Result<T, String> {
    let b = serde_json::to_vec(v).map_err(|e| format!("json encode: {}", e))?;
    serde_json::from_reader(b.as_slice()).map_err(|e| format!("json from_reader: {}", e))
}
/// through a `serde_json::Value`
pub fn via_json_value<T: Serialize + DeserializeOwned>(v: &T) -> Result<T, String> {
    let val = serde_json::to_value(v).map_err(|e| format!("json to_value: {}", e))?;
    serde_json::from_value(val).map_err(|e| format!("json from_value: {}", e))
}

pub fn transport_sk<C: Suite>(sk: &SecretKey<C>, c: Codec) -> Result<SecretKey<C>, String> {
    match c {
        Codec::None => Ok(sk.clone()),
        Codec::Bytes => SecretKey::<C>::try_from(Vec::<u8>::from(sk).as_slice()).map_err(|e| e.to_string()),
        Codec::Bare => via_bare(sk),
        Codec::Json => via_json(sk),
        Codec::JsonReader => via_json_reader(sk),
        Codec::JsonValue => via_json_value(sk),
        Codec::Be => Option::from(SecretKey::<C>::from_be_bytes(&sk.to_be_bytes())).ok_or("from_be_bytes None".to_string()),
        Codec::Le => Option::from(SecretKey::<C>::from_le_bytes(&sk.to_le_bytes())).ok_or("from_le_bytes None".to_string()),
        _ => Err("codec not offered".into()),
    }
}
pub fn transport_pk<C: Suite>(pk: &PublicKey<C>, c: Codec) -> Result<PublicKey<C>, String> {
    match c {
        Codec::None => Ok(*pk),
        Codec::Bytes => PublicKey::<C>::try_from(Vec::<u8>::from(pk).as_slice()).map_err(|e| e.to_string()),
        Codec::Bare => via_bare(pk),
        Codec::Json => via_json(pk),
        Codec::JsonReader => via_json_reader(pk),
        Codec::JsonValue => via_json_value(pk),
        _ => Err("codec not offered".into()),
    }
}
pub fn transport_sig<C: Suite>(s: &Signature<C>, c: Codec) -> Result<Signature<C>, String> {
    match c {
        Codec::None => Ok(*s),
        Codec::Bytes => Signature::<C>::try_from(Vec::<u8>::from(s).as_slice()).map_err(|e| e.to_string()),
        Codec::Bare => via_bare(s),
        Codec::Json => via_json(s),
        Codec::JsonReader => via_json_reader(s),
        Codec::JsonValue => via_json_value(s),
        _ => Err("codec not offered".into()),
    }
}

pub fn res<T, E>(r: &Result<T, E>) -> &'static str {
    if r.is_ok() {
        "Ok"
    } else {
        "Err"
    }
}

pub const GROUPS: [&str; 2] = ["G1", "G2"];

/// dispatch a generic function over both curve assignments
#[macro_export]
macro_rules! for_both {
    ($f:ident ( $($args:expr),* )) => {{
        $f::<blsful::Bls12381G1Impl>($($args),*);
        $f::<blsful::Bls12381G2Impl>($($args),*);
    }};
}

// ---- share containers built from points (identifier + compressed bytes) -----------------------------
use blsful::vsss_rs::Share;

pub fn raw_pk_share<C: Suite>(id: u8, bytes: &[u8]) -> <C as Pairing>::PublicKeyShare {
    let mut s = <C as Pairing>::PublicKeyShare::empty_share_with_capacity(bytes.len());
    *s.identifier_mut() = id;
    s.value_mut(bytes).expect("share payload length");
    s
}
pub fn raw_sig_share<C: Suite>(id: u8, bytes: &[u8]) -> <C as Pairing>::SignatureShare {
    let mut s = <C as Pairing>::SignatureShare::empty_share_with_capacity(bytes.len());
    *s.identifier_mut() = id;
    s.value_mut(bytes).expect("share payload length");
    s
}
pub fn mk_pk_share<C: Suite>(id: u8, p: &PkP<C>) -> PublicKeyShare<C> {
    PublicKeyShare(raw_pk_share::<C>(id, &pt(p)))
}
pub fn mk_sig_share<C: Suite>(s: Scheme, id: u8, p: &SgP<C>) -> SignatureShare<C> {
    let raw = raw_sig_share::<C>(id, &pt(p));
    match s {
        Scheme::Basic => SignatureShare::Basic(raw),
        Scheme::Aug => SignatureShare::MessageAugmentation(raw),
        Scheme::Pop => SignatureShare::ProofOfPossession(raw),
    }
}
pub fn mk_multi_sig<C: Suite>(s: Scheme, p: SgP<C>) -> MultiSignature<C> {
    match s {
        Scheme::Basic => MultiSignature::Basic(p),
        Scheme::Aug => MultiSignature::MessageAugmentation(p),
        Scheme::Pop => MultiSignature::ProofOfPossession(p),
    }
}
pub fn mk_agg_sig<C: Suite>(s: Scheme, p: SgP<C>) -> AggregateSignature<C> {
    match s {
        Scheme::Basic => AggregateSignature::Basic(p),
        Scheme::Aug => AggregateSignature::MessageAugmentation(p),
        Scheme::Pop => AggregateSignature::ProofOfPossession(p),
    }
}
/// verdict of a library call wrapped in `guard`: "Ok" / "Err" / "PANIC"
pub fn verdict<T, E>(r: &Result<Result<T, E>, String>) -> &'static str {
    match r {
        Ok(Ok(_)) => "Ok",
        Ok(Err(_)) => "Err",
        Err(_) => "PANIC",
    }
}

// ---- environment (hook) ownership ---------------------------------------------------------------------

/// Run `f` with the entropy seam answering from `answers` (then from a counter) and the clock fixed.
/// Both overrides are removed afterwards, also when `f` panics.
pub fn with_env<T>(answers: Vec<[u8; 32]>, clock_ms: Option<u64>, f: impl FnOnce() -> T) -> Result<T, String> {
    blsful::verif_hooks::set_entropy(Some(answers));
    blsful::verif_hooks::set_clock_ms(clock_ms);
    let r = crate::engine::guard(f);
    blsful::verif_hooks::set_entropy(None);
    blsful::verif_hooks::set_clock_ms(None);
    r
}

pub fn entropy_stream(seed: u64, label: &str, n: usize) -> Vec<[u8; 32]> {
    (0..n).map(|i| data32(seed, &format!("entropy-{}-{}", label, i))).collect()
}

pub const CLOCK0: u64 = 1_700_000_000_000;

// ---- structurally special messages (built from the signer's compressed public key) ---------------------
pub const SPECIAL_MESSAGES: [&str; 4] = ["msg = pk bytes", "msg = pk bytes || 'm'", "msg = pk bytes || pk bytes", "msg = pk bytes minus last byte"];

pub fn special_message(pk: &[u8], i: usize) -> Vec<u8> {
    let mut v = pk.to_vec();
    match i {
        0 => {}
        1 => v.push(b'm'),
        2 => v.extend_from_slice(pk),
        _ => {
            v.pop();
        }
    }
    v
}

/// carry a secret key through the curve tagged wrapper `SecretKeyEnum`
pub fn transport_sk_enum<C: Suite>(sk: &SecretKey<C>, c: Codec) -> Result<SecretKey<C>, String> {
    let be = sk.to_be_bytes();
    let g1 = C::G == "G1";
    let e = if g1 {
        SecretKeyEnum::G1(sk_from_be::<Bls12381G1Impl>(&be).ok_or("import")?)
    } else {
        SecretKeyEnum::G2(sk_from_be::<Bls12381G2Impl>(&be).ok_or("import")?)
    };
    let back: SecretKeyEnum = match c {
        Codec::Bytes => SecretKeyEnum::try_from(Vec::<u8>::from(&e).as_slice()).map_err(|x| x.to_string())?,
        Codec::Bare => via_bare(&e)?,
        Codec::Json => via_json(&e)?,
        Codec::JsonReader => via_json_reader(&e)?,
        Codec::JsonValue => via_json_value(&e)?,
        Codec::Be => Option::from(SecretKeyEnum::from_be_bytes(&e.to_be_bytes())).ok_or("SecretKeyEnum::from_be_bytes None".to_string())?,
        Codec::Le => Option::from(SecretKeyEnum::from_le_bytes(&e.to_le_bytes())).ok_or("SecretKeyEnum::from_le_bytes None".to_string())?,
        _ => return Err("codec not offered".into()),
    };
    let (variant_ok, bytes) = match &back {
        SecretKeyEnum::G1(k) => (g1, k.to_be_bytes()),
        SecretKeyEnum::G2(k) => (!g1, k.to_be_bytes()),
    };
    if !variant_ok {
        return Err("SecretKeyEnum came back as the other curve variant".into());
    }
    sk_from_be::<C>(&bytes).ok_or("import".to_string())
}

// ---- values moved by the library's constant time selection helpers ----------------------------------------

/// `conditional_select`, `conditional_assign` and `conditional_swap` of two values of the same variant: choice 0 keeps
/// the first, choice 1 takes the second. Returns what went wrong, if anything (a panic is reported as such).
pub fn ct_move_check<T: subtle::ConditionallySelectable + PartialEq>(a: &T, b: &T) -> Option<String> {
    let r = crate::engine::guard(|| {
        use subtle::Choice;
        let mut bad = vec![];
        if T::conditional_select(a, b, Choice::from(0)) != *a {
            bad.push("select(a,b,0) != a");
        }
        if T::conditional_select(a, b, Choice::from(1)) != *b {
            bad.push("select(a,b,1) != b");
        }
        let mut x = *a;
        x.conditional_assign(b, Choice::from(0));
        if x != *a {
            bad.push("assign(b,0) changed the value");
        }
        x.conditional_assign(b, Choice::from(1));
        if x != *b {
            bad.push("assign(b,1) did not take b");
        }
        let (mut x, mut y) = (*a, *b);
        T::conditional_swap(&mut x, &mut y, Choice::from(0));
        if x != *a || y != *b {
            bad.push("swap(0) exchanged the values");
        }
        T::conditional_swap(&mut x, &mut y, Choice::from(1));
        if x != *b || y != *a {
            bad.push("swap(1) did not exchange the values");
        }
        bad
    });
    match r {
        Ok(bad) if bad.is_empty() => None,
        Ok(bad) => Some(bad.join("; ")),
        Err(p) => Some(format!("PANIC {}", p)),
    }
}
/// records the outcome of `ct_move_check` under `<prop>:moved-by-constant-time-selection:<type>`
pub fn expect_ct_move<T: subtle::ConditionallySelectable + PartialEq>(o: &mut crate::engine::Obs, prop: &str, ty: &str, a: &T, b: &T) {
    let r = ct_move_check(a, b);
    o.expect(&format!("{}:moved-by-constant-time-selection:{}", prop, ty), r.is_none(), "choice 0 keeps the first value, choice 1 takes the second", r.as_deref().unwrap_or(""));
}

// ---- a point component replaced inside an encoding ---------------------------------------------------------

/// Re-decode `v` after the compressed point `from` inside its encoding was replaced by `to` (same length):
/// codec Bytes = the library's byte form, Bare = serde_bare, Json / JsonReader / JsonValue = the hex inside the document.
/// Err = the decoder refused (or the component was not found, which is reported as "component-not-found").
pub fn redecode_with_point<T>(v: &T, from: &[u8], to: &[u8], c: Codec) -> Result<T, String>
where
    T: Serialize + DeserializeOwned + for<'a> TryFrom<&'a [u8]>,
    for<'a> &'a T: Into<Vec<u8>>,
{
    fn replace(hay: &[u8], from: &[u8], to: &[u8]) -> Option<Vec<u8>> {
        let pos = hay.windows(from.len()).position(|w| w == from)?;
        let mut out = hay.to_vec();
        out[pos..pos + from.len()].copy_from_slice(to);
        Some(out)
    }
    match c {
        Codec::Bytes => {
            let b: Vec<u8> = v.into();
            let b = replace(&b, from, to).ok_or("component-not-found")?;
            T::try_from(b.as_slice()).map_err(|_| "refused".to_string())
        }
        Codec::Bare => {
            let b = serde_bare::to_vec(v).map_err(|e| e.to_string())?;
            let b = replace(&b, from, to).ok_or("component-not-found")?;
            serde_bare::from_slice(&b).map_err(|e| e.to_string())
        }
        _ => {
            let j = serde_json::to_string(v).map_err(|e| e.to_string())?;
            let (hf, ht) = (hex::encode(from), hex::encode(to));
            if !j.contains(&hf) {
                return Err("component-not-found".into());
            }
            let j = j.replacen(&hf, &ht, 1);
            match c {
                Codec::JsonReader => serde_json::from_reader(j.as_bytes()).map_err(|e| e.to_string()),
                Codec::JsonValue => serde_json::from_str::<serde_json::Value>(&j).and_then(serde_json::from_value).map_err(|e| e.to_string()),
                _ => serde_json::from_str(&j).map_err(|e| e.to_string()),
            }
        }
    }
}
pub const DECODERS: [Codec; 5] = [Codec::Bytes, Codec::Bare, Codec::Json, Codec::JsonReader, Codec::JsonValue];

// ---- iterator shapes --------------------------------------------------------------------------------------

/// The same sequence handed over as iterators that report different `size_hint`s: exact (slice), lower bound 0
/// (filter), exact head + unsized tail (chain), nothing at all (`from_fn`), and a lower bound of 0 with an upper bound
/// (`take_while`). The trait functions accept any `Iterator`, so their result must not depend on the hint.
pub fn iterator_shapes<'a, T: Clone + 'a>(v: &'a [T]) -> Vec<(&'static str, Box<dyn Iterator<Item = T> + 'a>)> {
    let half = v.len() / 2;
    let mut i = 0usize;
    vec![
        ("exact", Box::new(v.iter().cloned()) as Box<dyn Iterator<Item = T> + 'a>),
        ("filter", Box::new(v.iter().cloned().filter(|_| true))),
        ("chain-exact-then-filter", Box::new(v[..half].iter().cloned().chain(v[half..].iter().cloned().filter(|_| true)))),
        ("from_fn", Box::new(std::iter::from_fn(move || {
            i += 1;
            v.get(i - 1).cloned()
        }))),
        ("take_while", Box::new(v.iter().cloned().take_while(|_| true))),
        ("flat_map", Box::new(v.iter().cloned().flat_map(|x| std::iter::once(x)))),
    ]
}
