//! Subject-side glue: the two curve assignments, shared alphabets, codecs (transports).
use crate::refmodel::{self as rf, RefSuite, Scheme};
pub use blsful::inner_types::{Field, Group, GroupEncoding, PrimeField};
use blsful::*;
use serde::{de::DeserializeOwned, Serialize};
use std::fmt::Debug;

pub trait Suite:
    BlsSignatureImpl + Default + Serialize + DeserializeOwned + PartialEq + Eq + Copy + Debug + Send + Sync + 'static
{
    type R: RefSuite;
    const G: &'static str;
}
impl Suite for Bls12381G1Impl {
    type R = rf::RG1;
    const G: &'static str = "G1";
}
impl Suite for Bls12381G2Impl {
    type R = rf::RG2;
    const G: &'static str = "G2";
}

pub type PkP<C> = <C as Pairing>::PublicKey;
pub type SgP<C> = <C as Pairing>::Signature;
pub type Sc<C> = <<C as Pairing>::PublicKey as Group>::Scalar;

pub fn lib_scheme(s: Scheme) -> SignatureSchemes {
    match s {
        Scheme::Basic => SignatureSchemes::Basic,
        Scheme::Aug => SignatureSchemes::MessageAugmentation,
        Scheme::Pop => SignatureSchemes::ProofOfPossession,
    }
}

pub fn sig_scheme<C: Suite>(s: &Signature<C>) -> Scheme {
    match s {
        Signature::Basic(_) => Scheme::Basic,
        Signature::MessageAugmentation(_) => Scheme::Aug,
        Signature::ProofOfPossession(_) => Scheme::Pop,
    }
}

pub fn mk_sig<C: Suite>(s: Scheme, p: SgP<C>) -> Signature<C> {
    match s {
        Scheme::Basic => Signature::Basic(p),
        Scheme::Aug => Signature::MessageAugmentation(p),
        Scheme::Pop => Signature::ProofOfPossession(p),
    }
}

pub fn pt<G: GroupEncoding>(p: &G) -> Vec<u8> {
    p.to_bytes().as_ref().to_vec()
}

pub fn pt_from<G: GroupEncoding>(b: &[u8]) -> Option<G> {
    let mut repr = G::Repr::default();
    if repr.as_ref().len() != b.len() {
        return None;
    }
    repr.as_mut().copy_from_slice(b);
    G::from_bytes(&repr).into()
}

/// honest secret key built from the field element itself (model construction must not depend on the byte import,
/// which is a subject of several properties)
pub fn sk_from_be<C: Suite>(b: &[u8; 32]) -> Option<SecretKey<C>> {
    let s = sc_from_be::<C>(b);
    if bool::from(s.is_zero()) {
        None
    } else {
        Some(SecretKey(s))
    }
}
/// the library's own big endian import
pub fn sk_import_be<C: Suite>(b: &[u8; 32]) -> Option<SecretKey<C>> {
    SecretKey::<C>::from_be_bytes(b).into()
}

/// scalar of the subject's field from big endian bytes (through the public byte import)
pub fn sc_from_be<C: Suite>(b: &[u8; 32]) -> Sc<C> {
    let mut repr = <Sc<C> as PrimeField>::Repr::default();
    let r = repr.as_mut();
    r.copy_from_slice(b);
    r.reverse();
    Option::<Sc<C>>::from(<Sc<C> as PrimeField>::from_repr(repr)).expect("canonical scalar")
}

pub fn sc_to_be<C: Suite>(s: &Sc<C>) -> [u8; 32] {
    let mut repr = s.to_repr();
    let r = repr.as_mut();
    r.reverse();
    let mut out = [0u8; 32];
    out.copy_from_slice(r);
    out
}

// ---- deterministic pseudo-random data: SHAKE128(seed || label) --------------------------------

pub fn data(seed: u64, label: &str, n: usize) -> Vec<u8> {
    let mut inp = seed.to_le_bytes().to_vec();
    inp.extend_from_slice(label.as_bytes());
    rf::shake128(&inp, n)
}

pub fn data32(seed: u64, label: &str) -> [u8; 32] {
    data(seed, label, 32).try_into().unwrap()
}

// ---- key alphabet -------------------------------------------------------------------------------

#[derive(Clone)]
pub struct KeyAlpha {
    pub names: Vec<String>,
    /// big endian scalar bytes
    pub be: Vec<[u8; 32]>,
}

pub const EDGE_KEYS: [&str; 8] = ["1", "2", "3", "128", "2^32", "(r-1)/2", "r-2", "r-1"];

pub fn key_alphabet(seed: u64, full: bool) -> KeyAlpha {
    let mut names = vec![];
    let mut be = vec![];
    let edges: &[&str] = if full { &EDGE_KEYS } else { &["1", "128", "r-1"] };
    for e in edges {
        names.push(format!("sk={}", e));
        be.push(rf::scalar_to_be(&rf::scalar_edge(e)));
    }
    let derived: Vec<Vec<u8>> = if full {
        vec![b"".to_vec(), b"a".to_vec(), data(seed, "key-seed-1", 32), data(seed, "key-seed-2", 32)]
    } else {
        vec![b"".to_vec(), b"a".to_vec(), data(seed, "key-seed-1", 32)]
    };
    for (i, d) in derived.iter().enumerate() {
        names.push(format!("sk=keygen#{}", i));
        be.push(rf::scalar_to_be(&rf::keygen(d)));
    }
    // appended last so that positions used elsewhere stay put: keys selected by a byte pattern of their public key
    for (n, k) in pattern_keys(seed) {
        names.push(n);
        be.push(k);
    }
    KeyAlpha { names, be }
}

/// Keys whose compressed public key has a special byte pattern: first byte exactly 0x80 or exactly 0xa0 (the top bits
/// of x are zero), or a zero byte right behind the flag byte - for the 48 byte (G1) and the 96 byte (G2) encoding.
/// Found by a deterministic search over derived keys; the reference computes the encodings.
pub fn pattern_keys(seed: u64) -> Vec<(String, [u8; 32])> {
    use bls12_381_plus::group::Group as _;
    static CACHE: std::sync::Mutex<Vec<(u64, Vec<(String, [u8; 32])>)>> = std::sync::Mutex::new(Vec::new());
    if let Some((_, v)) = CACHE.lock().unwrap().iter().find(|(s, _)| *s == seed) {
        return v.clone();
    }
    let wanted: [(&str, usize, fn(&[u8]) -> bool); 6] = [
        ("G1 public key starts with 0x80", 48, |b| b[0] == 0x80),
        ("G1 public key starts with 0xa0", 48, |b| b[0] == 0xa0),
        ("G1 public key has 0x00 at offset 1", 48, |b| b[1] == 0),
        ("G2 public key starts with 0x80", 96, |b| b[0] == 0x80),
        ("G2 public key starts with 0xa0", 96, |b| b[0] == 0xa0),
        ("G2 public key has 0x00 at offset 1", 96, |b| b[1] == 0),
    ];
    let mut found: Vec<Option<[u8; 32]>> = vec![None; wanted.len()];
    for i in 0..20_000u32 {
        let sk = rf::keygen(&data(seed, &format!("pattern-key-{}", i), 32));
        let e48 = rf::enc(&(bls12_381_plus::G1Projective::generator() * sk));
        let e96 = rf::enc(&(bls12_381_plus::G2Projective::generator() * sk));
        for (j, (_, len, pred)) in wanted.iter().enumerate() {
            if found[j].is_none() && pred(if *len == 48 { &e48 } else { &e96 }) {
                found[j] = Some(rf::scalar_to_be(&sk));
            }
        }
        if found.iter().all(|f| f.is_some()) {
            break;
        }
    }
    let mut v: Vec<(String, [u8; 32])> = wanted.iter().zip(found).filter_map(|((n, _, _), k)| k.map(|k| (format!("sk with {}", n), k))).collect();
    // rarer patterns (about 1 key in 10^4..10^5), found once with `blsful-mc tool pattern-keys` and validated here with
    // the reference arithmetic: a coordinate of the public key within 2^-16 of the field modulus (leading bytes 1a01)
    // or below 2^-16 of it (leading bytes 0000)
    let hi = |b: &[u8]| (((b[0] & 0x1f) as u16) << 8) | b[1] as u16;
    for (name, hexkey, len, off, want) in [
        ("G1 public key x just below the modulus", "617d797d0550b63d76bfc2c116dda3dac56daacce9bf9e2d5eac5b1a29c786ad", 48usize, 0usize, 0x1a01u16),
        ("G1 public key x with 16 leading zero bits", "06f2fbfd18c40fbcb7208d3722cbe09af1b6ee5c973e7e02059c84ec345f3e62", 48, 0, 0),
        ("G2 public key x.c1 just below the modulus", "62dd3eeee7f0ac39ed84cd6d64595b9a2494bc93129b21e657b79e6778d48657", 96, 0, 0x1a01),
        ("G2 public key x.c1 with 16 leading zero bits", "63cc8eb20707b6eb4b2de4eb831c4fdf9fed886513a9d5d1905bf2c9f0057e84", 96, 0, 0),
        ("G2 public key x.c0 just below the modulus", "4547fedc8a72695e8d8b8ad7330817dba90fea508f7bf06154996917c4ecf610", 96, 48, 0x1a01),
        ("G2 public key x.c0 with 16 leading zero bits", "318c6e0fd575ee68e640eb3d53d000ee74a0fc2b31bdefb53578f7202a19628e", 96, 48, 0),
    ] {
        let kb: [u8; 32] = hex::decode(hexkey).unwrap().try_into().unwrap();
        let sk = rf::scalar_from_be(&kb).expect("canonical scalar");
        let e = if len == 48 { rf::enc(&(bls12_381_plus::G1Projective::generator() * sk)) } else { rf::enc(&(bls12_381_plus::G2Projective::generator() * sk)) };
        let got = if off == 0 { hi(&e) } else { ((e[off] as u16) << 8) | e[off + 1] as u16 };
        assert_eq!(got, want, "hard-coded pattern key '{}' does not have its pattern", name);
        v.push((format!("sk with {}", name), kb));
    }
    // keys whose public key / proof of possession encoding ENDS in bytes a text-minded decoder might strip (found once
    // with `blsful-mc tool pattern-tails`; key = KeyGen("verif pattern key #i"))
    for (name, i) in [
        ("G2 public key ending in CR LF", 38121u32),
        ("G1 public key ending in CR LF", 7475),
        ("G1 proof of possession ending in CR LF", 31142),
        ("G2 proof of possession ending in CR LF", 216466),
        ("G2 public key ending in NUL NUL", 27372),
        ("G1 public key ending in NUL NUL", 79661),
        ("G1 proof of possession ending in NUL NUL", 201351),
        ("G2 proof of possession ending in NUL NUL", 13827),
        ("G2 public key ending in two spaces", 63895),
        ("G1 public key ending in two spaces", 8554),
        ("G1 proof of possession ending in two spaces", 64926),
        ("G2 proof of possession ending in two spaces", 34962),
        // a coordinate whose leading byte equals the leading byte of the field modulus (0x1a)
        ("G2 public key x.c1 leading byte 1a", 6126),
        ("G2 public key x.c0 leading byte 1a", 1718),
        ("G1 proof of possession leading byte 1a", 15954),
        ("G1 public key leading byte 1a", 341),
        ("G2 proof of possession x.c1 leading byte 1a", 4173),
        ("G2 proof of possession x.c0 leading byte 1a", 8512),
        // the first THREE bytes of a coordinate equal those of the field modulus (1a 01 11): about one value in 1.9 million
        ("G2 public key x.c1 starting 1a0111", 693928),
        ("G1 public key starting 1a0111", 386541),
        ("G2 proof of possession x.c1 starting 1a0111", 1212917),
    ] {
        v.push((format!("sk with {}", name), rf::scalar_to_be(&rf::keygen(format!("verif pattern key #{}", i).as_bytes()))));
    }
    // the same for proofs of possession in G1 and G2, found by another search (KeyGen of these labels)
    for (name, label) in [("G1 proof of possession starting 1a0111", "seed9-C09-g1-308058"), ("G2 proof of possession starting 1a0111 (second)", "seed9-C09-g2-1302082")] {
        v.push((format!("sk with {}", name), rf::scalar_to_be(&rf::keygen(label.as_bytes()))));
    }
    CACHE.lock().unwrap().push((seed, v.clone()));
    v
}

// ---- message alphabet ---------------------------------------------------------------------------

/// dense band of lengths: every length up to 1100 and both neighbours of 41 round numbers between 1200 and 2^20
pub fn dense_lens() -> Vec<usize> {
    // every length up to 1100, and both neighbours of the round numbers a size limit, chunk size or buffer is likely to be
    let mut v: Vec<usize> = (0..=1100).collect();
    for c in [
        1200usize, 1280, 1400, 1500, 1536, 1600, 1800, 2000, 2048, 2500, 3000, 3072, 4000, 4096, 5000, 6000, 8000, 8192, 10_000, 12_000, 12_288, 16_000, 16_384, 20_000, 24_576, 30_000,
        32_000, 32_768, 40_000, 50_000, 64_000, 65_000, 65_536, 100_000, 131_072, 200_000, 262_144, 500_000, 524_288, 1_000_000, 1_048_576,
    ] {
        v.extend([c - 1, c, c + 1]);
    }
    // multiples of the absorb / squeeze rates and block sizes of the hash functions in use (SHAKE128: 168, SHA3-256: 136,
    // SHA-256: 64), minus 0..3 bytes for a length prefix: chunked masking and hashing code changes behaviour there
    for k in 1..=200usize {
        for d in 0..=3usize {
            v.push(168 * k - d);
        }
    }
    for k in 1..=64usize {
        for d in 0..=3usize {
            v.push(136 * k - d);
            v.push(64 * k - d);
        }
    }
    v.sort();
    v.dedup();
    v
}

/// Shares of `secret` on a polynomial of degree 2 crafted so that two participants hold the SAME value:
/// f(x) = s + a1 x + a2 x^2 with a1 = -3 a2 gives f(1) = f(2). Identifiers 1..=n.
pub fn shares_with_equal_values<C: Suite>(secret: &SecretKey<C>, n: u8) -> Vec<SecretKeyShare<C>> {
    use blsful::inner_types::Field;
    use blsful::vsss_rs::Share;
    let a2 = SecretKey::<C>::from_hash(b"equal valued shares").0;
    let a1 = -(a2 + a2 + a2);
    (1..=n)
        .map(|i| {
            let mut x = Sc::<C>::ZERO;
            for _ in 0..i {
                x += Sc::<C>::ONE;
            }
            SecretKeyShare::<C>(<C as Pairing>::SecretKeyShare::from_field_element(i, secret.0 + a1 * x + a2 * x * x).expect("share from field element"))
        })
        .collect()
}

#[derive(Clone)]
pub struct MsgAlpha {
    pub names: Vec<String>,
    pub msgs: Vec<Vec<u8>>,
}

pub fn msg_of(seed: u64, len: usize, content: usize) -> Vec<u8> {
    match content {
        0 => vec![0u8; len],
        1 => vec![0xFFu8; len],
        2 => (0..len).map(|i| i as u8).collect(),
        _ => data(seed, &format!("msg-{}", len), len),
    }
}

pub fn msg_alphabet(seed: u64, full: bool) -> MsgAlpha {
    // the large band (16 KiB, 64 KiB, 2 MiB boundaries: LEB128 widths, u16 / u32 length arithmetic) is in both tiers
    let lens: Vec<usize> = if full {
        vec![0, 1, 31, 32, 33, 127, 128, 129, 255, 256, 257, 4096, 16383, 16384, 65535, 65536, 65537, 2097151, 2097152, 2097153, 16777216]
    } else {
        vec![0, 1, 31, 32, 33, 127, 128, 129, 255, 256, 257, 4096, 16383, 16384, 65535, 65536, 65537, 2097152, 4194305, 16777217]
    };
    let mut names = vec![];
    let mut msgs = vec![];
    for l in lens {
        let contents: &[usize] = if l == 0 {
            &[0]
        } else if l > 4096 {
            &[3]
        } else if full || l <= 33 {
            &[0, 1, 2, 3]
        } else {
            &[2, 3]
        };
        for c in contents {
            names.push(format!("msg(len={},content={})", l, ["zeros", "ff", "counter", "shake"][*c]));
            msgs.push(msg_of(seed, l, *c));
        }
    }
    // contents that matter to text handling, framing or parsers rather than to the length
    for (n, m) in [
        ("nul", b"\0".to_vec()),
        ("embedded-nul", b"a\0b".to_vec()),
        ("newline", b"line\nbreak\r\n".to_vec()),
        ("hex-looking", b"deadbeef00ff".to_vec()),
        ("json-looking", b"{\"a\":[1,2]}".to_vec()),
        ("ff-run", vec![0xff; 40]),
        ("utf8-bom", vec![0xef, 0xbb, 0xbf, b'x']),
    ] {
        names.push(format!("msg(len={},content={})", m.len(), n));
        msgs.push(m);
    }
    // messages whose hash-to-curve point, or whose Basic signature under the first derived key of seed 1, has a
    // coordinate next to the field modulus (leading bytes 1a01) or with 16 leading zero bits - found once with
    // `blsful-mc tool pattern-messages` (the property of the derived value is re-validated by C03's comparison with
    // the reference, which computes the same bytes); signed under every key like any other message
    for (what, i) in [
        ("G1 hash just below the modulus", 9287u32),
        ("G1 hash with leading zero bits", 14236),
        ("G1 signature just below the modulus", 95260),
        ("G1 signature with leading zero bits", 5571),
        ("G2 hash x.c1 just below the modulus", 198325),
        ("G2 hash x.c1 with leading zero bits", 600),
        ("G2 hash x.c0 just below the modulus", 4485),
        ("G2 hash x.c0 with leading zero bits", 6136),
        ("G2 signature x.c1 just below the modulus", 183131),
        ("G2 signature x.c1 with leading zero bits", 780),
        ("G2 signature x.c0 just below the modulus", 2177),
        ("G2 signature x.c0 with leading zero bits", 183),
        // signatures (under the first derived key) ENDING in CR LF / NUL NUL / two spaces, per group and scheme
        ("G1 Basic signature ending in CR LF", 32567),
        ("G1 MessageAugmentation signature ending in CR LF", 87904),
        ("G1 ProofOfPossession signature ending in CR LF", 54891),
        ("G2 Basic signature ending in CR LF", 116608),
        ("G2 MessageAugmentation signature ending in CR LF", 18335),
        ("G2 ProofOfPossession signature ending in CR LF", 78209),
        ("G1 Basic signature ending in NUL NUL", 91422),
        ("G1 MessageAugmentation signature ending in NUL NUL", 11037),
        ("G1 ProofOfPossession signature ending in NUL NUL", 17611),
        ("G2 Basic signature ending in NUL NUL", 117575),
        ("G2 MessageAugmentation signature ending in NUL NUL", 3075),
        ("G2 ProofOfPossession signature ending in NUL NUL", 64997),
        ("G1 Basic signature ending in two spaces", 24398),
        ("G1 MessageAugmentation signature ending in two spaces", 11250),
        ("G1 ProofOfPossession signature ending in two spaces", 83987),
        ("G2 Basic signature ending in two spaces", 94308),
        ("G2 MessageAugmentation signature ending in two spaces", 629),
        ("G2 ProofOfPossession signature ending in two spaces", 11470),
        // signatures with a coordinate whose leading byte equals the leading byte of the field modulus (0x1a)
        ("G1 Basic signature leading byte 1a", 1171),
        ("G1 MessageAugmentation signature leading byte 1a", 5434),
        ("G1 ProofOfPossession signature leading byte 1a", 4471),
        ("G2 Basic signature x.c1 leading byte 1a", 873),
        ("G2 Basic signature x.c0 leading byte 1a", 2177),
        ("G2 MessageAugmentation signature x.c1 leading byte 1a", 15306),
        ("G2 MessageAugmentation signature x.c0 leading byte 1a", 2079),
        ("G2 ProofOfPossession signature x.c1 leading byte 1a", 11455),
        ("G2 ProofOfPossession signature x.c0 leading byte 1a", 5102),
        // first three bytes of the signature's (first) coordinate equal those of the field modulus
        ("G1 MessageAugmentation signature starting 1a0111", 1364281),
        ("G1 ProofOfPossession signature starting 1a0111", 566601),
        ("G2 MessageAugmentation signature x.c1 starting 1a0111", 1204822),
        ("G2 Basic signature x.c1 starting 1a0111", 2418956),
        ("G2 ProofOfPossession signature x.c1 starting 1a0111", 712519),
    ] {
        let m = format!("verif pattern message #{}", i).into_bytes();
        names.push(format!("msg(len={},content=pattern: {})", m.len(), what));
        msgs.push(m);
    }
    MsgAlpha { names, msgs }
}

// ---- codecs (transports) --------------------------------------------------------------------------

#[derive(Copy, Clone, Debug, PartialEq, Eq, Hash, serde::Serialize, serde::Deserialize, PartialOrd, Ord)]
pub enum Codec {
    None,
    Bytes,
    Bare,
    Json,
    Be,
    Le,
    /// the by-value / container conversions: Vec<u8>::from(T), TryFrom<Vec<u8>>, TryFrom<&Vec<u8>>, TryFrom<Box<[u8]>>
    VecOwned,
    VecRef,
    BoxSlice,
    /// the JSON document read through `serde_json::from_reader` (owned strings) / through a `serde_json::Value`
    JsonReader,
    JsonValue,
}

pub fn via_bare<T: Serialize + DeserializeOwned>(v: &T) -> Result<T, String> {
    let b = serde_bare::to_vec(v).map_err(|e| format!("bare encode: {}", e))?;
    serde_bare::from_slice(&b).map_err(|e| format!("bare decode: {}", e))
}
pub fn via_json<T: Serialize + DeserializeOwned>(v: &T) -> Result<T, String> {
    let b = serde_json::to_vec(v).map_err(|e| format!("json encode: {}", e))?;
    serde_json::from_slice(&b).map_err(|e| format!("json decode: {}", e))
}

/// the JSON document read back through `serde_json::from_reader` (the deserializer hands out owned strings)
pub fn via_json_reader<T: Serialize + DeserializeOwned>(v: &T) -> Result<T, String> {
    let b = serde_json::to_vec(v).map_err(|e| format!("json encode: {}", e))?;
    serde_json::from_reader(b.as_slice()).map_err(|e| format!("json from_reader: {}", e))
}
/// through a `serde_json::Value`
pub fn via_json_value<T: Serialize + DeserializeOwned>(v: &T) -> Result<T, String> {
    let val = serde_json::to_value(v).map_err(|e| format!("json to_value: {}", e))?;
    serde_json::from_value(val).map_err(|e| format!("json from_value: {}", e))
}

pub fn transport_sk<C: Suite>(sk: &SecretKey<C>, c: Codec) -> Result<SecretKey<C>, String> {
    match c {
        Codec::None => Ok(sk.clone()),
        Codec::Bytes => SecretKey::<C>::try_from(Vec::<u8>::from(sk).as_slice()).map_err(|e| e.to_string()),
        Codec::Bare => via_bare(sk),
        Codec::Json => via_json(sk),
        Codec::JsonReader => via_json_reader(sk),
        Codec::JsonValue => via_json_value(sk),
        Codec::Be => Option::from(SecretKey::<C>::from_be_bytes(&sk.to_be_bytes())).ok_or("from_be_bytes None".to_string()),
        Codec::Le => Option::from(SecretKey::<C>::from_le_bytes(&sk.to_le_bytes())).ok_or("from_le_bytes None".to_string()),
        _ => Err("codec not offered".into()),
    }
}
pub fn transport_pk<C: Suite>(pk: &PublicKey<C>, c: Codec) -> Result<PublicKey<C>, String> {
    match c {
        Codec::None => Ok(*pk),
        Codec::Bytes => PublicKey::<C>::try_from(Vec::<u8>::from(pk).as_slice()).map_err(|e| e.to_string()),
        Codec::Bare => via_bare(pk),
        Codec::Json => via_json(pk),
        Codec::JsonReader => via_json_reader(pk),
        Codec::JsonValue => via_json_value(pk),
        _ => Err("codec not offered".into()),
    }
}
pub fn transport_sig<C: Suite>(s: &Signature<C>, c: Codec) -> Result<Signature<C>, String> {
    match c {
        Codec::None => Ok(*s),
        Codec::Bytes => Signature::<C>::try_from(Vec::<u8>::from(s).as_slice()).map_err(|e| e.to_string()),
        Codec::Bare => via_bare(s),
        Codec::Json => via_json(s),
        Codec::JsonReader => via_json_reader(s),
        Codec::JsonValue => via_json_value(s),
        _ => Err("codec not offered".into()),
    }
}

pub fn res<T, E>(r: &Result<T, E>) -> &'static str {
    if r.is_ok() {
        "Ok"
    } else {
        "Err"
    }
}

pub const GROUPS: [&str; 2] = ["G1", "G2"];

/// dispatch a generic function over both curve assignments
#[macro_export]
macro_rules! for_both {
    ($f:ident ( $($args:expr),* )) => {{
        $f::<blsful::Bls12381G1Impl>($($args),*);
        $f::<blsful::Bls12381G2Impl>($($args),*);
    }};
}

// ---- share containers built from points (identifier + compressed bytes) -----------------------------
use blsful::vsss_rs::Share;

pub fn raw_pk_share<C: Suite>(id: u8, bytes: &[u8]) -> <C as Pairing>::PublicKeyShare {
    let mut s = <C as Pairing>::PublicKeyShare::empty_share_with_capacity(bytes.len());
    *s.identifier_mut() = id;
    s.value_mut(bytes).expect("share payload length");
    s
}
pub fn raw_sig_share<C: Suite>(id: u8, bytes: &[u8]) -> <C as Pairing>::SignatureShare {
    let mut s = <C as Pairing>::SignatureShare::empty_share_with_capacity(bytes.len());
    *s.identifier_mut() = id;
    s.value_mut(bytes).expect("share payload length");
    s
}
pub fn mk_pk_share<C: Suite>(id: u8, p: &PkP<C>) -> PublicKeyShare<C> {
    PublicKeyShare(raw_pk_share::<C>(id, &pt(p)))
}
pub fn mk_sig_share<C: Suite>(s: Scheme, id: u8, p: &SgP<C>) -> SignatureShare<C> {
    let raw = raw_sig_share::<C>(id, &pt(p));
    match s {
        Scheme::Basic => SignatureShare::Basic(raw),
        Scheme::Aug => SignatureShare::MessageAugmentation(raw),
        Scheme::Pop => SignatureShare::ProofOfPossession(raw),
    }
}
pub fn mk_multi_sig<C: Suite>(s: Scheme, p: SgP<C>) -> MultiSignature<C> {
    match s {
        Scheme::Basic => MultiSignature::Basic(p),
        Scheme::Aug => MultiSignature::MessageAugmentation(p),
        Scheme::Pop => MultiSignature::ProofOfPossession(p),
    }
}
pub fn mk_agg_sig<C: Suite>(s: Scheme, p: SgP<C>) -> AggregateSignature<C> {
    match s {
        Scheme::Basic => AggregateSignature::Basic(p),
        Scheme::Aug => AggregateSignature::MessageAugmentation(p),
        Scheme::Pop => AggregateSignature::ProofOfPossession(p),
    }
}
/// verdict of a library call wrapped in `guard`: "Ok" / "Err" / "PANIC"
pub fn verdict<T, E>(r: &Result<Result<T, E>, String>) -> &'static str {
    match r {
        Ok(Ok(_)) => "Ok",
        Ok(Err(_)) => "Err",
        Err(_) => "PANIC",
    }
}

// ---- environment (hook) ownership ---------------------------------------------------------------------

/// Run `f` with the entropy seam answering from `answers` (then from a counter) and the clock fixed.
/// Both overrides are removed afterwards, also when `f` panics.
pub fn with_env<T>(answers: Vec<[u8; 32]>, clock_ms: Option<u64>, f: impl FnOnce() -> T) -> Result<T, String> {
    blsful::verif_hooks::set_entropy(Some(answers));
    blsful::verif_hooks::set_clock_ms(clock_ms);
    let r = crate::engine::guard(f);
    blsful::verif_hooks::set_entropy(None);
    blsful::verif_hooks::set_clock_ms(None);
    r
}

pub fn entropy_stream(seed: u64, label: &str, n: usize) -> Vec<[u8; 32]> {
    (0..n).map(|i| data32(seed, &format!("entropy-{}-{}", label, i))).collect()
}

pub const CLOCK0: u64 = 1_700_000_000_000;

// ---- structurally special messages (built from the signer's compressed public key) ---------------------
pub const SPECIAL_MESSAGES: [&str; 4] = ["msg = pk bytes", "msg = pk bytes || 'm'", "msg = pk bytes || pk bytes", "msg = pk bytes minus last byte"];

pub fn special_message(pk: &[u8], i: usize) -> Vec<u8> {
    let mut v = pk.to_vec();
    match i {
        0 => {}
        1 => v.push(b'm'),
        2 => v.extend_from_slice(pk),
        _ => {
            v.pop();
        }
    }
    v
}

/// carry a secret key through the curve tagged wrapper `SecretKeyEnum`
pub fn transport_sk_enum<C: Suite>(sk: &SecretKey<C>, c: Codec) -> Result<SecretKey<C>, String> {
    let be = sk.to_be_bytes();
    let g1 = C::G == "G1";
    let e = if g1 {
        SecretKeyEnum::G1(sk_from_be::<Bls12381G1Impl>(&be).ok_or("import")?)
    } else {
        SecretKeyEnum::G2(sk_from_be::<Bls12381G2Impl>(&be).ok_or("import")?)
    };
    let back: SecretKeyEnum = match c {
        Codec::Bytes => SecretKeyEnum::try_from(Vec::<u8>::from(&e).as_slice()).map_err(|x| x.to_string())?,
        Codec::Bare => via_bare(&e)?,
        Codec::Json => via_json(&e)?,
        Codec::JsonReader => via_json_reader(&e)?,
        Codec::JsonValue => via_json_value(&e)?,
        Codec::Be => Option::from(SecretKeyEnum::from_be_bytes(&e.to_be_bytes())).ok_or("SecretKeyEnum::from_be_bytes None".to_string())?,
        Codec::Le => Option::from(SecretKeyEnum::from_le_bytes(&e.to_le_bytes())).ok_or("SecretKeyEnum::from_le_bytes None".to_string())?,
        _ => return Err("codec not offered".into()),
    };
    let (variant_ok, bytes) = match &back {
        SecretKeyEnum::G1(k) => (g1, k.to_be_bytes()),
        SecretKeyEnum::G2(k) => (!g1, k.to_be_bytes()),
    };
    if !variant_ok {
        return Err("SecretKeyEnum came back as the other curve variant".into());
    }
    sk_from_be::<C>(&bytes).ok_or("import".to_string())
}

// ---- values moved by the library's constant time selection helpers ----------------------------------------

/// `conditional_select`, `conditional_assign` and `conditional_swap` of two values of the same variant: choice 0 keeps
/// the first, choice 1 takes the second. Returns what went wrong, if anything (a panic is reported as such).
pub fn ct_move_check<T: subtle::ConditionallySelectable + PartialEq>(a: &T, b: &T) -> Option<String> {
    let r = crate::engine::guard(|| {
        use subtle::Choice;
        let mut bad = vec![];
        if T::conditional_select(a, b, Choice::from(0)) != *a {
            bad.push("select(a,b,0) != a");
        }
        if T::conditional_select(a, b, Choice::from(1)) != *b {
            bad.push("select(a,b,1) != b");
        }
        let mut x = *a;
        x.conditional_assign(b, Choice::from(0));
        if x != *a {
            bad.push("assign(b,0) changed the value");
        }
        x.conditional_assign(b, Choice::from(1));
        if x != *b {
            bad.push("assign(b,1) did not take b");
        }
        let (mut x, mut y) = (*a, *b);
        T::conditional_swap(&mut x, &mut y, Choice::from(0));
        if x != *a || y != *b {
            bad.push("swap(0) exchanged the values");
        }
        T::conditional_swap(&mut x, &mut y, Choice::from(1));
        if x != *b || y != *a {
            bad.push("swap(1) did not exchange the values");
        }
        bad
    });
    match r {
        Ok(bad) if bad.is_empty() => None,
        Ok(bad) => Some(bad.join("; ")),
        Err(p) => Some(format!("PANIC {}", p)),
    }
}
/// records the outcome of `ct_move_check` under `<prop>:moved-by-constant-time-selection:<type>`
pub fn expect_ct_move<T: subtle::ConditionallySelectable + PartialEq>(o: &mut crate::engine::Obs, prop: &str, ty: &str, a: &T, b: &T) {
    let r = ct_move_check(a, b);
    o.expect(&format!("{}:moved-by-constant-time-selection:{}", prop, ty), r.is_none(), "choice 0 keeps the first value, choice 1 takes the second", r.as_deref().unwrap_or(""));
}

// ---- a point component replaced inside an encoding ---------------------------------------------------------

/// Re-decode `v` after the compressed point `from` inside its encoding was replaced by `to` (same length):
/// codec Bytes = the library's byte form, Bare = serde_bare, Json / JsonReader / JsonValue = the hex inside the document.
/// Err = the decoder refused (or the component was not found, which is reported as "component-not-found").
pub fn redecode_with_point<T>(v: &T, from: &[u8], to: &[u8], c: Codec) -> Result<T, String>
where
    T: Serialize + DeserializeOwned + for<'a> TryFrom<&'a [u8]>,
    for<'a> &'a T: Into<Vec<u8>>,
{
    fn replace(hay: &[u8], from: &[u8], to: &[u8]) -> Option<Vec<u8>> {
        let pos = hay.windows(from.len()).position(|w| w == from)?;
        let mut out = hay.to_vec();
        out[pos..pos + from.len()].copy_from_slice(to);
        Some(out)
    }
    match c {
        Codec::Bytes => {
            let b: Vec<u8> = v.into();
            let b = replace(&b, from, to).ok_or("component-not-found")?;
            T::try_from(b.as_slice()).map_err(|_| "refused".to_string())
        }
        Codec::Bare => {
            let b = serde_bare::to_vec(v).map_err(|e| e.to_string())?;
            let b = replace(&b, from, to).ok_or("component-not-found")?;
            serde_bare::from_slice(&b).map_err(|e| e.to_string())
        }
        _ => {
            let j = serde_json::to_string(v).map_err(|e| e.to_string())?;
            let (hf, ht) = (hex::encode(from), hex::encode(to));
            if !j.contains(&hf) {
                return Err("component-not-found".into());
            }
            let j = j.replacen(&hf, &ht, 1);
            match c {
                Codec::JsonReader => serde_json::from_reader(j.as_bytes()).map_err(|e| e.to_string()),
                Codec::JsonValue => serde_json::from_str::<serde_json::Value>(&j).and_then(serde_json::from_value).map_err(|e| e.to_string()),
                _ => serde_json::from_str(&j).map_err(|e| e.to_string()),
            }
        }
    }
}
pub const DECODERS: [Codec; 5] = [Codec::Bytes, Codec::Bare, Codec::Json, Codec::JsonReader, Codec::JsonValue];

// ---- iterator shapes --------------------------------------------------------------------------------------

/// The same sequence handed over as iterators that report different `size_hint`s: exact (slice), lower bound 0
/// (filter), exact head + unsized tail (chain), nothing at all (`from_fn`), and a lower bound of 0 with an upper bound
/// (`take_while`). The trait functions accept any `Iterator`, so their result must not depend on the hint.
pub fn iterator_shapes<'a, T: Clone + 'a>(v: &'a [T]) -> Vec<(&'static str, Box<dyn Iterator<Item = T> + 'a>)> {
    let half = v.len() / 2;
    let mut i = 0usize;
    vec![
        ("exact", Box::new(v.iter().cloned()) as Box<dyn Iterator<Item = T> + 'a>),
        ("filter", Box::new(v.iter().cloned().filter(|_| true))),
        ("chain-exact-then-filter", Box::new(v[..half].iter().cloned().chain(v[half..].iter().cloned().filter(|_| true)))),
        ("from_fn", Box::new(std::iter::from_fn(move || {
            i += 1;
            v.get(i - 1).cloned()
        }))),
        ("take_while", Box::new(v.iter().cloned().take_while(|_| true))),
        ("flat_map", Box::new(v.iter().cloned().flat_map(|x| std::iter::once(x)))),
    ]
}

// ---- scalars at the edges of their 64 bit limbs -------------------------------------------------------------

/// canonical scalars (below r) whose little endian 64 bit limbs are at their extremes: range checks written limb by limb
/// get the order or the carry wrong exactly here
pub fn limb_edge_scalars() -> Vec<(String, [u8; 32])> {
    let mk = |limbs_le: [u64; 4]| -> [u8; 32] {
        let mut be = [0u8; 32];
        for (i, l) in limbs_le.iter().enumerate() {
            be[32 - 8 * (i + 1)..32 - 8 * i].copy_from_slice(&l.to_be_bytes());
        }
        be
    };
    let m = u64::MAX;
    // r = 0x73eda753299d7d48 3339d80809a1d805 53bda402fffe5bfe ffffffff00000001
    let v = vec![
        ("2^64-1".to_string(), mk([m, 0, 0, 0])),
        ("2^128-1".to_string(), mk([m, m, 0, 0])),
        ("2^192-1".to_string(), mk([m, m, m, 0])),
        ("low limb ffffffff00000002".to_string(), mk([0xffffffff00000002, 0, 0, 0])),
        ("top limb of r minus one, other limbs all ones".to_string(), mk([m, m, m, 0x73eda753299d7d47])),
        ("top limbs of r, low limbs all ones below".to_string(), mk([m, m, 0x3339d80809a1d804, 0x73eda753299d7d48])),
        ("r with its low limb minus two plus all ones in limb 0 of r-".to_string(), mk([0xffffffff00000000, 0x53bda402fffe5bfe, 0x3339d80809a1d805, 0x73eda753299d7d48])),
        ("only the top limb".to_string(), mk([0, 0, 0, 0x73eda753299d7d48])),
        ("2^255 - 2^192 region: top limb 0x7000...".to_string(), mk([1, 0, 0, 0x7000000000000000])),
    ];
    for (n, b) in &v {
        assert!(rf::scalar_from_be(b).is_some(), "limb edge scalar '{}' is not canonical", n);
    }
    v
}

// ---- parallel construction of model tables ------------------------------------------------------------------------

struct SendPtr<T>(T);
unsafe impl<T> Send for SendPtr<T> {}
unsafe impl<T> Sync for SendPtr<T> {}

/// `(0..n).map(f)` on 16 threads. The values are plain data of the two concrete curve assignments (see
/// `engine::AssertSync`); the generic associated types merely hide that from the compiler.
pub fn par_table<T, F: Fn(usize) -> T>(n: usize, f: F) -> Vec<T> {
    let f = SendPtr(&f);
    let threads = 16usize;
    let chunk = (n + threads - 1) / threads.max(1);
    let mut parts: Vec<SendPtr<Vec<T>>> = std::thread::scope(|sc| {
        let hs: Vec<_> = (0..threads)
            .map(|t| {
                let f = &f;
                sc.spawn(move || {
                    let f = f;
                    SendPtr((t * chunk..((t + 1) * chunk).min(n)).map(|i| (f.0)(i)).collect::<Vec<T>>())
                })
            })
            .collect();
        hs.into_iter().map(|h| h.join().expect("table construction panicked")).collect()
    });
    parts.drain(..).flat_map(|p| p.0).collect()
}
