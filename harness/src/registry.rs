//! Registry of the 28 exported data types: values, codecs, contained points / scalars and the
//! consuming methods, behind one object safe interface (used by C15, C16, C17, C18).
use crate::common::*;
use crate::engine::guard;
use crate::refmodel::Scheme;
use blsful::vsss_rs::Share;
use blsful::*;
use rand_core::SeedableRng;
use serde::{de::DeserializeOwned, Serialize};

pub const STD_CODECS: [Codec; 8] = [Codec::Bytes, Codec::VecOwned, Codec::VecRef, Codec::BoxSlice, Codec::Bare, Codec::Json, Codec::JsonReader, Codec::JsonValue];
pub const SCALAR_CODECS: [Codec; 10] = [Codec::Bytes, Codec::VecOwned, Codec::VecRef, Codec::BoxSlice, Codec::Bare, Codec::Json, Codec::JsonReader, Codec::JsonValue, Codec::Be, Codec::Le];

/// Everything the checks need to know about one data type.
pub trait Wire: Sized + Clone + PartialEq + Serialize + DeserializeOwned {
    /// exact byte length type (keys, proofs of possession, commitments, scalars)
    const FIXED: bool;
    fn codecs() -> Vec<Codec> {
        STD_CODECS.to_vec()
    }
    fn to_b(&self) -> Vec<u8>;
    fn to_b_owned(self) -> Vec<u8>;
    fn from_b(b: &[u8]) -> Result<Self, String>;
    fn from_vec(b: Vec<u8>) -> Result<Self, String>;
    fn from_vec_ref(b: &Vec<u8>) -> Result<Self, String>;
    fn from_box(b: Box<[u8]>) -> Result<Self, String>;
    fn to_endian(&self, _le: bool) -> Option<Vec<u8>> {
        None
    }
    fn from_endian(_b: &[u8], _le: bool) -> Option<Result<Self, String>> {
        None
    }
    /// compressed encodings of every point held (share payloads included)
    fn points(&self) -> Vec<Vec<u8>>;
    /// big endian encodings of every scalar held
    fn scalars(&self) -> Vec<Vec<u8>> {
        vec![]
    }
    fn enc(&self, c: Codec) -> Result<Vec<u8>, String> {
        match c {
            Codec::Bytes | Codec::VecRef | Codec::BoxSlice => Ok(self.to_b()),
            Codec::VecOwned => Ok(self.clone().to_b_owned()),
            Codec::Bare => serde_bare::to_vec(self).map_err(|e| e.to_string()),
            Codec::Json | Codec::JsonReader => serde_json::to_vec(self).map_err(|e| e.to_string()),
            Codec::JsonValue => serde_json::to_value(self).map(|v| v.to_string().into_bytes()).map_err(|e| e.to_string()),
            Codec::Be => self.to_endian(false).ok_or("no be".into()),
            Codec::Le => self.to_endian(true).ok_or("no le".into()),
            Codec::None => Err("none".into()),
        }
    }
    fn dec(c: Codec, b: &[u8]) -> Result<Self, String> {
        match c {
            Codec::Bytes => Self::from_b(b),
            Codec::VecOwned => Self::from_vec(b.to_vec()),
            Codec::VecRef => Self::from_vec_ref(&b.to_vec()),
            Codec::BoxSlice => Self::from_box(b.to_vec().into_boxed_slice()),
            Codec::Bare => serde_bare::from_slice(b).map_err(|e| e.to_string()),
            Codec::Json => serde_json::from_slice(b).map_err(|e| e.to_string()),
            Codec::JsonReader => serde_json::from_reader(b).map_err(|e| e.to_string()),
            Codec::JsonValue => serde_json::from_slice::<serde_json::Value>(b).and_then(serde_json::from_value).map_err(|e| e.to_string()),
            Codec::Be => Self::from_endian(b, false).unwrap_or(Err("no be".into())),
            Codec::Le => Self::from_endian(b, true).unwrap_or(Err("no le".into())),
            Codec::None => Err("none".into()),
        }
    }
}

macro_rules! std_bytes {
    () => {
        fn to_b(&self) -> Vec<u8> {
            Vec::<u8>::from(self)
        }
        fn to_b_owned(self) -> Vec<u8> {
            Vec::<u8>::from(self)
        }
        fn from_b(b: &[u8]) -> Result<Self, String> {
            Self::try_from(b).map_err(|e| e.to_string())
        }
        fn from_vec(b: Vec<u8>) -> Result<Self, String> {
            Self::try_from(b).map_err(|e| e.to_string())
        }
        fn from_vec_ref(b: &Vec<u8>) -> Result<Self, String> {
            Self::try_from(b).map_err(|e| e.to_string())
        }
        fn from_box(b: Box<[u8]>) -> Result<Self, String> {
            Self::try_from(b).map_err(|e| e.to_string())
        }
    };
}

macro_rules! scalar_endian {
    () => {
        fn codecs() -> Vec<Codec> {
            SCALAR_CODECS.to_vec()
        }
        fn to_endian(&self, le: bool) -> Option<Vec<u8>> {
            Some(if le { self.to_le_bytes().to_vec() } else { self.to_be_bytes().to_vec() })
        }
        fn from_endian(b: &[u8], le: bool) -> Option<Result<Self, String>> {
            let Ok(a) = <[u8; 32]>::try_from(b) else {
                return Some(Err("length".into()));
            };
            let r = if le { Self::from_le_bytes(&a) } else { Self::from_be_bytes(&a) };
            Some(Option::<Self>::from(r).ok_or("None".to_string()))
        }
    };
}

fn share_pts<S: Share<Identifier = u8>>(s: &S) -> Vec<Vec<u8>> {
    vec![s.value_vec()]
}

impl<C: Suite> Wire for SecretKey<C> {
    const FIXED: bool = true;
    std_bytes!();
    scalar_endian!();
    fn points(&self) -> Vec<Vec<u8>> {
        vec![]
    }
    fn scalars(&self) -> Vec<Vec<u8>> {
        vec![self.to_be_bytes().to_vec()]
    }
}
impl<C: Suite> Wire for ProofCommitmentSecret<C> {
    const FIXED: bool = true;
    std_bytes!();
    scalar_endian!();
    fn points(&self) -> Vec<Vec<u8>> {
        vec![]
    }
    fn scalars(&self) -> Vec<Vec<u8>> {
        vec![self.to_be_bytes().to_vec()]
    }
}
impl<C: Suite> Wire for ProofCommitmentChallenge<C> {
    const FIXED: bool = true;
    std_bytes!();
    scalar_endian!();
    fn points(&self) -> Vec<Vec<u8>> {
        vec![]
    }
    fn scalars(&self) -> Vec<Vec<u8>> {
        vec![self.to_be_bytes().to_vec()]
    }
}
impl<C: Suite> Wire for PublicKey<C> {
    const FIXED: bool = true;
    std_bytes!();
    fn points(&self) -> Vec<Vec<u8>> {
        vec![pt(&self.0)]
    }
}
impl<C: Suite> Wire for MultiPublicKey<C> {
    const FIXED: bool = true;
    std_bytes!();
    fn points(&self) -> Vec<Vec<u8>> {
        vec![pt(&self.0)]
    }
}
impl<C: Suite> Wire for ProofOfPossession<C> {
    const FIXED: bool = true;
    std_bytes!();
    fn points(&self) -> Vec<Vec<u8>> {
        vec![pt(&self.0)]
    }
}
impl<C: Suite> Wire for Signature<C> {
    const FIXED: bool = false;
    std_bytes!();
    fn points(&self) -> Vec<Vec<u8>> {
        vec![pt(self.as_raw_value())]
    }
}
impl<C: Suite> Wire for AggregateSignature<C> {
    const FIXED: bool = false;
    std_bytes!();
    fn points(&self) -> Vec<Vec<u8>> {
        match self {
            Self::Basic(p) | Self::MessageAugmentation(p) | Self::ProofOfPossession(p) => vec![pt(p)],
        }
    }
}
impl<C: Suite> Wire for MultiSignature<C> {
    const FIXED: bool = false;
    std_bytes!();
    fn points(&self) -> Vec<Vec<u8>> {
        vec![pt(self.as_raw_value())]
    }
}
impl<C: Suite> Wire for ProofCommitment<C> {
    const FIXED: bool = true;
    std_bytes!();
    fn points(&self) -> Vec<Vec<u8>> {
        match self {
            Self::Basic(p) | Self::MessageAugmentation(p) | Self::ProofOfPossession(p) => vec![pt(p)],
        }
    }
}
impl<C: Suite> Wire for ProofOfKnowledge<C> {
    const FIXED: bool = false;
    std_bytes!();
    fn points(&self) -> Vec<Vec<u8>> {
        match self {
            Self::Basic { u, v } | Self::MessageAugmentation { u, v } | Self::ProofOfPossession { u, v } => vec![pt(u), pt(v)],
        }
    }
}
impl<C: Suite> Wire for ProofOfKnowledgeTimestamp<C> {
    const FIXED: bool = false;
    std_bytes!();
    fn points(&self) -> Vec<Vec<u8>> {
        self.proof.points()
    }
}
impl<C: Suite> Wire for SecretKeyShare<C> {
    const FIXED: bool = false;
    std_bytes!();
    fn points(&self) -> Vec<Vec<u8>> {
        vec![]
    }
}
impl<C: Suite> Wire for PublicKeyShare<C> {
    const FIXED: bool = false;
    std_bytes!();
    fn points(&self) -> Vec<Vec<u8>> {
        share_pts(&self.0)
    }
}
impl<C: Suite> Wire for SignatureShare<C> {
    const FIXED: bool = false;
    std_bytes!();
    fn points(&self) -> Vec<Vec<u8>> {
        share_pts(self.as_raw_value())
    }
}
impl<C: Suite> Wire for SignDecryptionShare<C> {
    const FIXED: bool = false;
    std_bytes!();
    fn points(&self) -> Vec<Vec<u8>> {
        share_pts(&self.0)
    }
}
impl<C: Suite> Wire for ElGamalDecryptionShare<C> {
    const FIXED: bool = false;
    std_bytes!();
    fn points(&self) -> Vec<Vec<u8>> {
        share_pts(&self.0)
    }
}
impl<C: Suite> Wire for SignCryptCiphertext<C> {
    const FIXED: bool = false;
    std_bytes!();
    fn points(&self) -> Vec<Vec<u8>> {
        vec![pt(&self.u), pt(&self.w)]
    }
}
impl<C: Suite> Wire for SignCryptDecryptionKey<C> {
    const FIXED: bool = false;
    std_bytes!();
    fn points(&self) -> Vec<Vec<u8>> {
        vec![pt(&self.0)]
    }
}
impl<C: Suite> Wire for TimeCryptCiphertext<C> {
    const FIXED: bool = false;
    std_bytes!();
    fn points(&self) -> Vec<Vec<u8>> {
        vec![pt(&self.u)]
    }
}
impl<C: Suite> Wire for ElGamalCiphertext<C> {
    const FIXED: bool = false;
    std_bytes!();
    fn points(&self) -> Vec<Vec<u8>> {
        vec![pt(&self.c1), pt(&self.c2)]
    }
}
impl<C: Suite> Wire for ElGamalProof<C> {
    const FIXED: bool = false;
    std_bytes!();
    fn points(&self) -> Vec<Vec<u8>> {
        self.ciphertext.points()
    }
    fn scalars(&self) -> Vec<Vec<u8>> {
        vec![sc_to_be::<C>(&self.message_proof).to_vec(), sc_to_be::<C>(&self.blinder_proof).to_vec(), sc_to_be::<C>(&self.challenge).to_vec()]
    }
}
impl<C: Suite> Wire for ElGamalDecryptionKey<C> {
    const FIXED: bool = false;
    std_bytes!();
    fn points(&self) -> Vec<Vec<u8>> {
        vec![pt(&self.0)]
    }
}
impl Wire for InnerPointShareG1 {
    const FIXED: bool = true;
    std_bytes!();
    fn points(&self) -> Vec<Vec<u8>> {
        share_pts(self)
    }
}
impl Wire for InnerPointShareG2 {
    const FIXED: bool = true;
    std_bytes!();
    fn points(&self) -> Vec<Vec<u8>> {
        share_pts(self)
    }
}
impl Wire for SecretKeyEnum {
    const FIXED: bool = true;
    std_bytes!();
    fn codecs() -> Vec<Codec> {
        SCALAR_CODECS.to_vec()
    }
    fn to_endian(&self, le: bool) -> Option<Vec<u8>> {
        Some(if le { self.to_le_bytes() } else { self.to_be_bytes() })
    }
    fn from_endian(b: &[u8], le: bool) -> Option<Result<Self, String>> {
        let r = if le { Self::from_le_bytes(b) } else { Self::from_be_bytes(b) };
        Some(Option::<Self>::from(r).ok_or("None".to_string()))
    }
    fn points(&self) -> Vec<Vec<u8>> {
        vec![]
    }
    fn scalars(&self) -> Vec<Vec<u8>> {
        vec![match self {
            SecretKeyEnum::G1(k) => k.to_be_bytes().to_vec(),
            SecretKeyEnum::G2(k) => k.to_be_bytes().to_vec(),
        }]
    }
}
impl Wire for SignatureSchemes {
    const FIXED: bool = false;
    fn codecs() -> Vec<Codec> {
        vec![Codec::Bytes, Codec::Bare, Codec::Json, Codec::JsonReader, Codec::JsonValue]
    }
    fn to_b(&self) -> Vec<u8> {
        vec![*self as u8]
    }
    fn to_b_owned(self) -> Vec<u8> {
        vec![self as u8]
    }
    fn from_b(b: &[u8]) -> Result<Self, String> {
        if b.len() != 1 {
            return Err("length".into());
        }
        Ok(SignatureSchemes::from(b[0]))
    }
    fn from_vec(b: Vec<u8>) -> Result<Self, String> {
        Self::from_b(&b)
    }
    fn from_vec_ref(b: &Vec<u8>) -> Result<Self, String> {
        Self::from_b(b)
    }
    fn from_box(b: Box<[u8]>) -> Result<Self, String> {
        Self::from_b(&b)
    }
    fn points(&self) -> Vec<Vec<u8>> {
        vec![]
    }
}
impl Wire for Bls12381 {
    const FIXED: bool = false;
    fn codecs() -> Vec<Codec> {
        vec![Codec::Bytes, Codec::Bare, Codec::Json, Codec::JsonReader, Codec::JsonValue]
    }
    fn to_b(&self) -> Vec<u8> {
        vec![u8::from(self)]
    }
    fn to_b_owned(self) -> Vec<u8> {
        vec![u8::from(self)]
    }
    fn from_b(b: &[u8]) -> Result<Self, String> {
        if b.len() != 1 {
            return Err("length".into());
        }
        Bls12381::try_from(&b[0]).map_err(|e| e.to_string())
    }
    fn from_vec(b: Vec<u8>) -> Result<Self, String> {
        Self::from_b(&b)
    }
    fn from_vec_ref(b: &Vec<u8>) -> Result<Self, String> {
        Self::from_b(b)
    }
    fn from_box(b: Box<[u8]>) -> Result<Self, String> {
        Self::from_b(&b)
    }
    fn points(&self) -> Vec<Vec<u8>> {
        vec![]
    }
}

// ---------------------------------------------------------------------------------------------------
// honest context shared by value construction and the consumers

pub struct Ctx<C: Suite> {
    pub sk: SecretKey<C>,
    pub sk2: SecretKey<C>,
    pub pk: PublicKey<C>,
    pub msg: Vec<u8>,
    pub id: Vec<u8>,
    pub sigs: [Signature<C>; 3],
    pub id_sigs: [Signature<C>; 3],
    pub shares: Vec<SecretKeyShare<C>>,
    pub pk_shares: Vec<PublicKeyShare<C>>,
    pub sig_shares: Vec<SignatureShare<C>>,
    pub sc: SignCryptCiphertext<C>,
    pub sc_shares: Vec<SignDecryptionShare<C>>,
    pub tl: TimeCryptCiphertext<C>,
    pub eg: ElGamalCiphertext<C>,
    pub egp: ElGamalProof<C>,
    pub eg_shares: Vec<ElGamalDecryptionShare<C>>,
    pub challenge: ProofCommitmentChallenge<C>,
}

pub const SCHEMES3: [Scheme; 3] = [Scheme::Basic, Scheme::Aug, Scheme::Pop];

impl<C: Suite> Ctx<C> {
    pub fn new(seed: u64) -> Self {
        let sk = SecretKey::<C>::from_hash(data(seed, "registry-sk", 32));
        let sk2 = SecretKey::<C>::from_hash(data(seed, "registry-sk2", 32));
        let pk = sk.public_key();
        let msg = msg_of(seed, 21, 3);
        let id = b"registry id".to_vec();
        let sigs = SCHEMES3.map(|s| sk.sign(lib_scheme(s), &msg).unwrap());
        let id_sigs = SCHEMES3.map(|s| sk.sign(lib_scheme(s), &id).unwrap());
        let shares = sk.split_with_rng(2, 3, rand_chacha::ChaCha20Rng::from_seed(data32(seed, "registry-split"))).unwrap();
        let pk_shares = shares.iter().map(|s| s.public_key().unwrap()).collect();
        let sig_shares = shares.iter().map(|s| s.sign(SignatureSchemes::ProofOfPossession, &msg).unwrap()).collect();
        let ent = entropy_stream(seed, "registry-ctx", 8);
        let (sc, tl, eg, egp) = with_env(ent, Some(CLOCK0), || {
            (
                pk.sign_crypt(SignatureSchemes::ProofOfPossession, &msg),
                pk.encrypt_time_lock(SignatureSchemes::ProofOfPossession, &msg, &id).unwrap(),
                pk.encrypt_key_el_gamal(&sk2).unwrap(),
                pk.encrypt_key_el_gamal_with_proof(&sk2).unwrap(),
            )
        })
        .unwrap();
        let sc_shares = shares.iter().map(|s| sc.create_decryption_share(s).unwrap()).collect();
        let eg_shares = shares.iter().map(|s| ElGamalDecryptionShare(<C as BlsSignatureCore>::public_key_share_with_generator(&s.0, eg.c1).unwrap())).collect();
        Ctx {
            sk,
            sk2,
            pk,
            msg,
            id,
            sigs,
            id_sigs,
            shares,
            pk_shares,
            sig_shares,
            sc,
            sc_shares,
            tl,
            eg,
            egp,
            eg_shares,
            challenge: ProofCommitmentChallenge::<C>::from_hash(b"registry challenge"),
        }
    }
}

/// consuming methods of a decoded value (C17) and the "use" of share containers (C16)
pub trait Consume<X>: Wire {
    /// call every consuming method with honest counterpart arguments; must never panic
    fn consume(&self, _x: &X) {}
    /// for share containers: results of the operations that must validate the payload
    /// (true = some operation returned Ok / accepted)
    fn use_container(&self, _x: &X) -> Option<bool> {
        None
    }
}

fn fmt_all<T: std::fmt::Display>(t: &T) {
    let _ = format!("{}", t);
}
fn dbg_all<T: std::fmt::Debug>(t: &T) {
    let _ = format!("{:?}", t);
}

impl<C: Suite> Consume<Ctx<C>> for SecretKey<C> {
    fn consume(&self, x: &Ctx<C>) {
        dbg_all(self);
        let pk = self.public_key();
        for s in SCHEMES3 {
            if let Ok(sig) = self.sign(lib_scheme(s), &x.msg) {
                let _ = sig.verify(&pk, &x.msg);
            }
        }
        let _ = self.proof_of_possession().map(|p| p.verify(pk));
        let _ = Option::<Vec<u8>>::from(x.sc.decrypt(self));
        let _ = self.sign_decryption_key::<&[u8]>(&x.sc).decrypt(&x.sc);
        let _ = x.eg.decrypt(self);
        let _ = x.egp.verify_and_decrypt(self);
        let _ = self.to_be_bytes();
        let _ = self.to_le_bytes();
    }
}
impl<C: Suite> Consume<Ctx<C>> for ProofCommitmentSecret<C> {
    fn consume(&self, x: &Ctx<C>) {
        dbg_all(self);
        if let Ok((c, _)) = ProofCommitment::<C>::generate(&x.msg, x.sigs[2]) {
            let _ = c.finalize(*self, x.challenge, x.sigs[2]).map(|p| p.verify(x.pk, &x.msg, x.challenge));
        }
    }
}
impl<C: Suite> Consume<Ctx<C>> for ProofCommitmentChallenge<C> {
    fn consume(&self, x: &Ctx<C>) {
        dbg_all(self);
        if let Ok((c, s)) = ProofCommitment::<C>::generate(&x.msg, x.sigs[2]) {
            let _ = c.finalize(s, *self, x.sigs[2]).map(|p| p.verify(x.pk, &x.msg, *self));
        }
    }
}
impl<C: Suite> Consume<Ctx<C>> for PublicKey<C> {
    fn consume(&self, x: &Ctx<C>) {
        fmt_all(self);
        dbg_all(self);
        for s in &x.sigs {
            let _ = s.verify(self, &x.msg);
        }
        let _ = x.sk.proof_of_possession().map(|p| p.verify(*self));
        let _ = x.egp.verify(*self);
        let _ = MultiPublicKey::<C>::from_public_keys([*self, x.pk]);
        let _ = AggregateSignature::<C>::from_signatures([x.sigs[0], x.sigs[0]]).map(|a| a.verify(&[(*self, x.msg.clone()), (x.pk, b"other".to_vec())]));
    }
}
impl<C: Suite> Consume<Ctx<C>> for MultiPublicKey<C> {
    fn consume(&self, x: &Ctx<C>) {
        fmt_all(self);
        dbg_all(self);
        let _ = MultiSignature::<C>::from_signatures([x.sigs[2], x.sigs[2]]).map(|m| m.verify(*self, &x.msg));
    }
}
impl<C: Suite> Consume<Ctx<C>> for ProofOfPossession<C> {
    fn consume(&self, x: &Ctx<C>) {
        fmt_all(self);
        dbg_all(self);
        let _ = self.verify(x.pk);
    }
}
impl<C: Suite> Consume<Ctx<C>> for Signature<C> {
    fn consume(&self, x: &Ctx<C>) {
        fmt_all(self);
        dbg_all(self);
        let _ = self.verify(&x.pk, &x.msg);
        for l in [0usize, 1, 7, 8, 255, 256] {
            let _ = self.verify(&x.pk, vec![0x62u8; l]);
        }
        let _ = self.same_scheme(&x.sigs[0]);
        let _ = AggregateSignature::<C>::from_signatures([*self, x.sigs[0]]).map(|a| a.verify(&[(x.pk, x.msg.clone()), (x.pk, b"m2".to_vec())]));
        let _ = MultiSignature::<C>::from_signatures([*self, x.sigs[2]]).map(|m| m.verify(MultiPublicKey::from_public_keys([x.pk, x.pk]), &x.msg));
        let _ = Option::<Vec<u8>>::from(x.tl.decrypt(self));
        if let Ok((c, s)) = ProofCommitment::<C>::generate(&x.msg, *self) {
            let _ = c.finalize(s, x.challenge, *self).map(|p| p.verify(x.pk, &x.msg, x.challenge));
        }
        let _ = ProofOfKnowledgeTimestamp::<C>::generate(&x.msg, *self).map(|p| p.verify(x.pk, &x.msg, Some(1000)));
    }
}
impl<C: Suite> Consume<Ctx<C>> for AggregateSignature<C> {
    fn consume(&self, x: &Ctx<C>) {
        fmt_all(self);
        dbg_all(self);
        let _ = self.verify(&[(x.pk, x.msg.clone()), (x.sk2.public_key(), b"m2".to_vec())]);
        let _ = self.verify::<Vec<u8>>(&[]);
        let _ = self.verify(&[(x.pk, x.msg.clone())]);
        // repeated messages of every short length (the Basic scheme reports them; nothing may abort)
        for l in [0usize, 1, 7, 8, 9, 64] {
            let m = vec![0x61u8; l];
            let _ = self.verify(&[(x.pk, m.clone()), (x.sk2.public_key(), m.clone())]);
            let _ = self.verify(&[(x.pk, m.clone()), (x.sk2.public_key(), b"other".to_vec()), (x.pk, m.clone())]);
        }
    }
}
impl<C: Suite> Consume<Ctx<C>> for MultiSignature<C> {
    fn consume(&self, x: &Ctx<C>) {
        fmt_all(self);
        dbg_all(self);
        let _ = self.verify(MultiPublicKey::from_public_keys([x.pk, x.sk2.public_key()]), &x.msg);
        let _ = self.as_raw_value();
    }
}
impl<C: Suite> Consume<Ctx<C>> for ProofCommitment<C> {
    fn consume(&self, x: &Ctx<C>) {
        fmt_all(self);
        dbg_all(self);
        if let Ok((_, s)) = ProofCommitment::<C>::generate(&x.msg, x.sigs[2]) {
            for sig in &x.sigs {
                let _ = self.finalize(s, x.challenge, *sig).map(|p| p.verify(x.pk, &x.msg, x.challenge));
            }
        }
    }
}
impl<C: Suite> Consume<Ctx<C>> for ProofOfKnowledge<C> {
    fn consume(&self, x: &Ctx<C>) {
        fmt_all(self);
        dbg_all(self);
        let _ = self.verify(x.pk, &x.msg, x.challenge);
        for l in [0usize, 1, 7, 8] {
            let _ = self.verify(x.pk, vec![0x62u8; l], x.challenge);
        }
    }
}
impl<C: Suite> Consume<Ctx<C>> for ProofOfKnowledgeTimestamp<C> {
    fn consume(&self, x: &Ctx<C>) {
        fmt_all(self);
        dbg_all(self);
        for t in [None, Some(0), Some(1000), Some(u64::MAX)] {
            let _ = self.verify(x.pk, &x.msg, t);
        }
    }
}
impl<C: Suite> Consume<Ctx<C>> for SecretKeyShare<C> {
    fn consume(&self, x: &Ctx<C>) {
        dbg_all(self);
        let _ = self.public_key();
        for s in SCHEMES3 {
            let _ = self.sign(lib_scheme(s), &x.msg);
        }
        let _ = x.sc.create_decryption_share(self);
        let _ = SecretKey::<C>::combine(&[self.clone(), x.shares[0].clone()]);
        let _ = SecretKey::<C>::combine(&[self.clone()]);
        let _ = self.as_raw_value();
    }
    fn use_container(&self, x: &Ctx<C>) -> Option<bool> {
        let _ = x;
        None
    }
}
impl<C: Suite> Consume<Ctx<C>> for PublicKeyShare<C> {
    fn consume(&self, x: &Ctx<C>) {
        fmt_all(self);
        dbg_all(self);
        let _ = self.use_container(x);
    }
    fn use_container(&self, x: &Ctx<C>) -> Option<bool> {
        let a = PublicKey::<C>::from_shares(&[*self, x.pk_shares[if self.0.identifier() == x.pk_shares[0].0.identifier() { 1 } else { 0 }]]).is_ok();
        let b = self.verify(&x.sig_shares[0], &x.msg).is_ok();
        let c = x.sc_shares[0].verify(self, &x.sc).is_ok();
        // trait level share verification (with the identifier of the honest signature share so that the id check passes)
        let mut me = self.0;
        *me.identifier_mut() = x.sig_shares[0].as_raw_value().identifier();
        let d = <C as BlsSignaturePop>::partial_verify(me, *x.sig_shares[0].as_raw_value(), &x.msg).is_ok();
        let e = <C as BlsSignatureBasic>::partial_verify(me, *x.sig_shares[0].as_raw_value(), &x.msg).is_ok() && false;
        Some(a || b || c || d || e)
    }
}
impl<C: Suite> Consume<Ctx<C>> for SignatureShare<C> {
    fn consume(&self, x: &Ctx<C>) {
        fmt_all(self);
        dbg_all(self);
        let _ = self.use_container(x);
        let _ = self.same_scheme(&x.sig_shares[0]);
        let _ = self.as_raw_value();
    }
    fn use_container(&self, x: &Ctx<C>) -> Option<bool> {
        // pair with an honest share of the same scheme label so that the scheme check passes
        let other_raw = *x.sig_shares[if self.as_raw_value().identifier() == x.sig_shares[0].as_raw_value().identifier() { 1 } else { 0 }].as_raw_value();
        let other = match self {
            SignatureShare::Basic(_) => SignatureShare::Basic(other_raw),
            SignatureShare::MessageAugmentation(_) => SignatureShare::MessageAugmentation(other_raw),
            SignatureShare::ProofOfPossession(_) => SignatureShare::ProofOfPossession(other_raw),
        };
        let a = Signature::<C>::from_shares(&[*self, other]).is_ok();
        let b = x.pk_shares[0].verify(self, &x.msg).is_ok();
        let c = self.verify(&x.pk_shares[0], &x.msg).is_ok();
        // trait level share verification (identifier aligned with the key share so that the id check passes)
        let mut raw = *self.as_raw_value();
        *raw.identifier_mut() = x.pk_shares[0].0.identifier();
        // every key share of the context: the honest signer of this share value is among them
        let mut d = false;
        for pks in &x.pk_shares {
            let mut raw = raw;
            *raw.identifier_mut() = pks.0.identifier();
            d |= match self {
                SignatureShare::Basic(_) => <C as BlsSignatureBasic>::partial_verify(pks.0, raw, &x.msg).is_ok(),
                _ => <C as BlsSignaturePop>::partial_verify(pks.0, raw, &x.msg).is_ok(),
            };
            d |= <C as BlsSignatureCore>::core_signature_share_verify(pks.0, raw, &x.msg, <C as BlsSignatureBasic>::DST).is_ok();
            d |= <C as BlsSignatureCore>::core_signature_share_verify(pks.0, raw, &x.msg, <C as BlsSignaturePop>::SIG_DST).is_ok();
            // struct level against every key share as well
            d |= pks.verify(self, &x.msg).is_ok();
        }
        Some(a || b || c || d)
    }
}
impl<C: Suite> Consume<Ctx<C>> for SignDecryptionShare<C> {
    fn consume(&self, x: &Ctx<C>) {
        dbg_all(self);
        let _ = self.use_container(x);
    }
    fn use_container(&self, x: &Ctx<C>) -> Option<bool> {
        let other = x.sc_shares[if self.0.identifier() == x.sc_shares[0].0.identifier() { 1 } else { 0 }].clone();
        let a = SignCryptDecryptionKey::<C>::from_shares(&[self.clone(), other.clone()]).is_ok();
        let b = self.verify(&x.pk_shares[0], &x.sc).is_ok();
        // decrypt_with_shares swallows a failed combination by design (returns an option): it must simply not give the message
        let c = Option::<Vec<u8>>::from(x.sc.decrypt_with_shares(&[self.clone(), other])).map(|m| m == x.msg).unwrap_or(false);
        Some(a || b || c)
    }
}
impl<C: Suite> Consume<Ctx<C>> for ElGamalDecryptionShare<C> {
    fn consume(&self, x: &Ctx<C>) {
        dbg_all(self);
        let _ = self.use_container(x);
    }
    fn use_container(&self, x: &Ctx<C>) -> Option<bool> {
        let other = x.eg_shares[if self.0.identifier() == x.eg_shares[0].0.identifier() { 1 } else { 0 }].clone();
        Some(ElGamalDecryptionKey::<C>::from_shares(&[self.clone(), other]).map(|k| k.decrypt(&x.eg)).is_ok())
    }
}
impl<C: Suite> Consume<Ctx<C>> for SignCryptCiphertext<C> {
    fn consume(&self, x: &Ctx<C>) {
        fmt_all(self);
        dbg_all(self);
        let _ = self.is_valid();
        let _ = Option::<Vec<u8>>::from(self.decrypt(&x.sk));
        let _ = Option::<Vec<u8>>::from(x.sk.sign_decryption_key::<&[u8]>(self).decrypt(self));
        let ds: Vec<SignDecryptionShare<C>> = x.shares.iter().filter_map(|s| self.create_decryption_share(s).ok()).collect();
        let _ = Option::<Vec<u8>>::from(self.decrypt_with_shares(&ds));
        let _ = Option::<Vec<u8>>::from(self.decrypt_with_shares(&ds[..ds.len().min(1)]));
        let _ = Option::<Vec<u8>>::from(self.decrypt_with_shares(&[] as &[SignDecryptionShare<C>]));
        for d in &ds {
            let _ = d.verify(&x.pk_shares[0], self);
        }
        let _ = SignCryptDecryptionKey::<C>::from_shares(&ds).map(|k| Option::<Vec<u8>>::from(k.decrypt(self)));
    }
}
impl<C: Suite> Consume<Ctx<C>> for SignCryptDecryptionKey<C> {
    fn consume(&self, x: &Ctx<C>) {
        dbg_all(self);
        let _ = Option::<Vec<u8>>::from(self.decrypt(&x.sc));
    }
}
impl<C: Suite> Consume<Ctx<C>> for TimeCryptCiphertext<C> {
    fn consume(&self, x: &Ctx<C>) {
        dbg_all(self);
        for s in &x.id_sigs {
            let _ = Option::<Vec<u8>>::from(self.decrypt(s));
        }
    }
}
impl<C: Suite> Consume<Ctx<C>> for ElGamalCiphertext<C> {
    fn consume(&self, x: &Ctx<C>) {
        fmt_all(self);
        dbg_all(self);
        let _ = self.decrypt(&x.sk);
        let _ = *self + x.eg;
        let mut a = *self;
        a += &x.eg;
        let ds: Vec<ElGamalDecryptionShare<C>> = x.shares.iter().filter_map(|s| <C as BlsSignatureCore>::public_key_share_with_generator(&s.0, self.c1).ok().map(ElGamalDecryptionShare)).collect();
        let _ = ElGamalDecryptionKey::<C>::from_shares(&ds).map(|k| k.decrypt(self));
    }
}
impl<C: Suite> Consume<Ctx<C>> for ElGamalProof<C> {
    fn consume(&self, x: &Ctx<C>) {
        fmt_all(self);
        dbg_all(self);
        let _ = self.verify(x.pk);
        let _ = self.verify_and_decrypt(&x.sk);
    }
}
impl<C: Suite> Consume<Ctx<C>> for ElGamalDecryptionKey<C> {
    fn consume(&self, x: &Ctx<C>) {
        let _ = self.decrypt(&x.eg);
    }
}
impl Consume<()> for InnerPointShareG1 {
    fn consume(&self, _x: &()) {
        fmt_all(self);
        dbg_all(self);
        let _ = format!("{:x}{:X}", self, self);
        let _ = self.identifier();
        let _ = self.value_vec();
        let _ = Share::is_zero(self);
        let _ = self.as_group_element::<blsful::inner_types::G1Projective>();
    }
    fn use_container(&self, _x: &()) -> Option<bool> {
        Some(self.as_group_element::<blsful::inner_types::G1Projective>().is_ok())
    }
}
impl Consume<()> for InnerPointShareG2 {
    fn consume(&self, _x: &()) {
        fmt_all(self);
        dbg_all(self);
        let _ = format!("{:x}{:X}", self, self);
        let _ = self.identifier();
        let _ = self.value_vec();
        let _ = Share::is_zero(self);
        let _ = self.as_group_element::<blsful::inner_types::G2Projective>();
    }
    fn use_container(&self, _x: &()) -> Option<bool> {
        Some(self.as_group_element::<blsful::inner_types::G2Projective>().is_ok())
    }
}
impl Consume<()> for SecretKeyEnum {
    fn consume(&self, _x: &()) {
        dbg_all(self);
        let _ = self.to_be_bytes();
        let _ = self.to_le_bytes();
        match self {
            SecretKeyEnum::G1(k) => {
                let _ = k.public_key();
            }
            SecretKeyEnum::G2(k) => {
                let _ = k.public_key();
            }
        }
    }
}
impl Consume<()> for SignatureSchemes {
    fn consume(&self, _x: &()) {
        fmt_all(self);
        dbg_all(self);
        let _ = <SignatureSchemes as std::str::FromStr>::from_str(&self.to_string());
    }
}
impl Consume<()> for Bls12381 {
    fn consume(&self, _x: &()) {
        fmt_all(self);
        dbg_all(self);
        let _ = <Bls12381 as std::str::FromStr>::from_str(&self.to_string());
    }
}

// ---------------------------------------------------------------------------------------------------
// object safe view

pub trait ValDyn {
    fn equals(&self, i: usize) -> bool;
    fn encode(&self, c: Codec) -> Result<Vec<u8>, String>;
    fn points(&self) -> Vec<Vec<u8>>;
    fn scalars(&self) -> Vec<Vec<u8>>;
    /// Err(panic message) when a consumer panicked
    fn consume(&self) -> Result<(), String>;
    fn use_container(&self) -> Result<Option<bool>, String>;
}

pub trait TyDyn {
    fn name(&self) -> String;
    fn group(&self) -> &'static str;
    fn fixed(&self) -> bool;
    fn codecs(&self) -> Vec<Codec>;
    fn nvalues(&self) -> usize;
    fn label(&self, i: usize) -> String;
    fn encode(&self, i: usize, c: Codec) -> Result<Vec<u8>, String>;
    /// a clone of value #i equals it and encodes to the same bytes (Err = a panic)
    fn clone_is_equal(&self, i: usize) -> Result<bool, String>;
    fn points_of(&self, i: usize) -> Vec<Vec<u8>>;
    fn scalars_of(&self, i: usize) -> Vec<Vec<u8>>;
    fn is_share_container(&self) -> bool;
    /// Ok(Ok(value)) decoded, Ok(Err(msg)) rejected, Err(panic)
    fn decode<'a>(&'a self, c: Codec, b: &[u8]) -> Result<Result<Box<dyn ValDyn + 'a>, String>, String>;
    /// decode from a scripted document of the probing serde format: Ok((decoded, answers asked for)), Err(panic)
    fn probe(&self, script: &[crate::probe::Ans], hr: bool) -> Result<(bool, usize), String>;
}

pub struct Entry<T, X> {
    pub name: &'static str,
    pub group: &'static str,
    pub values: Vec<(String, T)>,
    pub ctx: std::sync::Arc<X>,
    pub share_container: bool,
}
// same argument as engine::AssertSync: only instantiated with the two concrete curve assignments
unsafe impl<T, X> Send for Entry<T, X> {}
unsafe impl<T, X> Sync for Entry<T, X> {}

struct Val<'a, T, X> {
    e: &'a Entry<T, X>,
    v: T,
}

impl<'a, T: Consume<X>, X> ValDyn for Val<'a, T, X> {
    fn equals(&self, i: usize) -> bool {
        self.e.values[i].1 == self.v
    }
    fn encode(&self, c: Codec) -> Result<Vec<u8>, String> {
        guard(|| self.v.enc(c)).and_then(|r| r)
    }
    fn points(&self) -> Vec<Vec<u8>> {
        self.v.points()
    }
    fn scalars(&self) -> Vec<Vec<u8>> {
        self.v.scalars()
    }
    fn consume(&self) -> Result<(), String> {
        guard(|| self.v.consume(&self.e.ctx))
    }
    fn use_container(&self) -> Result<Option<bool>, String> {
        guard(|| self.v.use_container(&self.e.ctx))
    }
}

impl<T: Consume<X>, X> TyDyn for Entry<T, X> {
    fn name(&self) -> String {
        if self.group == "-" {
            self.name.to_string()
        } else {
            format!("{}<{}>", self.name, self.group)
        }
    }
    fn group(&self) -> &'static str {
        self.group
    }
    fn fixed(&self) -> bool {
        T::FIXED
    }
    fn codecs(&self) -> Vec<Codec> {
        T::codecs()
    }
    fn nvalues(&self) -> usize {
        self.values.len()
    }
    fn label(&self, i: usize) -> String {
        self.values[i].0.clone()
    }
    fn encode(&self, i: usize, c: Codec) -> Result<Vec<u8>, String> {
        guard(|| self.values[i].1.enc(c)).and_then(|r| r)
    }
    fn clone_is_equal(&self, i: usize) -> Result<bool, String> {
        guard(|| {
            let v = &self.values[i].1;
            let c = v.clone();
            c == *v && c.to_b() == v.to_b() && c.clone().to_b_owned() == v.to_b()
        })
    }
    fn points_of(&self, i: usize) -> Vec<Vec<u8>> {
        self.values[i].1.points()
    }
    fn scalars_of(&self, i: usize) -> Vec<Vec<u8>> {
        self.values[i].1.scalars()
    }
    fn is_share_container(&self) -> bool {
        self.share_container
    }
    fn decode<'a>(&'a self, c: Codec, b: &[u8]) -> Result<Result<Box<dyn ValDyn + 'a>, String>, String> {
        guard(|| T::dec(c, b)).map(|r| r.map(|v| Box::new(Val { e: self, v }) as Box<dyn ValDyn + 'a>))
    }
    fn probe(&self, script: &[crate::probe::Ans], hr: bool) -> Result<(bool, usize), String> {
        guard(|| crate::probe::run_counted::<T>(script, hr))
    }
}

fn entry<T: Consume<X> + 'static, X: 'static>(name: &'static str, group: &'static str, ctx: &std::sync::Arc<X>, share: bool, values: Vec<(String, T)>) -> Box<dyn TyDyn + Send + Sync> {
    Box::new(Entry { name, group, values, ctx: ctx.clone(), share_container: share })
}

fn sc3<C: Suite>(p: SgP<C>) -> Vec<(String, Signature<C>)> {
    SCHEMES3.iter().map(|s| (format!("{}", s.name()), mk_sig::<C>(*s, p))).collect()
}

/// all entries of one curve assignment. `full`: every share identifier 1..=255 and the large payloads
pub fn generic_entries<C: Suite>(seed: u64, full: bool) -> Vec<Box<dyn TyDyn + Send + Sync>> {
    let x = std::sync::Arc::new(Ctx::<C>::new(seed));
    let g = C::G;
    let ka = key_alphabet(seed, true);
    let mut out: Vec<Box<dyn TyDyn + Send + Sync>> = vec![];
    let id_s = SgP::<C>::identity();
    let id_p = PkP::<C>::identity();
    // scalars: 1, 128, r-1, derived
    let kidx = [0usize, 3, 7, 8, 10];
    let sks: Vec<(String, SecretKey<C>)> = kidx.iter().map(|i| (ka.names[*i].clone(), sk_from_be::<C>(&ka.be[*i]).unwrap())).collect();
    let mut sks = sks;
    for (n, b) in limb_edge_scalars() {
        sks.push((format!("sk={}", n), SecretKey::<C>(sc_from_be::<C>(&b))));
    }
    out.push(entry("SecretKey", g, &x, false, sks.clone()));
    out.push(entry("ProofCommitmentSecret", g, &x, false, sks.iter().map(|(n, k)| (n.clone(), ProofCommitmentSecret::<C>(k.0))).collect()));
    out.push(entry("ProofCommitmentChallenge", g, &x, false, sks.iter().map(|(n, k)| (n.clone(), ProofCommitmentChallenge::<C>(k.0))).collect()));
    let mut pks: Vec<(String, PublicKey<C>)> = sks.iter().map(|(n, k)| (format!("pk of {}", n), k.public_key())).collect();
    pks.push(("identity".into(), PublicKey(id_p)));
    // keys found by search whose public key / proof of possession has a byte pattern next to what a decoder
    // special-cases (see common::pattern_keys); the names carry the group of the encoded point
    let pat: Vec<(String, SecretKey<C>)> = pattern_keys(seed).into_iter().map(|(n, b)| (n, sk_from_be::<C>(&b).unwrap())).collect();
    let pk_group = if g == "G1" { "G2" } else { "G1" };
    for (n, k) in &pat {
        if n.contains(&format!("{} public key", pk_group)) {
            pks.push((format!("pk of {}", n), k.public_key()));
        }
    }
    out.push(entry("PublicKey", g, &x, false, pks.clone()));
    out.push(entry("MultiPublicKey", g, &x, false, pks.iter().map(|(n, k)| (n.clone(), MultiPublicKey::<C>(k.0))).collect()));
    let mut pops: Vec<(String, ProofOfPossession<C>)> = sks.iter().map(|(n, k)| (format!("pop of {}", n), k.proof_of_possession().unwrap())).collect();
    for (n, k) in &pat {
        if n.contains(&format!("{} proof of possession", g)) {
            pops.push((format!("pop of {}", n), k.proof_of_possession().unwrap()));
        }
    }
    pops.push(("identity".into(), ProofOfPossession(id_s)));
    out.push(entry("ProofOfPossession", g, &x, false, pops));
    let honest_pt = *x.sigs[0].as_raw_value();
    let mut sigs: Vec<(String, Signature<C>)> = x.sigs.iter().enumerate().map(|(i, s)| (format!("honest {}", SCHEMES3[i].name()), *s)).collect();
    sigs.extend(sc3::<C>(id_s).into_iter().map(|(n, s)| (format!("identity {}", n), s)));
    // signatures (under the first derived key) found by search for a byte pattern of their encoding
    {
        let signer = sk_from_be::<C>(&ka.be[3]).unwrap();
        let ma = msg_alphabet(seed, false);
        for (n, m) in ma.names.iter().zip(ma.msgs.iter()) {
            if !n.contains("content=pattern:") || !n.contains(&format!("{} ", g)) || !n.contains("signature") {
                continue;
            }
            for sch in SCHEMES3 {
                // (names without a scheme are Basic signatures)
                if n.contains(&format!("{} {} signature", g, sch.name())) || (sch == Scheme::Basic && n.contains(&format!("{} signature", g))) {
                    sigs.push((format!("searched: {}", n), signer.sign(lib_scheme(sch), m).unwrap()));
                }
            }
        }
    }
    out.push(entry("Signature", g, &x, false, sigs.clone()));
    out.push(entry(
        "AggregateSignature",
        g,
        &x,
        false,
        sigs.iter().map(|(n, s)| (n.clone(), mk_agg_sig::<C>(sig_scheme(s), *s.as_raw_value()))).collect(),
    ));
    out.push(entry(
        "MultiSignature",
        g,
        &x,
        false,
        sigs.iter().map(|(n, s)| (n.clone(), mk_multi_sig::<C>(sig_scheme(s), *s.as_raw_value()))).collect(),
    ));
    let mk_commit = |s: Scheme, p: SgP<C>| match s {
        Scheme::Basic => ProofCommitment::<C>::Basic(p),
        Scheme::Aug => ProofCommitment::<C>::MessageAugmentation(p),
        Scheme::Pop => ProofCommitment::<C>::ProofOfPossession(p),
    };
    out.push(entry(
        "ProofCommitment",
        g,
        &x,
        false,
        sigs.iter().map(|(n, s)| (n.clone(), mk_commit(sig_scheme(s), *s.as_raw_value()))).collect(),
    ));
    let mk_pok = |s: Scheme, u: SgP<C>, v: SgP<C>| match s {
        Scheme::Basic => ProofOfKnowledge::<C>::Basic { u, v },
        Scheme::Aug => ProofOfKnowledge::<C>::MessageAugmentation { u, v },
        Scheme::Pop => ProofOfKnowledge::<C>::ProofOfPossession { u, v },
    };
    let mut poks = vec![];
    for s in SCHEMES3 {
        poks.push((format!("{} (u,v) honest points", s.name()), mk_pok(s, honest_pt, honest_pt + honest_pt)));
        poks.push((format!("{} identity", s.name()), mk_pok(s, id_s, id_s)));
    }
    out.push(entry("ProofOfKnowledge", g, &x, false, poks.clone()));
    let mut pokts = vec![];
    for (n, p) in &poks {
        // incl. values that are not exactly representable as a double and the 32 / 53 / 63 bit boundaries
        for t in [0u64, 1_700_000_000_000, u64::MAX, u64::MAX - 1, (1 << 53) + 1, (1 << 62) + 12345, (1 << 63) + 1, (1 << 32) + 1, i64::MAX as u64] {
            pokts.push((format!("{} t={}", n, t), ProofOfKnowledgeTimestamp::<C> { proof: *p, timestamp: t }));
        }
    }
    out.push(entry("ProofOfKnowledgeTimestamp", g, &x, false, pokts));
    // share containers: every identifier of a (2,255) split (or a few when not `full`)
    // full: every identifier of a real (2,255) split; otherwise the shares of a (2,3) split relabelled with edge
    // identifiers (any (identifier, value) pair is a valid value of the container types), so that only the check
    // whose property quantifies over all identifiers depends on 255-share splits working
    let shs: Vec<(String, SecretKeyShare<C>)> = if full {
        let all = x.sk.split_with_rng(2, 255, rand_chacha::ChaCha20Rng::from_seed(data32(seed, "registry-255"))).unwrap();
        all.iter().map(|s| (format!("share id {}", s.0.identifier()), s.clone())).collect()
    } else {
        [1u8, 2, 127, 128, 129, 254, 255]
            .iter()
            .enumerate()
            .map(|(i, id)| {
                let mut s = x.shares[i % x.shares.len()].clone();
                *s.0.identifier_mut() = *id;
                (format!("share id {}", id), s)
            })
            .collect()
    };
    // share values at the edges of their 64 bit limbs (built from the field element, any pair is a valid container value)
    let mut shs = shs;
    for (i, (n, b)) in limb_edge_scalars().into_iter().enumerate() {
        let raw = <C as Pairing>::SecretKeyShare::from_field_element([1u8, 2, 128, 255][i % 4], sc_from_be::<C>(&b)).expect("share from field element");
        shs.push((format!("share value {}", n), SecretKeyShare::<C>(raw)));
    }
    out.push(entry("SecretKeyShare", g, &x, false, shs.clone()));
    out.push(entry("PublicKeyShare", g, &x, true, shs.iter().map(|(n, s)| (n.clone(), s.public_key().unwrap())).collect()));
    let mut sshs: Vec<(String, SignatureShare<C>)> = vec![];
    for (n, s) in &shs {
        sshs.push((format!("{} Basic", n), s.sign(SignatureSchemes::Basic, &x.msg).unwrap()));
        let raw = *s.sign(SignatureSchemes::ProofOfPossession, &x.msg).unwrap().as_raw_value();
        sshs.push((format!("{} Pop", n), SignatureShare::ProofOfPossession(raw)));
        if !full || s.0.identifier() <= 3 {
            sshs.push((format!("{} Aug", n), SignatureShare::MessageAugmentation(raw)));
        }
    }
    out.push(entry("SignatureShare", g, &x, true, sshs));
    out.push(entry("SignDecryptionShare", g, &x, true, shs.iter().map(|(n, s)| (n.clone(), x.sc.create_decryption_share(s).unwrap())).collect()));
    out.push(entry(
        "ElGamalDecryptionShare",
        g,
        &x,
        true,
        shs.iter().map(|(n, s)| (n.clone(), ElGamalDecryptionShare::<C>(<C as BlsSignatureCore>::public_key_share_with_generator(&s.0, x.eg.c1).unwrap()))).collect(),
    ));
    // ciphertexts: empty, short, and (full) 64 KiB payloads, all schemes
    let lens: Vec<usize> = if full { vec![0, 5, 33, 126, 127, 128, 200, 16383, 16384, 65536] } else { vec![0, 5, 33, 127, 200] };
    let mut scs = vec![];
    let mut tls = vec![];
    let ent = entropy_stream(seed, "registry-cts", 64);
    let _ = with_env(ent, None, || {
        for s in SCHEMES3 {
            for l in &lens {
                let m = msg_of(seed, *l, 3);
                scs.push((format!("{} len {}", s.name(), l), x.pk.sign_crypt(lib_scheme(s), &m)));
                tls.push((format!("{} len {}", s.name(), l), x.pk.encrypt_time_lock(lib_scheme(s), &m, &x.id).unwrap()));
            }
        }
    });
    scs.push(("default (identity points, empty v)".into(), SignCryptCiphertext::<C>::default()));
    tls.push(("default".into(), TimeCryptCiphertext::<C>::default()));
    out.push(entry("SignCryptCiphertext", g, &x, false, scs));
    out.push(entry("TimeCryptCiphertext", g, &x, false, tls));
    out.push(entry(
        "SignCryptDecryptionKey",
        g,
        &x,
        false,
        vec![("u*sk".to_string(), x.sk.sign_decryption_key::<&[u8]>(&x.sc)), ("identity".to_string(), SignCryptDecryptionKey::<C>(id_p))],
    ));
    out.push(entry("ElGamalCiphertext", g, &x, false, vec![("honest".to_string(), x.eg), ("identity".to_string(), ElGamalCiphertext::<C> { c1: id_p, c2: id_p })]));
    let mut egp2 = x.egp;
    egp2.message_proof = -Sc::<C>::ONE;
    egp2.blinder_proof = Sc::<C>::ONE;
    out.push(entry("ElGamalProof", g, &x, false, vec![("honest".to_string(), x.egp), ("edge scalars r-1 / 1".to_string(), egp2)]));
    out.push(entry(
        "ElGamalDecryptionKey",
        g,
        &x,
        false,
        vec![("c1*sk".to_string(), ElGamalDecryptionKey::<C>(x.eg.c1 * x.sk.0)), ("identity".to_string(), ElGamalDecryptionKey::<C>(id_p))],
    ));
    out
}

pub fn plain_entries(seed: u64, full: bool) -> Vec<Box<dyn TyDyn + Send + Sync>> {
    let x = std::sync::Arc::new(());
    let mut out: Vec<Box<dyn TyDyn + Send + Sync>> = vec![];
    let c1 = Ctx::<Bls12381G1Impl>::new(seed);
    let c2 = Ctx::<Bls12381G2Impl>::new(seed);
    // G1Impl: signature shares are G1 point shares, public key shares are G2 point shares
    let mut g1: Vec<(String, InnerPointShareG1)> = c1.sig_shares.iter().enumerate().map(|(i, s)| (format!("signature share #{}", i), *s.as_raw_value())).collect();
    g1.extend(c2.pk_shares.iter().enumerate().map(|(i, s)| (format!("public key share #{}", i), s.0)));
    g1.push(("all zero".into(), InnerPointShareG1::default()));
    g1.push(("all 0xff".into(), InnerPointShareG1([0xFF; 49])));
    let mut g2: Vec<(String, InnerPointShareG2)> = c2.sig_shares.iter().enumerate().map(|(i, s)| (format!("signature share #{}", i), *s.as_raw_value())).collect();
    g2.extend(c1.pk_shares.iter().enumerate().map(|(i, s)| (format!("public key share #{}", i), s.0)));
    g2.push(("all zero".into(), InnerPointShareG2::default()));
    g2.push(("all 0xff".into(), InnerPointShareG2([0xFF; 97])));
    if full {
        for id in 1..=255u8 {
            let mut a = g1[0].1;
            *a.identifier_mut() = id;
            g1.push((format!("identifier {}", id), a));
            let mut b = g2[0].1;
            *b.identifier_mut() = id;
            g2.push((format!("identifier {}", id), b));
        }
    }
    out.push(entry("InnerPointShareG1", "-", &x, true, g1));
    out.push(entry("InnerPointShareG2", "-", &x, true, g2));
    let ka = key_alphabet(seed, true);
    let mut en = vec![];
    for i in [0usize, 3, 7, 8] {
        en.push((format!("G1 {}", ka.names[i]), SecretKeyEnum::G1(sk_from_be::<Bls12381G1Impl>(&ka.be[i]).unwrap())));
        en.push((format!("G2 {}", ka.names[i]), SecretKeyEnum::G2(sk_from_be::<Bls12381G2Impl>(&ka.be[i]).unwrap())));
    }
    out.push(entry("SecretKeyEnum", "-", &x, false, en));
    out.push(entry(
        "SignatureSchemes",
        "-",
        &x,
        false,
        vec![("Basic".to_string(), SignatureSchemes::Basic), ("MessageAugmentation".to_string(), SignatureSchemes::MessageAugmentation), ("ProofOfPossession".to_string(), SignatureSchemes::ProofOfPossession)],
    ));
    out.push(entry("Bls12381", "-", &x, false, vec![("G1".to_string(), Bls12381::G1), ("G2".to_string(), Bls12381::G2)]));
    out
}

pub fn all_entries(seed: u64, full: bool) -> Vec<Box<dyn TyDyn + Send + Sync>> {
    let mut v = generic_entries::<Bls12381G1Impl>(seed, full);
    v.extend(generic_entries::<Bls12381G2Impl>(seed, full));
    v.extend(plain_entries(seed, full));
    v
}

/// types found in /repo/src that are deliberately not data types
pub const NON_DATA_TYPES: [&str; 6] = ["BlsError", "BlsSignature", "Bls12381G1Impl", "Bls12381G2Impl", "Bls12381G1Hasher", "Bls12381G2Hasher"];

/// registry completeness self-check: every `pub struct|enum` in /repo/src is registered or excluded
pub fn completeness_gaps(entries: &[Box<dyn TyDyn + Send + Sync>]) -> Vec<String> {
    let mut names: Vec<String> = entries.iter().map(|e| e.name().split('<').next().unwrap().to_string()).collect();
    names.sort();
    names.dedup();
    let mut gaps = vec![];
    fn walk(dir: &std::path::Path, out: &mut Vec<String>) {
        if let Ok(rd) = std::fs::read_dir(dir) {
            for e in rd.flatten() {
                let p = e.path();
                if p.is_dir() {
                    walk(&p, out);
                } else if p.extension().map(|x| x == "rs").unwrap_or(false) && !p.ends_with("verif_hooks.rs") {
                    if let Ok(txt) = std::fs::read_to_string(&p) {
                        for line in txt.lines() {
                            let l = line.trim_start();
                            for kw in ["pub struct ", "pub enum "] {
                                if let Some(rest) = l.strip_prefix(kw) {
                                    let name: String = rest.chars().take_while(|c| c.is_alphanumeric() || *c == '_').collect();
                                    out.push(name);
                                }
                            }
                        }
                    }
                }
            }
        }
    }
    let mut found = vec![];
    walk(&std::path::Path::new(&crate::engine::repo_dir()).join("src"), &mut found);
    for f in found {
        if !names.contains(&f) && !NON_DATA_TYPES.contains(&f.as_str()) {
            gaps.push(f);
        }
    }
    gaps
}
