//! Independent reference model. Arithmetic comes from `bls12_381_plus` (pure Rust) while the
//! subject under test runs on `blstrs_plus` (blst). Scheme logic is re-written from
//! draft-irtf-cfrg-bls-signature and from the constructions documented in blsful's comments.
//! Values cross the boundary only as bytes.
use bls12_381_plus::elliptic_curve::hash2curve::ExpandMsgXmd;
use bls12_381_plus::ff::Field;
use bls12_381_plus::group::{Curve, Group, GroupEncoding};
use bls12_381_plus::{
    multi_miller_loop, G1Affine, G1Projective, G2Affine, G2Prepared, G2Projective, Gt, Scalar,
};
use hmac::{Hmac, Mac};
use sha2::{Digest, Sha256};
use sha3::digest::{ExtendableOutput, Update, XofReader};
use sha3::Shake128;

pub type RScalar = Scalar;

// ---- tags typed from the IETF draft (section 4.2) -------------------------------------------
pub const KEYGEN_SALT: &[u8] = b"BLS-SIG-KEYGEN-SALT-";
// own-protocol salts, typed from the library's documentation/comments
pub const SALT_SIGNCRYPT: &[u8] = b"SIGNCRYPT_BLS12381_XOF:HKDF-SHA2-256_";
pub const SALT_TIMELOCK: &[u8] = b"TIMELOCK_BLS12381_XOF:HKDF-SHA2-256_";
pub const SALT_POK: &[u8] = b"BLS_POK__BLS12381_XOF:HKDF-SHA2-256_";
pub const SALT_ELGAMAL: &[u8] = b"ELGAMAL_BLS12381_XOF:HKDF-SHA2-256_";

#[derive(Copy, Clone, Debug, PartialEq, Eq, Hash, serde::Serialize, serde::Deserialize, PartialOrd, Ord)]
pub enum Scheme {
    Basic,
    Aug,
    Pop,
}
pub const SCHEMES: [Scheme; 3] = [Scheme::Basic, Scheme::Aug, Scheme::Pop];

impl Scheme {
    pub fn name(self) -> &'static str {
        match self {
            Scheme::Basic => "Basic",
            Scheme::Aug => "MessageAugmentation",
            Scheme::Pop => "ProofOfPossession",
        }
    }
    pub fn idx(self) -> usize {
        self as usize
    }
}

/// One of the two group assignments of the ciphersuites.
pub trait RefSuite: 'static {
    type Sig: Group<Scalar = Scalar> + GroupEncoding + Copy + PartialEq + Send + Sync;
    type Pk: Group<Scalar = Scalar> + GroupEncoding + Copy + PartialEq + Send + Sync;
    const NAME: &'static str;
    const SIG_LEN: usize;
    const PK_LEN: usize;
    const DST_NUL: &'static [u8];
    const DST_AUG: &'static [u8];
    const DST_POP_SIG: &'static [u8];
    const DST_POP: &'static [u8];
    const DST_ELGAMAL: &'static [u8];
    fn hash_to_sig(msg: &[u8], dst: &[u8]) -> Self::Sig;
    fn hash_to_pk(msg: &[u8], dst: &[u8]) -> Self::Pk;
    /// full validation: length, canonical encoding, on curve, in the prime order subgroup
    fn sig_from(b: &[u8]) -> Option<Self::Sig>;
    fn pk_from(b: &[u8]) -> Option<Self::Pk>;
    /// e(s_1, p_1) * ... * e(s_n, p_n)
    fn pairing_product(pairs: &[(Self::Sig, Self::Pk)]) -> Gt;
}

pub fn sig_dst<R: RefSuite>(s: Scheme) -> &'static [u8] {
    match s {
        Scheme::Basic => R::DST_NUL,
        Scheme::Aug => R::DST_AUG,
        Scheme::Pop => R::DST_POP_SIG,
    }
}

fn g1_from(b: &[u8]) -> Option<G1Projective> {
    let arr: [u8; 48] = b.try_into().ok()?;
    let a: Option<G1Affine> = G1Affine::from_compressed(&arr).into();
    let a = a?;
    if !bool::from(a.is_on_curve()) || !bool::from(a.is_torsion_free()) {
        return None;
    }
    Some(G1Projective::from(a))
}
fn g2_from(b: &[u8]) -> Option<G2Projective> {
    let arr: [u8; 96] = b.try_into().ok()?;
    let a: Option<G2Affine> = G2Affine::from_compressed(&arr).into();
    let a = a?;
    if !bool::from(a.is_on_curve()) || !bool::from(a.is_torsion_free()) {
        return None;
    }
    Some(G2Projective::from(a))
}

/// signatures in G1, public keys in G2 (minimal-signature-size)
pub struct RG1;
/// signatures in G2, public keys in G1 (minimal-pubkey-size)
pub struct RG2;

impl RefSuite for RG1 {
    type Sig = G1Projective;
    type Pk = G2Projective;
    const NAME: &'static str = "G1";
    const SIG_LEN: usize = 48;
    const PK_LEN: usize = 96;
    const DST_NUL: &'static [u8] = b"BLS_SIG_BLS12381G1_XMD:SHA-256_SSWU_RO_NUL_";
    const DST_AUG: &'static [u8] = b"BLS_SIG_BLS12381G1_XMD:SHA-256_SSWU_RO_AUG_";
    const DST_POP_SIG: &'static [u8] = b"BLS_SIG_BLS12381G1_XMD:SHA-256_SSWU_RO_POP_";
    const DST_POP: &'static [u8] = b"BLS_POP_BLS12381G1_XMD:SHA-256_SSWU_RO_POP_";
    const DST_ELGAMAL: &'static [u8] = b"BLS_ELGAMAL_BLS12381G2_XMD:SHA-256_SSWU_RO_NUL_";
    fn hash_to_sig(msg: &[u8], dst: &[u8]) -> G1Projective {
        G1Projective::hash::<ExpandMsgXmd<Sha256>>(msg, dst)
    }
    fn hash_to_pk(msg: &[u8], dst: &[u8]) -> G2Projective {
        G2Projective::hash::<ExpandMsgXmd<Sha256>>(msg, dst)
    }
    fn sig_from(b: &[u8]) -> Option<G1Projective> {
        g1_from(b)
    }
    fn pk_from(b: &[u8]) -> Option<G2Projective> {
        g2_from(b)
    }
    fn pairing_product(pairs: &[(G1Projective, G2Projective)]) -> Gt {
        let t: Vec<(G1Affine, G2Prepared)> = pairs
            .iter()
            .map(|(a, b)| (a.to_affine(), G2Prepared::from(b.to_affine())))
            .collect();
        let r: Vec<(&G1Affine, &G2Prepared)> = t.iter().map(|(a, b)| (a, b)).collect();
        multi_miller_loop(&r).final_exponentiation()
    }
}

impl RefSuite for RG2 {
    type Sig = G2Projective;
    type Pk = G1Projective;
    const NAME: &'static str = "G2";
    const SIG_LEN: usize = 96;
    const PK_LEN: usize = 48;
    const DST_NUL: &'static [u8] = b"BLS_SIG_BLS12381G2_XMD:SHA-256_SSWU_RO_NUL_";
    const DST_AUG: &'static [u8] = b"BLS_SIG_BLS12381G2_XMD:SHA-256_SSWU_RO_AUG_";
    const DST_POP_SIG: &'static [u8] = b"BLS_SIG_BLS12381G2_XMD:SHA-256_SSWU_RO_POP_";
    const DST_POP: &'static [u8] = b"BLS_POP_BLS12381G2_XMD:SHA-256_SSWU_RO_POP_";
    const DST_ELGAMAL: &'static [u8] = b"BLS_ELGAMAL_BLS12381G1_XMD:SHA-256_SSWU_RO_NUL_";
    fn hash_to_sig(msg: &[u8], dst: &[u8]) -> G2Projective {
        G2Projective::hash::<ExpandMsgXmd<Sha256>>(msg, dst)
    }
    fn hash_to_pk(msg: &[u8], dst: &[u8]) -> G1Projective {
        G1Projective::hash::<ExpandMsgXmd<Sha256>>(msg, dst)
    }
    fn sig_from(b: &[u8]) -> Option<G2Projective> {
        g2_from(b)
    }
    fn pk_from(b: &[u8]) -> Option<G1Projective> {
        g1_from(b)
    }
    fn pairing_product(pairs: &[(G2Projective, G1Projective)]) -> Gt {
        let t: Vec<(G1Affine, G2Prepared)> = pairs
            .iter()
            .map(|(a, b)| (b.to_affine(), G2Prepared::from(a.to_affine())))
            .collect();
        let r: Vec<(&G1Affine, &G2Prepared)> = t.iter().map(|(a, b)| (a, b)).collect();
        multi_miller_loop(&r).final_exponentiation()
    }
}

pub fn enc<G: GroupEncoding>(p: &G) -> Vec<u8> {
    p.to_bytes().as_ref().to_vec()
}

/// compressed encoding of P + T where T is a non-trivial point of the curve outside the prime order subgroup
/// (T = [r]Q for an on-curve, non-subgroup Q found from a small x). The result is on the curve, not in the
/// subgroup, and pairs exactly like P does.
pub fn torsion_perturbed(point: &[u8]) -> Option<Vec<u8>> {
    let r_minus_1 = -Scalar::ONE;
    match point.len() {
        48 => {
            let p = g1_from(point)?;
            for x in 1u32..200 {
                let mut b = [0u8; 48];
                b[44..].copy_from_slice(&x.to_be_bytes());
                b[0] |= 0x80;
                if let Some(q) = Option::<G1Affine>::from(G1Affine::from_compressed_unchecked(&b)) {
                    if !bool::from(q.is_torsion_free()) {
                        let q = G1Projective::from(q);
                        let t = q * r_minus_1 + q;
                        if !bool::from(t.is_identity()) {
                            return Some((p + t).to_affine().to_compressed().to_vec());
                        }
                    }
                }
            }
            None
        }
        96 => {
            let p = g2_from(point)?;
            for x in 1u32..200 {
                let mut b = [0u8; 96];
                b[92..].copy_from_slice(&x.to_be_bytes());
                b[0] |= 0x80;
                if let Some(q) = Option::<G2Affine>::from(G2Affine::from_compressed_unchecked(&b)) {
                    if !bool::from(q.is_torsion_free()) {
                        let q = G2Projective::from(q);
                        let t = q * r_minus_1 + q;
                        if !bool::from(t.is_identity()) {
                            return Some((p + t).to_affine().to_compressed().to_vec());
                        }
                    }
                }
            }
            None
        }
        _ => None,
    }
}


/// integer multiple of any curve point (also outside the prime order subgroup): plain double and add over the bits of
/// the big endian byte string, with the complete projective formulas of bls12_381_plus
fn mul_be<G: Group>(p: &G, k_be: &[u8]) -> G {
    let mut acc = G::identity();
    for byte in k_be {
        for bit in (0..8).rev() {
            acc = acc.double();
            if (byte >> bit) & 1 == 1 {
                acc += *p;
            }
        }
    }
    acc
}

fn hexb(s: &str) -> Vec<u8> {
    let s = if s.len() % 2 == 1 { format!("0{}", s) } else { s.to_string() };
    hex::decode(s).unwrap()
}

/// the group order r, big endian
const R_BE: &str = "73eda753299d7d483339d80809a1d80553bda402fffe5bfeffffffff00000001";

/// A point of exact small prime order q on the curve of the encoding's length (48 bytes: E(Fp), q in {3, 11};
/// 96 bytes: E'(Fp2), q in {13, 23}) - these primes divide the cofactor. Returns the compressed encoding of
/// `point + T_q` (on the curve, outside the subgroup; [q] of it equals [q] of the honest point).
pub fn small_order_perturbed(point: &[u8], q: u32) -> Option<Vec<u8>> {
    // cofactor / q^e for the prime powers q^e that divide it exactly
    let (cof_rest, e): (&str, u32) = match (point.len(), q) {
        (48, 3) => ("13242eaac71ca0722eaae38e55558e39", 1),
        (48, 11) => ("797dfbc5773068627ab75c63702343", 2),
        (96, 13) => ("8d5fc7522f6c4d5a3c5663541d68b60a5f9bdc250555d81be2a9b0c6483045a5b213dcb71085945e0aef29c5e8629edf4046db800a8373336b3150941cfdd", 2),
        (96, 23) => ("2d2a367b86ae74a8af1a258a2d34cf3528b4f0309b1c647efceb33a28d243b0771fe9a3b739d5ddb42e36473f96c739a13152f610a9e2359fc03a804bb595", 2),
        _ => return None,
    };
    let qb = q.to_be_bytes();
    fn find<G: Group>(candidates: impl Iterator<Item = G>, cof_rest: &[u8], e: u32, qb: &[u8]) -> Option<G> {
        for c in candidates {
            // kill the prime order part and every other cofactor part: what remains has order dividing q^e
            let mut t = mul_be(&mul_be(&c, &hexb(R_BE)), cof_rest);
            if bool::from(t.is_identity()) {
                continue;
            }
            for _ in 1..e {
                let n = mul_be(&t, qb);
                if bool::from(n.is_identity()) {
                    break;
                }
                t = n;
            }
            if bool::from(mul_be(&t, qb).is_identity()) && !bool::from(t.is_identity()) {
                return Some(t);
            }
        }
        None
    }
    match point.len() {
        48 => {
            let p = g1_from(point)?;
            let cands = (1u32..400).filter_map(|x| {
                let mut b = [0u8; 48];
                b[44..].copy_from_slice(&x.to_be_bytes());
                b[0] |= 0x80;
                Option::<G1Affine>::from(G1Affine::from_compressed_unchecked(&b)).map(G1Projective::from)
            });
            let t = find(cands, &hexb(cof_rest), e, &qb)?;
            Some((p + t).to_affine().to_compressed().to_vec())
        }
        96 => {
            let p = g2_from(point)?;
            let cands = (1u32..400).filter_map(|x| {
                let mut b = [0u8; 96];
                b[92..].copy_from_slice(&x.to_be_bytes());
                b[0] |= 0x80;
                Option::<G2Affine>::from(G2Affine::from_compressed_unchecked(&b)).map(G2Projective::from)
            });
            let t = find(cands, &hexb(cof_rest), e, &qb)?;
            Some((p + t).to_affine().to_compressed().to_vec())
        }
        _ => None,
    }
}

// ---- scalars ---------------------------------------------------------------------------------

pub fn scalar_from_be(b: &[u8]) -> Option<Scalar> {
    let arr: [u8; 32] = b.try_into().ok()?;
    Scalar::from_be_bytes(&arr).into()
}
pub fn scalar_to_be(s: &Scalar) -> [u8; 32] {
    s.to_be_bytes()
}
pub fn scalar_to_le(s: &Scalar) -> [u8; 32] {
    s.to_le_bytes()
}

/// r - 1 etc. as big endian bytes
pub fn scalar_edge(which: &str) -> Scalar {
    match which {
        "1" => Scalar::ONE,
        "2" => Scalar::from(2u64),
        "3" => Scalar::from(3u64),
        "128" => Scalar::from(128u64),
        "2^32" => Scalar::from(1u64 << 32),
        "(r-1)/2" => (-Scalar::ONE) * Scalar::from(2u64).invert().unwrap(),
        "r-2" => -Scalar::from(2u64),
        "r-1" => -Scalar::ONE,
        _ => panic!("unknown edge scalar {}", which),
    }
}

/// HKDF-SHA-256 written out from HMAC (RFC 5869)
pub fn hkdf_extract(salt: &[u8], ikm: &[u8]) -> [u8; 32] {
    let mut m = <Hmac<Sha256> as Mac>::new_from_slice(salt).unwrap();
    Mac::update(&mut m, ikm);
    m.finalize().into_bytes().into()
}
pub fn hkdf_expand(prk: &[u8; 32], info: &[u8], len: usize) -> Vec<u8> {
    let mut out = vec![];
    let mut t: Vec<u8> = vec![];
    let mut i = 1u8;
    while out.len() < len {
        let mut m = <Hmac<Sha256> as Mac>::new_from_slice(prk).unwrap();
        Mac::update(&mut m, &t);
        Mac::update(&mut m, info);
        Mac::update(&mut m, &[i]);
        t = m.finalize().into_bytes().to_vec();
        out.extend_from_slice(&t);
        i += 1;
    }
    out.truncate(len);
    out
}

/// The KeyGen construction of the draft with the salt used as given (the library's
/// hash_to_scalar(ikm, salt)): SK = OS2IP(HKDF-Expand(HKDF-Extract(salt, IKM || 0), I2OSP(48,2), 48)) mod r
pub fn hash_to_scalar(ikm: &[u8], salt: &[u8]) -> Scalar {
    let mut ikm0 = ikm.to_vec();
    ikm0.push(0);
    let prk = hkdf_extract(salt, &ikm0);
    let okm = hkdf_expand(&prk, &[0u8, 48u8], 48);
    // OS2IP mod r through the 512-bit little-endian reduction (a different path from from_okm)
    let mut wide = [0u8; 64];
    for (i, b) in okm.iter().rev().enumerate() {
        wide[i] = *b;
    }
    Scalar::from_bytes_wide(&wide)
}

pub fn keygen(ikm: &[u8]) -> Scalar {
    hash_to_scalar(ikm, KEYGEN_SALT)
}

// ---- core BLS --------------------------------------------------------------------------------

pub fn sk_to_pk<R: RefSuite>(sk: &Scalar) -> R::Pk {
    R::Pk::generator() * sk
}

pub fn core_sign<R: RefSuite>(sk: &Scalar, msg: &[u8], dst: &[u8]) -> R::Sig {
    R::hash_to_sig(msg, dst) * sk
}

/// CoreVerify on decoded points: KeyValidate(pk), signature subgroup check, pairing equation.
pub fn core_verify_points<R: RefSuite>(pk: &R::Pk, sig: &R::Sig, msg: &[u8], dst: &[u8]) -> bool {
    if bool::from(pk.is_identity()) {
        return false;
    }
    let q = R::hash_to_sig(msg, dst);
    // e(Q, PK) == e(sig, P)   <=>   e(Q, PK) * e(sig, -P) == 1
    R::pairing_product(&[(q, *pk), (*sig, -R::Pk::generator())]) == Gt::IDENTITY
}

pub fn core_verify<R: RefSuite>(pk: &[u8], sig: &[u8], msg: &[u8], dst: &[u8]) -> bool {
    let (Some(pk), Some(sig)) = (R::pk_from(pk), R::sig_from(sig)) else {
        return false;
    };
    core_verify_points::<R>(&pk, &sig, msg, dst)
}

/// does the bare pairing equation hold (no identity / validity guards)? used by C04 to show the
/// guard and not the algebra rejected.
pub fn bare_equation<R: RefSuite>(pk: &R::Pk, sig: &R::Sig, msg: &[u8], dst: &[u8]) -> bool {
    let q = R::hash_to_sig(msg, dst);
    R::pairing_product(&[(q, *pk), (*sig, -R::Pk::generator())]) == Gt::IDENTITY
}

pub fn aug_msg<R: RefSuite>(pk: &R::Pk, msg: &[u8]) -> Vec<u8> {
    let mut v = enc(pk);
    v.extend_from_slice(msg);
    v
}

pub fn sign<R: RefSuite>(sk: &Scalar, scheme: Scheme, msg: &[u8]) -> R::Sig {
    match scheme {
        Scheme::Basic => core_sign::<R>(sk, msg, R::DST_NUL),
        Scheme::Aug => {
            let pk = sk_to_pk::<R>(sk);
            core_sign::<R>(sk, &aug_msg::<R>(&pk, msg), R::DST_AUG)
        }
        Scheme::Pop => core_sign::<R>(sk, msg, R::DST_POP_SIG),
    }
}

pub fn verify<R: RefSuite>(pk: &[u8], scheme: Scheme, msg: &[u8], sig: &[u8]) -> bool {
    match scheme {
        Scheme::Basic => core_verify::<R>(pk, sig, msg, R::DST_NUL),
        Scheme::Aug => {
            let mut m = pk.to_vec();
            m.extend_from_slice(msg);
            core_verify::<R>(pk, sig, &m, R::DST_AUG)
        }
        Scheme::Pop => core_verify::<R>(pk, sig, msg, R::DST_POP_SIG),
    }
}

pub fn pop_prove<R: RefSuite>(sk: &Scalar) -> R::Sig {
    let pk = sk_to_pk::<R>(sk);
    core_sign::<R>(sk, &enc(&pk), R::DST_POP)
}

pub fn pop_verify<R: RefSuite>(pk: &[u8], proof: &[u8]) -> bool {
    core_verify::<R>(pk, proof, pk, R::DST_POP)
}

pub fn aggregate<R: RefSuite>(sigs: &[R::Sig]) -> R::Sig {
    let mut a = R::Sig::identity();
    for s in sigs {
        a += s;
    }
    a
}

/// CoreAggregateVerify plus the scheme wrappers (Basic: all messages distinct; Aug: PK || msg)
pub fn aggregate_verify<R: RefSuite>(scheme: Scheme, pairs: &[(Vec<u8>, Vec<u8>)], sig: &[u8]) -> bool {
    if pairs.is_empty() {
        return false;
    }
    let Some(sig) = R::sig_from(sig) else {
        return false;
    };
    if scheme == Scheme::Basic {
        for i in 0..pairs.len() {
            for j in 0..i {
                if pairs[i].1 == pairs[j].1 {
                    return false;
                }
            }
        }
    }
    let dst = sig_dst::<R>(scheme);
    let mut terms = vec![];
    for (pkb, msg) in pairs {
        let Some(pk) = R::pk_from(pkb) else {
            return false;
        };
        if bool::from(pk.is_identity()) {
            return false;
        }
        let m = if scheme == Scheme::Aug {
            let mut m = pkb.clone();
            m.extend_from_slice(msg);
            m
        } else {
            msg.clone()
        };
        terms.push((R::hash_to_sig(&m, dst), pk));
    }
    terms.push((sig, -R::Pk::generator()));
    R::pairing_product(&terms) == Gt::IDENTITY
}

// ---- Shamir / Lagrange -----------------------------------------------------------------------

/// Lagrange coefficient at 0 for identifier `i` among `ids`
pub fn lagrange_at_zero(ids: &[u8], i: u8) -> Scalar {
    let xi = Scalar::from(i as u64);
    let mut num = Scalar::ONE;
    let mut den = Scalar::ONE;
    for &j in ids {
        if j == i {
            continue;
        }
        let xj = Scalar::from(j as u64);
        num *= xj;
        den *= xj - xi;
    }
    num * den.invert().unwrap()
}

pub fn interpolate_scalars(shares: &[(u8, Scalar)]) -> Scalar {
    let ids: Vec<u8> = shares.iter().map(|s| s.0).collect();
    let mut acc = Scalar::ZERO;
    for (i, v) in shares {
        acc += lagrange_at_zero(&ids, *i) * v;
    }
    acc
}

pub fn interpolate_points<G: Group<Scalar = Scalar>>(shares: &[(u8, G)]) -> G {
    let ids: Vec<u8> = shares.iter().map(|s| s.0).collect();
    let mut acc = G::identity();
    for (i, v) in shares {
        acc += *v * lagrange_at_zero(&ids, *i);
    }
    acc
}

// ---- framing ---------------------------------------------------------------------------------

/// LEB128 length prefix
pub fn leb128(mut n: u128) -> Vec<u8> {
    let mut out = vec![];
    while n >= 0x80 {
        out.push((n as u8) | 0x80);
        n >>= 7;
    }
    out.push(n as u8);
    out
}

/// parse a LEB128 prefix: (value, bytes used); None when it does not terminate within 19 bytes
pub fn leb128_parse(b: &[u8]) -> Option<(u128, usize)> {
    let mut x: u128 = 0;
    let mut s = 0u32;
    for i in 0..19usize {
        let v = *b.get(i)?;
        if v < 0x80 {
            return Some((x | (v as u128).checked_shl(s).unwrap_or(0), i + 1));
        }
        x |= ((v & 0x7f) as u128).checked_shl(s).unwrap_or(0);
        s += 7;
    }
    None
}

/// length prefix || message, zero padded to at least 32 bytes
pub fn frame(msg: &[u8]) -> Vec<u8> {
    let mut f = leb128(msg.len() as u128);
    f.extend_from_slice(msg);
    while f.len() < 32 {
        f.push(0);
    }
    f
}

pub fn unframe(pt: &[u8]) -> Option<Vec<u8>> {
    let (len, used) = leb128_parse(pt)?;
    let len = len as usize; // the library truncates the same way; lengths beyond usize never fit anyway
    if len <= pt.len() - used {
        Some(pt[used..used + len].to_vec())
    } else {
        None
    }
}

pub fn shake128(input: &[u8], n: usize) -> Vec<u8> {
    let mut h = Shake128::default();
    h.update(input);
    let mut r = h.finalize_xof();
    let mut out = vec![0u8; n];
    r.read(&mut out);
    out
}

pub fn xor(a: &[u8], b: &[u8]) -> Vec<u8> {
    a.iter().zip(b.iter()).map(|(x, y)| x ^ y).collect()
}

// ---- signcryption ----------------------------------------------------------------------------

pub struct SignCryptCt<R: RefSuite> {
    pub u: R::Pk,
    pub v: Vec<u8>,
    pub w: R::Sig,
}

/// `entropy` are the 32 bytes the sealer hashes into r
pub fn signcrypt_seal<R: RefSuite>(pk: &R::Pk, msg: &[u8], scheme: Scheme, entropy: &[u8; 32]) -> SignCryptCt<R> {
    let r = hash_to_scalar(entropy, SALT_SIGNCRYPT);
    let u = R::Pk::generator() * r;
    let framed = frame(msg);
    let ks = shake128(&enc(&(*pk * r)), framed.len());
    let v = xor(&framed, &ks);
    let mut t = enc(&u);
    t.extend_from_slice(&v);
    let w = R::hash_to_sig(&t, sig_dst::<R>(scheme)) * r;
    SignCryptCt { u, v, w }
}

pub fn signcrypt_valid<R: RefSuite>(u: &R::Pk, v: &[u8], w: &R::Sig, scheme: Scheme) -> bool {
    if bool::from(u.is_identity()) || bool::from(w.is_identity()) {
        return false;
    }
    let mut t = enc(u);
    t.extend_from_slice(v);
    let h = R::hash_to_sig(&t, sig_dst::<R>(scheme));
    // e(W, P) == e(H(U||V), U)
    R::pairing_product(&[(*w, -R::Pk::generator()), (h, *u)]) == Gt::IDENTITY
}

/// open with u^sk given (whole key: u*sk; threshold: interpolated)
pub fn signcrypt_open_with<R: RefSuite>(u: &R::Pk, v: &[u8], w: &R::Sig, scheme: Scheme, ua: &R::Pk) -> Option<Vec<u8>> {
    if !signcrypt_valid::<R>(u, v, w, scheme) {
        return None;
    }
    let ks = shake128(&enc(ua), v.len());
    unframe(&xor(v, &ks))
}

pub fn signcrypt_open<R: RefSuite>(u: &R::Pk, v: &[u8], w: &R::Sig, scheme: Scheme, sk: &Scalar) -> Option<Vec<u8>> {
    signcrypt_open_with::<R>(u, v, w, scheme, &(*u * sk))
}

/// decryption share verification: e(H(U||V), share) == e(W, pk_share)
pub fn signcrypt_share_valid<R: RefSuite>(share: &R::Pk, pk_share: &R::Pk, u: &R::Pk, v: &[u8], w: &R::Sig, scheme: Scheme) -> bool {
    if bool::from(share.is_identity()) || bool::from(pk_share.is_identity()) || bool::from(w.is_identity()) {
        return false;
    }
    let mut t = enc(u);
    t.extend_from_slice(v);
    let h = R::hash_to_sig(&t, sig_dst::<R>(scheme));
    R::pairing_product(&[(-h, *share), (*w, *pk_share)]) == Gt::IDENTITY
}

// ---- time lock -------------------------------------------------------------------------------

pub struct TimeLockCt<R: RefSuite> {
    pub u: R::Pk,
    pub v: [u8; 32],
    pub w: Vec<u8>,
}

/// the value the identifier is hashed from: the augmentation scheme signs pk || id
pub fn timelock_id<R: RefSuite>(pk: &R::Pk, scheme: Scheme, id: &[u8]) -> Vec<u8> {
    match scheme {
        Scheme::Aug => aug_msg::<R>(pk, id),
        _ => id.to_vec(),
    }
}

pub fn timelock_seal<R: RefSuite>(pk: &R::Pk, msg: &[u8], id: &[u8], scheme: Scheme, entropy: &[u8; 32]) -> Option<TimeLockCt<R>> {
    if bool::from(pk.is_identity()) {
        return None;
    }
    let alpha = hash_to_scalar(entropy, SALT_TIMELOCK);
    let alpha_b = scalar_to_le(&alpha);
    let mut r_in = alpha_b.to_vec();
    r_in.extend_from_slice(&Sha256::digest(msg));
    let r = hash_to_scalar(&r_in, SALT_TIMELOCK);
    let h = R::hash_to_sig(&timelock_id::<R>(pk, scheme, id), sig_dst::<R>(scheme));
    let k = R::pairing_product(&[(h, *pk * r)]);
    let u = R::Pk::generator() * r;
    let v: [u8; 32] = xor(&alpha_b, &Sha256::digest(k.to_bytes().as_ref())).try_into().unwrap();
    let framed = frame(msg);
    let w = xor(&framed, &shake128(&alpha_b, framed.len()));
    Some(TimeLockCt { u, v, w })
}

pub fn timelock_open<R: RefSuite>(u: &R::Pk, v: &[u8; 32], w: &[u8], sig: &R::Sig) -> Option<Vec<u8>> {
    if bool::from(sig.is_identity()) || bool::from(u.is_identity()) {
        return None;
    }
    let k = R::pairing_product(&[(*sig, *u)]);
    let alpha_b = xor(v, &Sha256::digest(k.to_bytes().as_ref()));
    let pt = xor(w, &shake128(&alpha_b, w.len()));
    let msg = match leb128_parse(&pt) {
        Some(_) => unframe(&pt)?,
        None => vec![],
    };
    let mut r_in = alpha_b.clone();
    r_in.extend_from_slice(&Sha256::digest(&msg));
    let r = hash_to_scalar(&r_in, SALT_TIMELOCK);
    if R::Pk::generator() * r == *u {
        Some(msg)
    } else {
        None
    }
}

// ---- signature proof of knowledge ------------------------------------------------------------

pub fn pok_y<R: RefSuite>(u: &R::Sig, t: u64) -> Scalar {
    let mut b = enc(u);
    b.extend_from_slice(&t.to_le_bytes());
    hash_to_scalar(&b, SALT_POK)
}

/// the message the commitment hashes: as the library documents it, `msg` under the scheme tag
pub fn pok_verify<R: RefSuite>(u: &R::Sig, v: &R::Sig, pk: &R::Pk, y: &Scalar, msg: &[u8], scheme: Scheme) -> bool {
    if bool::from(u.is_identity()) || bool::from(v.is_identity()) || bool::from(pk.is_identity()) || bool::from(y.is_zero()) {
        return false;
    }
    let a = R::hash_to_sig(msg, sig_dst::<R>(scheme));
    R::pairing_product(&[(*v, R::Pk::generator()), (*u + a * y, *pk)]) == Gt::IDENTITY
}

/// prover side with explicit randomness x: u = H(m)^x, v = -(sig^(x+y))
pub fn pok_prove<R: RefSuite>(sig: &R::Sig, msg: &[u8], scheme: Scheme, x: &Scalar, y: &Scalar) -> (R::Sig, R::Sig) {
    let a = R::hash_to_sig(msg, sig_dst::<R>(scheme));
    (a * x, -(*sig * (*x + *y)))
}

// ---- ElGamal ---------------------------------------------------------------------------------

pub fn elgamal_generator<R: RefSuite>() -> R::Pk {
    R::hash_to_pk(&enc(&R::Pk::generator()), R::DST_ELGAMAL)
}

pub fn elgamal_challenge<R: RefSuite>(pk: &R::Pk, gen: &R::Pk, c1: &R::Pk, c2: &R::Pk, r1: &R::Pk, r2: &R::Pk) -> Scalar {
    let mut t = merlin::Transcript::new(b"ElGamalProof");
    t.append_message(b"dst", SALT_ELGAMAL);
    t.append_message(b"base point", &enc(&R::Pk::generator()));
    t.append_message(b"pk", &enc(pk));
    t.append_message(b"generator", &enc(gen));
    t.append_message(b"c1", &enc(c1));
    t.append_message(b"c2", &enc(c2));
    t.append_message(b"r1", &enc(r1));
    t.append_message(b"r2", &enc(r2));
    let mut ch = [0u8; 64];
    t.challenge_bytes(b"challenge", &mut ch);
    Scalar::from_bytes_wide(&ch)
}

pub fn elgamal_verify<R: RefSuite>(pk: &R::Pk, c1: &R::Pk, c2: &R::Pk, mp: &Scalar, bp: &Scalar, ch: &Scalar) -> bool {
    elgamal_verify_gen::<R>(pk, &elgamal_generator::<R>(), c1, c2, mp, bp, ch)
}

/// with an explicit message generator (the transcript binds the generator actually used)
pub fn elgamal_verify_gen<R: RefSuite>(pk: &R::Pk, gen: &R::Pk, c1: &R::Pk, c2: &R::Pk, mp: &Scalar, bp: &Scalar, ch: &Scalar) -> bool {
    let gen = *gen;
    if bool::from(pk.is_identity()) || bool::from(c1.is_identity()) || bool::from(c2.is_identity()) {
        return false;
    }
    if bool::from(mp.is_zero()) || bool::from(bp.is_zero()) || bool::from(ch.is_zero()) {
        return false;
    }
    let r1 = *c1 * (-*ch) + R::Pk::generator() * bp;
    let r2 = *c2 * (-*ch) + gen * mp + *pk * bp;
    elgamal_challenge::<R>(pk, &gen, c1, c2, &r1, &r2) == *ch
}

/// prover with explicit randomness (blinder b, nonce r)
pub fn elgamal_prove<R: RefSuite>(pk: &R::Pk, m: &Scalar, b: &Scalar, r: &Scalar) -> (R::Pk, R::Pk, Scalar, Scalar, Scalar) {
    elgamal_prove_gen::<R>(pk, &elgamal_generator::<R>(), m, b, r)
}

pub fn elgamal_prove_gen<R: RefSuite>(pk: &R::Pk, gen: &R::Pk, m: &Scalar, b: &Scalar, r: &Scalar) -> (R::Pk, R::Pk, Scalar, Scalar, Scalar) {
    let gen = *gen;
    let c1 = R::Pk::generator() * b;
    let c2 = *pk * b + gen * m;
    let r1 = R::Pk::generator() * r;
    let r2 = *pk * r + gen * b;
    let ch = elgamal_challenge::<R>(pk, &gen, &c1, &c2, &r1, &r2);
    (c1, c2, *b + ch * m, *r + ch * b, ch)
}

// ---- self tests (run at the start of every check that uses the reference) ----------------------

pub fn self_test() -> Result<(), String> {
    // small order points: P + T differs from P, is not in the subgroup, and q (P + T) = q P
    for (len, q) in [(48usize, 3u32), (48, 11), (96, 13), (96, 23)] {
        let honest = if len == 48 { enc(&(G1Projective::generator() * Scalar::from(5u64))) } else { enc(&(G2Projective::generator() * Scalar::from(5u64))) };
        let bad = small_order_perturbed(&honest, q).ok_or(format!("no point of order {} for length {}", q, len))?;
        if bad == honest {
            return Err(format!("order {} perturbation is trivial", q));
        }
        let (in_subgroup, times_q_equal) = if len == 48 {
            let b = Option::<G1Affine>::from(G1Affine::from_compressed_unchecked(bad.as_slice().try_into().unwrap())).ok_or("perturbed point not on curve")?;
            (bool::from(b.is_torsion_free()), mul_be(&G1Projective::from(b), &q.to_be_bytes()) == G1Projective::generator() * Scalar::from(5u64 * q as u64))
        } else {
            let b = Option::<G2Affine>::from(G2Affine::from_compressed_unchecked(bad.as_slice().try_into().unwrap())).ok_or("perturbed point not on curve")?;
            (bool::from(b.is_torsion_free()), mul_be(&G2Projective::from(b), &q.to_be_bytes()) == G2Projective::generator() * Scalar::from(5u64 * q as u64))
        };
        if in_subgroup || !times_q_equal {
            return Err(format!("order {} perturbation (length {}) is wrong: in subgroup {}, q-multiple equal {}", q, len, in_subgroup, times_q_equal));
        }
    }
    // RFC 5869 test case 1
    let ikm = [0x0bu8; 22];
    let salt: Vec<u8> = (0u8..=0x0c).collect();
    let info: Vec<u8> = (0xf0u8..=0xf9).collect();
    let prk = hkdf_extract(&salt, &ikm);
    if hex::encode(prk) != "077709362c2e32df0ddc3f0dc47bba6390b6c73bb50f9c3122ec844ad7c2b3e5" {
        return Err("RFC 5869 case 1 PRK mismatch".into());
    }
    let okm = hkdf_expand(&prk, &info, 42);
    if hex::encode(&okm) != "3cb25f25faacd57a90434f64d0362f2a2d2d0a90cf1a5a4c5db02d56ecc4c5bf34007208d5b887185865" {
        return Err("RFC 5869 case 1 OKM mismatch".into());
    }
    // RFC 9380 J.9.1 (BLS12381G1_XMD:SHA-256_SSWU_RO_) first vector, msg = ""
    let dst = b"QUUX-V01-CS02-with-BLS12381G1_XMD:SHA-256_SSWU_RO_";
    let p = G1Projective::hash::<ExpandMsgXmd<Sha256>>(b"", dst).to_affine();
    let unc = hex::encode(p.to_uncompressed());
    if !unc.starts_with("052926add2207b76ca4fa57a8734416c8dc95e24501772c814278700eed6d1e4e8cf62d9c09db0fac349612b759e79a1") {
        return Err(format!("RFC 9380 J.9.1 vector mismatch: {}", unc));
    }
    // RFC 9380 J.10.1 (G2) first vector, msg = "" : x = (c0, c1); uncompressed encodes c1 first
    let dst2 = b"QUUX-V01-CS02-with-BLS12381G2_XMD:SHA-256_SSWU_RO_";
    let q = G2Projective::hash::<ExpandMsgXmd<Sha256>>(b"", dst2).to_affine();
    let unc2 = hex::encode(q.to_uncompressed());
    let c1 = "05cb8437535e20ecffaef7752baddf98034139c38452458baeefab379ba13dff5bf5dd71b72418717047f5b0f37da03d";
    let c0 = "0141ebfbdca40eb85b87142e130ab689c673cf60f1a3e98d69335266f30d9b8d4ac44c1038e9dcdd5393faf5c41fb78a";
    if !unc2.starts_with(&format!("{}{}", c1, c0)) {
        return Err(format!("RFC 9380 J.10.1 vector mismatch: {}", unc2));
    }
    // reference sign -> reference verify, both suites, all schemes
    let sk = keygen(b"reference self test");
    for s in SCHEMES {
        let pk1 = enc(&sk_to_pk::<RG1>(&sk));
        let sg1 = enc(&sign::<RG1>(&sk, s, b"m"));
        if !verify::<RG1>(&pk1, s, b"m", &sg1) || verify::<RG1>(&pk1, s, b"n", &sg1) {
            return Err("reference sign/verify self test failed (G1)".into());
        }
        let pk2 = enc(&sk_to_pk::<RG2>(&sk));
        let sg2 = enc(&sign::<RG2>(&sk, s, b"m"));
        if !verify::<RG2>(&pk2, s, b"m", &sg2) || verify::<RG2>(&pk2, s, b"n", &sg2) {
            return Err("reference sign/verify self test failed (G2)".into());
        }
    }
    // framing
    if leb128(300) != vec![0xac, 0x02] || leb128_parse(&[0xac, 0x02, 9]) != Some((300, 2)) {
        return Err("leb128 self test failed".into());
    }
    // Lagrange: f(x) = 5 + 3x at ids 1,4
    let sh = [(1u8, Scalar::from(8u64)), (4u8, Scalar::from(17u64))];
    if interpolate_scalars(&sh) != Scalar::from(5u64) {
        return Err("lagrange self test failed".into());
    }
    Ok(())
}
