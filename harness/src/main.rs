fn main(){}
