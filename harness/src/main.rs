mod common;
mod engine;
mod probe;
mod props;
mod refmodel;
mod registry;

use engine::{Report, Tier};

fn static_asserts() {
    fn ss<T: Send + Sync>() {}
    ss::<blsful::PublicKey<blsful::Bls12381G1Impl>>();
    ss::<blsful::PublicKey<blsful::Bls12381G2Impl>>();
    ss::<blsful::Signature<blsful::Bls12381G1Impl>>();
    ss::<blsful::Signature<blsful::Bls12381G2Impl>>();
    ss::<blsful::SecretKey<blsful::Bls12381G1Impl>>();
    ss::<blsful::SecretKeyShare<blsful::Bls12381G2Impl>>();
    ss::<blsful::inner_types::Scalar>();
    ss::<blsful::inner_types::Gt>();
}

fn main() {
    static_asserts();
    let args: Vec<String> = std::env::args().collect();
    if args.len() < 2 {
        eprintln!("usage: blsful-mc <ID> [quick|thorough] | replay <file> | child <args..>");
        std::process::exit(2);
    }
    engine::install_quiet_panic_hook();
    let seed: u64 = std::env::var("VERIF_SEED").ok().and_then(|s| s.parse().ok()).unwrap_or(1);
    if args[1] == "replay" {
        std::process::exit(props::replay(&args[2]));
    }
    if args[1] == "tool" && args.get(2).map(|s| s.as_str()) == Some("pattern-keys") {
        // one-off search (results are hard-coded in common.rs and re-validated by the reference at every start-up)
        use blsful::*;
        use rayon::prelude::*;
        let n: u32 = args.get(3).and_then(|s| s.parse().ok()).unwrap_or(2_000_000);
        let hits: Vec<String> = (0..n)
            .into_par_iter()
            .flat_map_iter(|i| {
                let seed = format!("verif pattern key #{}", i);
                let k1 = SecretKey::<Bls12381G2Impl>::from_hash(seed.as_bytes());
                let k2 = SecretKey::<Bls12381G1Impl>::from_hash(seed.as_bytes());
                let e48 = Vec::<u8>::from(&k1.public_key());
                let e96 = Vec::<u8>::from(&k2.public_key());
                let mut out = vec![];
                let hi = |b: &[u8]| (((b[0] & 0x1f) as u16) << 8) | b[1] as u16;
                for (name, v) in [("g1.x", hi(&e48)), ("g2.x1", hi(&e96)), ("g2.x0", ((e96[48] as u16) << 8) | e96[49] as u16)] {
                    if v == 0x1a01 {
                        out.push(format!("{} top {} {}", name, i, hex::encode(k1.to_be_bytes())));
                    }
                    if v == 0 {
                        out.push(format!("{} zero {} {}", name, i, hex::encode(k1.to_be_bytes())));
                    }
                }
                out
            })
            .collect();
        for h in hits {
            println!("{}", h);
        }
        std::process::exit(0);
    }
    if args[1] == "tool" && args.get(2).map(|s| s.as_str()) == Some("pattern-messages") {
        // one-off search: messages whose hash-to-curve point (signature under sk = 1) or whose signature under the
        // derived key has a coordinate next to the modulus / with leading zero bits
        use blsful::*;
        use rayon::prelude::*;
        let n: u32 = args.get(3).and_then(|s| s.parse().ok()).unwrap_or(400_000);
        let kb = common::key_alphabet(1, false).be[3];
        let hits: Vec<String> = (0..n)
            .into_par_iter()
            .flat_map_iter(|i| {
                let msg = format!("verif pattern message #{}", i);
                let mut out = vec![];
                let hi = |b: &[u8], off: usize| (((b[off] & if off == 0 { 0x1f } else { 0xff }) as u16) << 8) | b[off + 1] as u16;
                fn sigs<C: common::Suite>(kb: &[u8; 32], m: &[u8]) -> (Vec<u8>, Vec<u8>) {
                    let one = SecretKey::<C>(common::sc_from_be::<C>(&{
                        let mut o = [0u8; 32];
                        o[31] = 1;
                        o
                    }));
                    let k = SecretKey::<C>(common::sc_from_be::<C>(kb));
                    (common::pt(one.sign(SignatureSchemes::Basic, m).unwrap().as_raw_value()), common::pt(k.sign(SignatureSchemes::Basic, m).unwrap().as_raw_value()))
                }
                let (h1, s1) = sigs::<Bls12381G1Impl>(&kb, msg.as_bytes());
                let (h2, s2) = sigs::<Bls12381G2Impl>(&kb, msg.as_bytes());
                for (name, b, off) in [("g1.hash", &h1, 0usize), ("g1.sig", &s1, 0), ("g2.hash.x1", &h2, 0), ("g2.sig.x1", &s2, 0), ("g2.hash.x0", &h2, 48), ("g2.sig.x0", &s2, 48)] {
                    let v = hi(b, off);
                    if v == 0x1a01 {
                        out.push(format!("{} top {}", name, i));
                    }
                    if v == 0 {
                        out.push(format!("{} zero {}", name, i));
                    }
                }
                out
            })
            .collect();
        for h in hits {
            println!("{}", h);
        }
        std::process::exit(0);
    }
    if args[1] == "tool" && args.get(2).map(|s| s.as_str()) == Some("pattern-tails") {
        // one-off search: encodings (public key, proof of possession, signatures of the three schemes) that END in
        // bytes a text-minded decoder might strip (CR LF, LF, NUL NUL, two spaces) or START with the first three bytes
        // of the field modulus
        use blsful::*;
        use rayon::prelude::*;
        let n: u32 = args.get(3).and_then(|s| s.parse().ok()).unwrap_or(300_000);
        let kb = common::key_alphabet(1, false).be[3];
        fn scan<C: common::Suite>(g: &str, i: u32, kb: &[u8; 32], out: &mut Vec<String>) {
            let seed = format!("verif pattern key #{}", i);
            let k = SecretKey::<C>::from_hash(seed.as_bytes());
            let fixed = SecretKey::<C>(common::sc_from_be::<C>(kb));
            let msg = format!("verif pattern message #{}", i);
            let mut items: Vec<(String, Vec<u8>)> = vec![(format!("{}.pk", g), Vec::<u8>::from(&k.public_key())), (format!("{}.pop", g), Vec::<u8>::from(&k.proof_of_possession().unwrap()))];
            for (sn, s) in [("basic", SignatureSchemes::Basic), ("aug", SignatureSchemes::MessageAugmentation), ("pop", SignatureSchemes::ProofOfPossession)] {
                items.push((format!("{}.sig-{}", g, sn), common::pt(fixed.sign(s, msg.as_bytes()).unwrap().as_raw_value())));
            }
            for (name, b) in items {
                let l = b.len();
                let tail = (b[l - 2], b[l - 1]);
                let cls = match tail {
                    (0x0d, 0x0a) => Some("crlf"),
                    (0x00, 0x00) => Some("nulnul"),
                    (0x20, 0x20) => Some("spaces"),
                    (0x0a, 0x0a) => Some("lflf"),
                    _ => None,
                };
                if let Some(c) = cls {
                    out.push(format!("{} tail-{} {}", name, c, i));
                }
                if (b[0] & 0x1f) == 0x1a && b[1] == 0x01 && b[2] == 0x11 {
                    out.push(format!("{} head-1a0111 {}", name, i));
                }
                if (b[0] & 0x1f) == 0x1a {
                    out.push(format!("{} head-1a {}", name, i));
                }
                if l == 96 && b[48] == 0x1a {
                    out.push(format!("{} second-coordinate-1a {}", name, i));
                }
            }
        }
        let hits: Vec<String> = (0..n)
            .into_par_iter()
            .flat_map_iter(|i| {
                let mut out = vec![];
                scan::<Bls12381G1Impl>("g1impl", i, &kb, &mut out);
                scan::<Bls12381G2Impl>("g2impl", i, &kb, &mut out);
                out
            })
            .collect();
        for h in hits {
            println!("{}", h);
        }
        std::process::exit(0);
    }
    if args[1] == "tool" && args.get(2).map(|s| s.as_str()) == Some("check-patterns") {
        // prints the leading bytes of the encodings derived from the hard-coded pattern keys named "...1a0111"
        use blsful::*;
        for (name, kb) in common::pattern_keys(1).into_iter().filter(|(n, _)| n.contains("1a0111")) {
            let k1 = common::sk_from_be::<Bls12381G1Impl>(&kb).unwrap();
            let k2 = common::sk_from_be::<Bls12381G2Impl>(&kb).unwrap();
            let h = |b: Vec<u8>| hex::encode(&b[..4]);
            println!(
                "{}: G2 pk {} G1 pk {} G1 pop {} G2 pop {}",
                name,
                h(Vec::<u8>::from(&k1.public_key())),
                h(Vec::<u8>::from(&k2.public_key())),
                h(Vec::<u8>::from(&k1.proof_of_possession().unwrap())),
                h(Vec::<u8>::from(&k2.proof_of_possession().unwrap()))
            );
        }
        std::process::exit(0);
    }
    if args[1] == "child" {
        std::process::exit(props::child(&args[2..]));
    }
    let tier = match args.get(2).map(|s| s.as_str()).or(std::env::var("VERIF_TIER").ok().as_deref()) {
        Some("thorough") => Tier::Thorough,
        _ => Tier::Quick,
    };
    let id = args[1].to_uppercase();
    if let Err(e) = refmodel::self_test() {
        eprintln!("MACHINERY-ERROR property={} reference self-test failed: {}", id, e);
        std::process::exit(2);
    }
    let mut report = Report::new(&id, tier, seed);
    // second pass under the checked profile (debug assertions + overflow checks), started first so that it runs
    // alongside; C17 drives both profiles itself, C19 compares backends through its own tool
    let second = if !cfg!(debug_assertions) && std::env::var("VERIF_PROFILE_CHILD").is_err() && std::env::var("VERIF_SINGLE_PROFILE").is_err() && id != "C17" && id != "C19" {
        let bin = std::env::current_exe().ok().and_then(|p| p.parent().and_then(|d| d.parent()).map(|d| d.join("checked").join("blsful-mc")));
        match bin {
            Some(b) if b.exists() => {
                let out = std::env::temp_dir().join(format!("blsful-mc-profile-{}-{}.json", id, std::process::id()));
                let log = std::fs::File::create(std::env::temp_dir().join(format!("blsful-mc-profile-{}-{}.log", id, std::process::id()))).ok();
                let mut cmd = std::process::Command::new(&b);
                cmd.arg(&id).arg(tier.name()).env("VERIF_PROFILE_CHILD", &out).env("VERIF_SEED", seed.to_string());
                if let Some(l) = log {
                    if let Ok(l2) = l.try_clone() {
                        cmd.stdout(l).stderr(l2);
                    }
                }
                match cmd.spawn() {
                    Ok(c) => Some((c, out)),
                    Err(e) => {
                        report.machinery(format!("cannot start the checked-profile binary {:?}: {}", b, e));
                        None
                    }
                }
            }
            _ => {
                report.machinery("checked-profile binary not found next to the release one (run.sh builds it)".into());
                None
            }
        }
    } else {
        None
    };
    if !props::run(&id, tier, seed, &mut report) {
        eprintln!("unknown property {}", id);
        std::process::exit(2);
    }
    if let Some((mut child, out)) = second {
        let st = child.wait();
        match (st, std::fs::read_to_string(&out).ok().and_then(|t| serde_json::from_str::<engine::ProfileSummary>(&t).ok())) {
            (Ok(s), Some(sum)) if s.success() => {
                eprintln!(
                    "[{}] checked profile: states={} evaluations={} violations={}",
                    id,
                    sum.models.iter().map(|m| m.states).sum::<u64>(),
                    sum.models.iter().map(|m| m.evaluations).sum::<u64>(),
                    sum.violations.len()
                );
                report.merge_profile(sum);
            }
            (s, _) => report.machinery(format!("checked-profile pass did not complete: {:?} (an abort there is a machinery exit, never a verdict)", s.map(|x| x.code()))),
        }
        let _ = std::fs::remove_file(&out);
    }
    std::process::exit(report.finish());
}
