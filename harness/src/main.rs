mod common;
mod engine;
mod props;
mod refmodel;
mod registry;

use engine::{Report, Tier};

fn static_asserts() {
    fn ss<T: Send + Sync>() {}
    ss::<blsful::PublicKey<blsful::Bls12381G1Impl>>();
    ss::<blsful::PublicKey<blsful::Bls12381G2Impl>>();
    ss::<blsful::Signature<blsful::Bls12381G1Impl>>();
    ss::<blsful::Signature<blsful::Bls12381G2Impl>>();
    ss::<blsful::SecretKey<blsful::Bls12381G1Impl>>();
    ss::<blsful::SecretKeyShare<blsful::Bls12381G2Impl>>();
    ss::<blsful::inner_types::Scalar>();
    ss::<blsful::inner_types::Gt>();
}

fn main() {
    static_asserts();
    let args: Vec<String> = std::env::args().collect();
    if args.len() < 2 {
        eprintln!("usage: blsful-mc <ID> [quick|thorough] | replay <file> | child <args..>");
        std::process::exit(2);
    }
    engine::install_quiet_panic_hook();
    let seed: u64 = std::env::var("VERIF_SEED").ok().and_then(|s| s.parse().ok()).unwrap_or(1);
    if args[1] == "replay" {
        std::process::exit(props::replay(&args[2]));
    }
    if args[1] == "child" {
        std::process::exit(props::child(&args[2..]));
    }
    let tier = match args.get(2).map(|s| s.as_str()).or(std::env::var("VERIF_TIER").ok().as_deref()) {
        Some("thorough") => Tier::Thorough,
        _ => Tier::Quick,
    };
    let id = args[1].to_uppercase();
    if let Err(e) = refmodel::self_test() {
        eprintln!("MACHINERY-ERROR property={} reference self-test failed: {}", id, e);
        std::process::exit(2);
    }
    let mut report = Report::new(&id, tier, seed);
    if !props::run(&id, tier, seed, &mut report) {
        eprintln!("unknown property {}", id);
        std::process::exit(2);
    }
    std::process::exit(report.finish());
}
