mod common;
mod engine;
mod props;
mod refmodel;
mod registry;

use engine::{Report, Tier};

fn static_asserts() {
    fn ss<T: Send + Sync>() {}
    ss::<blsful::PublicKey<blsful::Bls12381G1Impl>>();
    ss::<blsful::PublicKey<blsful::Bls12381G2Impl>>();
    ss::<blsful::Signature<blsful::Bls12381G1Impl>>();
    ss::<blsful::Signature<blsful::Bls12381G2Impl>>();
    ss::<blsful::SecretKey<blsful::Bls12381G1Impl>>();
    ss::<blsful::SecretKeyShare<blsful::Bls12381G2Impl>>();
    ss::<blsful::inner_types::Scalar>();
    ss::<blsful::inner_types::Gt>();
}

fn main() {
    static_asserts();
    let args: Vec<String> = std::env::args().collect();
    if args.len() < 2 {
        eprintln!("usage: blsful-mc <ID> [quick|thorough] | replay <file> | child <args..>");
        std::process::exit(2);
    }
    engine::install_quiet_panic_hook();
    let seed: u64 = std::env::var("VERIF_SEED").ok().and_then(|s| s.parse().ok()).unwrap_or(1);
    if args[1] == "replay" {
        std::process::exit(props::replay(&args[2]));
    }
    if args[1] == "tool" && args.get(2).map(|s| s.as_str()) == Some("pattern-keys") {
        // one-off search (results are hard-coded in common.rs and re-validated by the reference at every start-up)
        use blsful::*;
        use rayon::prelude::*;
        let n: u32 = args.get(3).and_then(|s| s.parse().ok()).unwrap_or(2_000_000);
        let hits: Vec<String> = (0..n)
            .into_par_iter()
            .flat_map_iter(|i| {
                let seed = format!("verif pattern key #{}", i);
                let k1 = SecretKey::<Bls12381G2Impl>::from_hash(seed.as_bytes());
                let k2 = SecretKey::<Bls12381G1Impl>::from_hash(seed.as_bytes());
                let e48 = Vec::<u8>::from(&k1.public_key());
                let e96 = Vec::<u8>::from(&k2.public_key());
                let mut out = vec![];
                let hi = |b: &[u8]| (((b[0] & 0x1f) as u16) << 8) | b[1] as u16;
                for (name, v) in [("g1.x", hi(&e48)), ("g2.x1", hi(&e96)), ("g2.x0", ((e96[48] as u16) << 8) | e96[49] as u16)] {
                    if v == 0x1a01 {
                        out.push(format!("{} top {} {}", name, i, hex::encode(k1.to_be_bytes())));
                    }
                    if v == 0 {
                        out.push(format!("{} zero {} {}", name, i, hex::encode(k1.to_be_bytes())));
                    }
                }
                out
            })
            .collect();
        for h in hits {
            println!("{}", h);
        }
        std::process::exit(0);
    }
    if args[1] == "child" {
        std::process::exit(props::child(&args[2..]));
    }
    let tier = match args.get(2).map(|s| s.as_str()).or(std::env::var("VERIF_TIER").ok().as_deref()) {
        Some("thorough") => Tier::Thorough,
        _ => Tier::Quick,
    };
    let id = args[1].to_uppercase();
    if let Err(e) = refmodel::self_test() {
        eprintln!("MACHINERY-ERROR property={} reference self-test failed: {}", id, e);
        std::process::exit(2);
    }
    let mut report = Report::new(&id, tier, seed);
    // second pass under the checked profile (debug assertions + overflow checks), started first so that it runs
    // alongside; C17 drives both profiles itself, C19 compares backends through its own tool
    let second = if !cfg!(debug_assertions) && std::env::var("VERIF_PROFILE_CHILD").is_err() && std::env::var("VERIF_SINGLE_PROFILE").is_err() && id != "C17" && id != "C19" {
        let bin = std::env::current_exe().ok().and_then(|p| p.parent().and_then(|d| d.parent()).map(|d| d.join("checked").join("blsful-mc")));
        match bin {
            Some(b) if b.exists() => {
                let out = std::env::temp_dir().join(format!("blsful-mc-profile-{}-{}.json", id, std::process::id()));
                let log = std::fs::File::create(std::env::temp_dir().join(format!("blsful-mc-profile-{}-{}.log", id, std::process::id()))).ok();
                let mut cmd = std::process::Command::new(&b);
                cmd.arg(&id).arg(tier.name()).env("VERIF_PROFILE_CHILD", &out).env("VERIF_SEED", seed.to_string());
                if let Some(l) = log {
                    if let Ok(l2) = l.try_clone() {
                        cmd.stdout(l).stderr(l2);
                    }
                }
                match cmd.spawn() {
                    Ok(c) => Some((c, out)),
                    Err(e) => {
                        report.machinery(format!("cannot start the checked-profile binary {:?}: {}", b, e));
                        None
                    }
                }
            }
            _ => {
                report.machinery("checked-profile binary not found next to the release one (run.sh builds it)".into());
                None
            }
        }
    } else {
        None
    };
    if !props::run(&id, tier, seed, &mut report) {
        eprintln!("unknown property {}", id);
        std::process::exit(2);
    }
    if let Some((mut child, out)) = second {
        let st = child.wait();
        match (st, std::fs::read_to_string(&out).ok().and_then(|t| serde_json::from_str::<engine::ProfileSummary>(&t).ok())) {
            (Ok(s), Some(sum)) if s.success() => {
                eprintln!(
                    "[{}] checked profile: states={} evaluations={} violations={}",
                    id,
                    sum.models.iter().map(|m| m.states).sum::<u64>(),
                    sum.models.iter().map(|m| m.evaluations).sum::<u64>(),
                    sum.violations.len()
                );
                report.merge_profile(sum);
            }
            (s, _) => report.machinery(format!("checked-profile pass did not complete: {:?} (an abort there is a machinery exit, never a verdict)", s.map(|x| x.code()))),
        }
        let _ = std::fs::remove_file(&out);
    }
    std::process::exit(report.finish());
}
