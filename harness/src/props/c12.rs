//! C12 - threshold signcryption decryption: shares verify, and t of them decrypt.
use crate::common::*;
use crate::engine::*;
use crate::refmodel::{self as rf, RefSuite, Scheme, SCHEMES};
use blsful::vsss_rs::Share;
use blsful::*;
use rand_core::SeedableRng;
use serde::{Deserialize, Serialize};
use std::marker::PhantomData;

#[derive(Copy, Clone, Debug, PartialEq, Eq, Hash, Serialize, Deserialize)]
pub enum Fault {
    Dup(usize),
    ZeroId(usize),
    /// the share at this position was made for the other ciphertext
    OtherCiphertext(usize),
    Transport(usize, Codec),
    Reverse,
}

#[derive(Clone, Debug, PartialEq, Eq, Hash, Serialize, Deserialize)]
pub struct St {
    inst: usize,
    seq: Vec<u8>,
    fault: Option<Fault>,
}

#[derive(Clone, Debug, PartialEq)]
pub enum Act {
    Append(u8),
    Fault(Fault),
}

pub struct Inst<C: Suite> {
    s: Scheme,
    t: usize,
    n: usize,
    msg: Vec<u8>,
    shares: Vec<SecretKeyShare<C>>,
    pks: Vec<PublicKeyShare<C>>,
    ct: SignCryptCiphertext<C>,
    ct2: SignCryptCiphertext<C>,
    ds: Vec<SignDecryptionShare<C>>,
    ds2: Vec<SignDecryptionShare<C>>,
}

pub struct M12<C: Suite> {
    tier: Tier,
    insts: Vec<Inst<C>>,
    _c: PhantomData<C>,
}

fn grid(tier: Tier) -> Vec<(usize, usize)> {
    if tier.thorough() {
        let mut v = vec![];
        for n in 2..=6 {
            for t in 2..=n {
                v.push((t, n));
            }
        }
        v
    } else {
        vec![(2, 2), (2, 3), (3, 5), (5, 5)]
    }
}

impl<C: Suite> M12<C> {
    pub fn new(tier: Tier, seed: u64) -> Self {
        let mut insts = vec![];
        for s in SCHEMES {
            // every (t,n) with one message; the (2,3) instance again with the boundary message lengths
            let mut todo: Vec<(usize, usize, usize)> = grid(tier).into_iter().map(|(t, n)| (t, n, 20 + t)).collect();
            for l in [0usize, 1, 30, 31, 32, 33, 127, 128, 4096] {
                todo.push((2, 3, l));
            }
            for (t, n, mlen) in todo {
                let sk = SecretKey::<C>::from_hash(format!("c12-{}-{}-{}", s.name(), t, n));
                let shares = sk.split_with_rng(t, n, rand_chacha::ChaCha20Rng::from_seed(data32(seed, &format!("c12-split-{}-{}", t, n)))).unwrap();
                let pks = shares.iter().map(|x| x.public_key().unwrap()).collect();
                let msg = msg_of(seed, mlen, 3);
                let ent = entropy_stream(seed, &format!("c12-{}-{}-{}-{}", s.name(), t, n, mlen), 2);
                let pk = sk.public_key();
                let (ct, ct2) = with_env(ent, None, || (pk.sign_crypt(lib_scheme(s), &msg), pk.sign_crypt(lib_scheme(s), &msg))).unwrap();
                let ds = shares.iter().map(|x| ct.create_decryption_share(x).unwrap()).collect();
                let ds2 = shares.iter().map(|x| ct2.create_decryption_share(x).unwrap()).collect();
                insts.push(Inst { s, t, n, msg, shares, pks, ct, ct2, ds, ds2 });
            }
        }
        M12 { tier, insts, _c: PhantomData }
    }
}

impl<C: Suite> Model for M12<C> {
    type State = St;
    type Action = Act;
    fn name(&self) -> String {
        format!("c12-threshold-signcrypt/{}{}", C::G, if self.tier.thorough() { "/n<=6" } else { "" })
    }
    fn init(&self) -> Vec<St> {
        (0..self.insts.len()).map(|i| St { inst: i, seq: vec![], fault: None }).collect()
    }
    fn actions(&self, st: &St) -> Vec<Act> {
        if st.fault.is_some() {
            return vec![];
        }
        let it = &self.insts[st.inst];
        let mut a = vec![];
        let maxid = st.seq.iter().copied().max().unwrap_or(0);
        for sh in &it.shares {
            let id = sh.0.identifier();
            if id > maxid {
                a.push(Act::Append(id));
            }
        }
        if !st.seq.is_empty() {
            let pos: Vec<usize> = if st.seq.len() <= 3 { (0..st.seq.len()).collect() } else { vec![0, st.seq.len() - 1] };
            for p in pos {
                a.push(Act::Fault(Fault::Dup(p)));
                a.push(Act::Fault(Fault::ZeroId(p)));
                a.push(Act::Fault(Fault::OtherCiphertext(p)));
                for c in [Codec::Bytes, Codec::Bare, Codec::Json] {
                    a.push(Act::Fault(Fault::Transport(p, c)));
                }
            }
            if st.seq.len() >= 2 {
                a.push(Act::Fault(Fault::Reverse));
            }
        }
        a
    }
    fn step(&self, st: &St, a: &Act) -> Option<St> {
        let mut n = st.clone();
        match a {
            Act::Append(id) => n.seq.push(*id),
            Act::Fault(f) => n.fault = Some(*f),
        }
        Some(n)
    }
    fn describe(&self, st: &St) -> String {
        let it = &self.insts[st.inst];
        format!("{} ciphertext scheme {} ({},{}) message of {} bytes, decryption shares of ids {:?} fault {:?}: decrypt_with_shares / SignCryptDecryptionKey::from_shares", C::G, it.s.name(), it.t, it.n, it.msg.len(), st.seq, st.fault)
    }
    fn required_outcomes(&self) -> Vec<String> {
        vec!["qualified:message".into(), "below-threshold:not-the-message".into(), "matrix:own:accept".into(), "matrix:other-key:reject".into(), "matrix:other-ciphertext:reject".into(), "fault:not-the-message".into()]
    }
    fn check(&self, st: &St, o: &mut Obs) {
        let g = C::G;
        o.nontrivial = true;
        let it = &self.insts[st.inst];
        let sn = it.s.name();
        let idx = |id: u8| it.shares.iter().position(|s| s.0.identifier() == id).unwrap();
        let mut ds: Vec<SignDecryptionShare<C>> = st.seq.iter().map(|id| it.ds[idx(*id)].clone()).collect();
        let k = ds.len();
        let mut cls = "none".to_string();
        let mut faulty = false;
        if let Some(f) = st.fault {
            cls = format!("{:?}", f).split('(').next().unwrap().to_string();
            match f {
                Fault::Dup(p) => {
                    ds.push(ds[p].clone());
                    faulty = true;
                }
                Fault::ZeroId(p) => {
                    *ds[p].0.identifier_mut() = 0;
                    faulty = true;
                }
                Fault::OtherCiphertext(p) => {
                    ds[p] = it.ds2[idx(st.seq[p])].clone();
                    faulty = true;
                }
                Fault::Transport(p, c) => {
                    let r: Result<SignDecryptionShare<C>, String> = match c {
                        Codec::Bytes => SignDecryptionShare::<C>::try_from(Vec::<u8>::from(&ds[p]).as_slice()).map_err(|e| e.to_string()),
                        Codec::Bare => via_bare(&ds[p]),
                        _ => via_json(&ds[p]),
                    };
                    match r {
                        Ok(x) => {
                            o.expect(&format!("C12:share-transport-equal:{}:{:?}", g, c), x == ds[p], "equal", "differs");
                            ds[p] = x;
                        }
                        Err(e) => {
                            o.expect(&format!("C12:share-transport:{}:{:?}", g, c), false, "Ok", &e);
                            return;
                        }
                    }
                }
                Fault::Reverse => ds.reverse(),
            }
        }
        let direct = guard(|| Option::<Vec<u8>>::from(it.ct.decrypt_with_shares(&ds)));
        // the combiner works on its own copy of the ciphertext
        let copy = it.ct.clone();
        let viakey = guard(|| SignCryptDecryptionKey::<C>::from_shares(&ds).map(|key| Option::<Vec<u8>>::from(key.decrypt(&copy))));
        o.calls(2);
        let (direct, viakey) = match (direct, viakey) {
            (Ok(a), Ok(b)) => (a, b),
            (a, b) => {
                o.outcome("panic");
                o.expect(&format!("C12:panic:{}:{}:{}", g, sn, cls), false, "returns", &format!("{:?}/{:?}", a.err(), b.err()));
                return;
            }
        };
        o.record("direct", direct.as_deref().unwrap_or(b"<none>"));
        let via_msg: Option<Vec<u8>> = viakey.as_ref().ok().cloned().flatten();
        // a wrong key still produces *some* plaintext; for a message of L bytes it equals the original with probability
        // 2^-8(L+1) by the framing alone, so "never the original message" is judged for messages of at least 8 bytes
        let judge_never = it.msg.len() >= 8;
        let got_direct = direct.as_ref() == Some(&it.msg);
        let got_via = via_msg.as_ref() == Some(&it.msg);
        let key = |what: &str| format!("C12:{}:{}:{}:{}", what, g, sn, cls);
        if faulty {
            let bad = got_direct || got_via;
            // a set with one share replaced/duplicated/zeroed: from_shares must refuse duplicates and zero ids
            o.outcome(if bad && !matches!(st.fault, Some(Fault::Dup(_))) { "fault:the-message" } else { "fault:not-the-message" });
            match st.fault {
                Some(Fault::Dup(_)) | Some(Fault::ZeroId(_)) => {
                    o.expect(&key("faulty-set-refused"), viakey.is_err(), "from_shares is Err", "Ok");
                    if judge_never {
                        o.expect(&key("faulty-set-direct"), !got_direct, "not the message", "the message");
                    }
                }
                _ => {
                    if k >= 2 && judge_never {
                        o.expect(&key("share-of-other-ciphertext"), !bad, "never the original message", "the message");
                    }
                }
            }
            return;
        }
        if k < 2 {
            o.outcome("fewer-than-two:nothing");
            o.expect(&key("fewer-than-two-shares"), direct.is_none() && viakey.is_err(), "None / Err", &format!("{:?}/{}", direct.is_some(), viakey.is_ok()));
        } else if k >= it.t {
            o.outcome(if got_direct && got_via { "qualified:message" } else { "qualified:wrong" });
            o.expect(&key("decrypt-with-shares-qualified"), got_direct, "the original message", &format!("{:?}", direct.as_ref().map(|m| m.len())));
            o.expect(&key("combined-key-decrypt-qualified"), got_via, "the original message", &format!("{:?}", via_msg.as_ref().map(|m| m.len())));
        } else {
            o.outcome(if !got_direct && !got_via { "below-threshold:not-the-message" } else { "below-threshold:the-message" });
            if judge_never {
                o.expect(&key("below-threshold"), !got_direct && !got_via, "never the original message", "the message");
            }
        }
        // reference: interpolate the share points independently and open
        if k >= 2 {
            let pts: Vec<(u8, <C::R as RefSuite>::Pk)> = ds
                .iter()
                .map(|d| {
                    let b = Vec::<u8>::from(d);
                    (b[0], <C::R as RefSuite>::pk_from(&b[1..]).expect("share point"))
                })
                .collect();
            let ua = rf::interpolate_points(&pts);
            let u = <C::R as RefSuite>::pk_from(&pt(&it.ct.u)).unwrap();
            let w = <C::R as RefSuite>::sig_from(&pt(&it.ct.w)).unwrap();
            let want = rf::signcrypt_open_with::<C::R>(&u, &it.ct.v, &w, it.s, &ua);
            o.expect(&key("decrypt-with-shares-vs-reference"), direct == want, &format!("{:?}", want.as_ref().map(|m| m.len())), &format!("{:?}", direct.as_ref().map(|m| m.len())));
            o.expect(&key("combined-key-vs-reference"), via_msg == want, &format!("{:?}", want.as_ref().map(|m| m.len())), &format!("{:?}", via_msg.as_ref().map(|m| m.len())));
        }
        // root state: verification matrix share i x key share j x ciphertext
        if st.seq.is_empty() {
            for i in 0..it.n {
                for j in 0..it.n {
                    let own_copy = it.ct.clone();
                    for (cn, ct, shares) in [("own-ciphertext", &own_copy, &it.ds), ("other-ciphertext", &it.ct2, &it.ds)] {
                        let v = guard(|| shares[i].verify(&it.pks[j], ct));
                        o.calls(1);
                        let acc = matches!(v, Ok(Ok(())));
                        let want = i == j && cn == "own-ciphertext";
                        let class = if cn != "own-ciphertext" { "other-ciphertext" } else if i == j { "own" } else { "other-key" };
                        o.outcome(&format!("matrix:{}:{}", class, if acc { "accept" } else { "reject" }));
                        o.expect(&format!("C12:share-verify:{}:{}:{}", g, sn, class), acc == want && v.is_ok(), if want { "accept" } else { "reject" }, verdict(&v));
                        // reference pairing equation on the same points
                        let sp = <C::R as RefSuite>::pk_from(&Vec::<u8>::from(&shares[i])[1..]).unwrap();
                        let kp = <C::R as RefSuite>::pk_from(&Vec::<u8>::from(&it.pks[j])[1..]).unwrap();
                        let u = <C::R as RefSuite>::pk_from(&pt(&ct.u)).unwrap();
                        let w = <C::R as RefSuite>::sig_from(&pt(&ct.w)).unwrap();
                        let r = rf::signcrypt_share_valid::<C::R>(&sp, &kp, &u, &ct.v, &w, it.s);
                        o.expect(&format!("C12:share-verify-vs-reference:{}:{}:{}", g, sn, class), acc == r, if r { "accept" } else { "reject" }, verdict(&v));
                    }
                }
            }
            // the second ciphertext's own shares verify against it
            let v = guard(|| it.ds2[0].verify(&it.pks[0], &it.ct2));
            o.expect(&format!("C12:share-verify:{}:{}:second-ciphertext-own", g, sn), matches!(v, Ok(Ok(()))), "accept", verdict(&v));
        }
    }
}

// ---- large (t, n): named subsets only -----------------------------------------------------------------

#[derive(Copy, Clone, Debug, PartialEq, Eq, Hash, Serialize, Deserialize)]
pub enum Named {
    FirstT,
    LastT,
    FirstTReversed,
    FirstTMinus1,
    All,
    /// every second share from the first, then filled up from the end until t are collected
    Strided,
    /// all shares followed by the first one again (a duplicate behind a complete set)
    AllPlusDuplicate,
}

/// participants of a crafted 3-of-5 sharing in which 1 and 2 hold equal values
const EQ_SUBSETS: [&[u8]; 7] = [&[1, 2, 3], &[1, 2, 4], &[2, 1, 5], &[5, 2, 1], &[1, 2, 3, 4, 5], &[3, 4, 5], &[1, 3, 5]];

pub struct M12Equal<C: Suite> {
    _c: PhantomData<C>,
}

impl<C: Suite> Model for M12Equal<C> {
    type State = Option<(Scheme, usize)>;
    type Action = (Scheme, usize);
    fn name(&self) -> String {
        format!("c12-equal-valued-shares/{}", C::G)
    }
    fn init(&self) -> Vec<Option<(Scheme, usize)>> {
        vec![None]
    }
    fn actions(&self, st: &Option<(Scheme, usize)>) -> Vec<(Scheme, usize)> {
        if st.is_some() {
            return vec![];
        }
        SCHEMES.iter().flat_map(|s| (0..EQ_SUBSETS.len()).map(move |i| (*s, i))).collect()
    }
    fn step(&self, _s: &Option<(Scheme, usize)>, a: &(Scheme, usize)) -> Option<Option<(Scheme, usize)>> {
        Some(Some(*a))
    }
    fn describe(&self, st: &Option<(Scheme, usize)>) -> String {
        format!("{} 3-of-5 sharing in which participants 1 and 2 hold equal values: {:?}", C::G, st.map(|(s, i)| (s.name(), EQ_SUBSETS[i])))
    }
    fn required_outcomes(&self) -> Vec<String> {
        vec!["equal-values:opens".into()]
    }
    fn check(&self, st: &Option<(Scheme, usize)>, o: &mut Obs) {
        let Some((s, i)) = st else { return };
        o.nontrivial = true;
        let sk = SecretKey::<C>::from_hash(b"c12 equal valued shares");
        let msg = b"a message for equal valued shares".to_vec();
        let ct = sk.public_key().sign_crypt(lib_scheme(*s), &msg);
        let all = shares_with_equal_values::<C>(&sk, 5);
        let pick: Vec<&SecretKeyShare<C>> = EQ_SUBSETS[*i].iter().map(|id| &all[*id as usize - 1]).collect();
        let r = guard(|| -> Result<(bool, bool, bool), String> {
            let ds: Vec<SignDecryptionShare<C>> = pick.iter().map(|x| ct.create_decryption_share(x).map_err(|e| e.to_string())).collect::<Result<_, _>>()?;
            let verifies = pick.iter().zip(ds.iter()).all(|(x, d)| d.verify(&x.public_key().unwrap(), &ct).is_ok());
            let direct = Option::<Vec<u8>>::from(ct.decrypt_with_shares(&ds)).as_deref() == Some(msg.as_slice());
            let via = SignCryptDecryptionKey::<C>::from_shares(&ds).map(|k| Option::<Vec<u8>>::from(k.decrypt(&ct)).as_deref() == Some(msg.as_slice())).map_err(|e| e.to_string())?;
            Ok((verifies, direct, via))
        });
        o.calls(5);
        let ok = matches!(r, Ok(Ok((true, true, true))));
        o.outcome(if ok { "equal-values:opens" } else { "equal-values:fails" });
        o.expect(&format!("C12:equal-valued-shares:{}:{}", C::G, s.name()), ok, "shares verify; both routes return the message", &format!("{:?}", r));
    }
}
const NAMED: [Named; 7] = [Named::FirstT, Named::LastT, Named::FirstTReversed, Named::FirstTMinus1, Named::All, Named::Strided, Named::AllPlusDuplicate];

#[derive(Clone, Debug, PartialEq, Eq, Hash, Serialize, Deserialize)]
pub struct BigSt {
    inst: usize,
    named: Option<Named>,
}

pub struct M12Big<C: Suite> {
    insts: Vec<Inst<C>>,
}

impl<C: Suite> M12Big<C> {
    pub fn new(_tier: Tier, seed: u64) -> Self {
        let mut insts = vec![];
        // thresholds beyond the block sizes of fixed scratch buffers (32, 64, 128) and at the identifier limit
        for (si, (t, n)) in [(65usize, 70usize), (65, 65), (33, 40), (129, 200), (2, 255), (255, 255), (9, 10), (17, 20), (50, 64), (64, 64), (100, 128), (199, 200)].into_iter().enumerate() {
            let s = SCHEMES[si % 3];
            let sk = SecretKey::<C>::from_hash(format!("c12-big-{}-{}", t, n));
            let shares = sk.split_with_rng(t, n, rand_chacha::ChaCha20Rng::from_seed(data32(seed, &format!("c12-big-split-{}-{}", t, n)))).unwrap();
            let pks = shares.iter().map(|x| x.public_key().unwrap()).collect();
            let msg = msg_of(seed, 40, 3);
            let ent = entropy_stream(seed, &format!("c12-big-{}-{}", t, n), 2);
            let pk = sk.public_key();
            let (ct, ct2) = with_env(ent, None, || (pk.sign_crypt(lib_scheme(s), &msg), pk.sign_crypt(lib_scheme(s), &msg))).unwrap();
            let ds = shares.iter().map(|x| ct.create_decryption_share(x).unwrap()).collect();
            insts.push(Inst { s, t, n, msg, shares, pks, ct, ct2, ds, ds2: vec![] });
        }
        M12Big { insts }
    }
}

impl<C: Suite> Model for M12Big<C> {
    type State = BigSt;
    type Action = Named;
    fn name(&self) -> String {
        format!("c12-threshold-signcrypt-large/{}", C::G)
    }
    fn init(&self) -> Vec<BigSt> {
        (0..self.insts.len()).map(|i| BigSt { inst: i, named: None }).collect()
    }
    fn actions(&self, st: &BigSt) -> Vec<Named> {
        if st.named.is_some() {
            vec![]
        } else {
            NAMED.to_vec()
        }
    }
    fn step(&self, st: &BigSt, a: &Named) -> Option<BigSt> {
        Some(BigSt { inst: st.inst, named: Some(*a) })
    }
    fn describe(&self, st: &BigSt) -> String {
        let it = &self.insts[st.inst];
        format!("{} ciphertext scheme {} ({},{}) decryption shares {:?}: decrypt_with_shares / SignCryptDecryptionKey::from_shares", C::G, it.s.name(), it.t, it.n, st.named)
    }
    fn required_outcomes(&self) -> Vec<String> {
        vec!["large:qualified:message".into(), "large:below-threshold:not-the-message".into(), "large:duplicate:refused".into()]
    }
    fn check(&self, st: &BigSt, o: &mut Obs) {
        let Some(named) = st.named else {
            // root: every participant's share verifies against its own key share and not against its neighbour's
            let it = &self.insts[st.inst];
            o.nontrivial = true;
            for i in [0usize, it.t - 1, it.n - 1] {
                let v = guard(|| it.ds[i].verify(&it.pks[i], &it.ct));
                o.expect(&format!("C12:large:share-verify-own:{}", C::G), matches!(v, Ok(Ok(()))), "accept", verdict(&v));
                let v = guard(|| it.ds[i].verify(&it.pks[(i + 1) % it.n], &it.ct));
                o.expect(&format!("C12:large:share-verify-other-key:{}", C::G), matches!(v, Ok(Err(_))), "reject", verdict(&v));
                let v = guard(|| it.ds[i].verify(&it.pks[i], &it.ct2));
                o.expect(&format!("C12:large:share-verify-other-ciphertext:{}", C::G), matches!(v, Ok(Err(_))), "reject", verdict(&v));
            }
            o.calls(9);
            return;
        };
        o.nontrivial = true;
        let it = &self.insts[st.inst];
        let (t, n) = (it.t, it.n);
        let ds: Vec<SignDecryptionShare<C>> = match named {
            Named::FirstT => it.ds[..t].to_vec(),
            Named::LastT => it.ds[n - t..].to_vec(),
            Named::FirstTReversed => it.ds[..t].iter().rev().cloned().collect(),
            Named::FirstTMinus1 => it.ds[..t - 1].to_vec(),
            Named::All => it.ds.clone(),
            Named::Strided => {
                let mut idx: Vec<usize> = (0..n).step_by(2).collect();
                let mut back = n;
                while idx.len() < t {
                    back -= 1;
                    if !idx.contains(&back) {
                        idx.push(back);
                    }
                }
                idx.truncate(t.max(2));
                idx.iter().map(|i| it.ds[*i].clone()).collect()
            }
            Named::AllPlusDuplicate => {
                let mut v = it.ds.clone();
                v.push(it.ds[0].clone());
                v
            }
        };
        let direct = guard(|| Option::<Vec<u8>>::from(it.ct.decrypt_with_shares(&ds)));
        let viakey = guard(|| SignCryptDecryptionKey::<C>::from_shares(&ds).map(|key| Option::<Vec<u8>>::from(key.decrypt(&it.ct))));
        o.calls(2);
        let (direct, viakey) = match (direct, viakey) {
            (Ok(a), Ok(b)) => (a, b),
            (a, b) => {
                o.expect(&format!("C12:large:panic:{}:{:?}", C::G, named), false, "returns", &format!("{:?}/{:?}", a.err(), b.err()));
                return;
            }
        };
        let via_msg: Option<Vec<u8>> = viakey.as_ref().ok().cloned().flatten();
        let got_direct = direct.as_ref() == Some(&it.msg);
        let got_via = via_msg.as_ref() == Some(&it.msg);
        let key = |what: &str| format!("C12:large:{}:{}:t{}n{}:{:?}", what, C::G, t, n, named);
        match named {
            Named::FirstTMinus1 => {
                o.outcome(if !got_direct && !got_via { "large:below-threshold:not-the-message" } else { "large:below-threshold:the-message" });
                o.expect(&key("below-threshold"), !got_direct && !got_via, "never the original message", "the message");
            }
            Named::AllPlusDuplicate => {
                o.outcome(if viakey.is_err() { "large:duplicate:refused" } else { "large:duplicate:accepted" });
                o.expect(&key("duplicate-behind-a-complete-set"), viakey.is_err(), "from_shares is Err", "Ok");
            }
            _ => {
                o.outcome(if got_direct && got_via { "large:qualified:message" } else { "large:qualified:wrong" });
                o.expect(&key("decrypt-with-shares-qualified"), got_direct, "the original message", &format!("{:?}", direct.as_ref().map(|m| m.len())));
                o.expect(&key("combined-key-decrypt-qualified"), got_via, "the original message", &format!("{:?}", via_msg.as_ref().map(|m| m.len())));
            }
        }
    }
}

// ---- free running: two ciphertexts sealed by two freshly started threads ------------------------------------
//
// Not an enumeration: real entropy, no seam. Each thread's first library call seals a different message to the same
// split key; a share made for one ciphertext must not verify against the other, and must not open it.

pub struct M12Free<C: Suite> {
    _c: PhantomData<C>,
}

impl<C: Suite> Model for M12Free<C> {
    type State = Option<Scheme>;
    type Action = Scheme;
    fn name(&self) -> String {
        format!("c12-two-threads-free-running/{}", C::G)
    }
    fn init(&self) -> Vec<Option<Scheme>> {
        vec![None]
    }
    fn actions(&self, st: &Option<Scheme>) -> Vec<Scheme> {
        if st.is_some() {
            vec![]
        } else {
            SCHEMES.to_vec()
        }
    }
    fn step(&self, _s: &Option<Scheme>, a: &Scheme) -> Option<Option<Scheme>> {
        Some(Some(*a))
    }
    fn describe(&self, st: &Option<Scheme>) -> String {
        format!("{} free running (real entropy, a sample): two new threads seal different messages under {:?} to one split key; shares across the two ciphertexts", C::G, st)
    }
    fn required_outcomes(&self) -> Vec<String> {
        vec!["two-threads:shares-bound-to-their-ciphertext".into()]
    }
    fn check(&self, st: &Option<Scheme>, o: &mut Obs) {
        let Some(s) = st else { return };
        o.nontrivial = true;
        let g = C::G;
        let sk = SecretKey::<C>::from_hash(b"c12 two threads");
        let pk = sk.public_key();
        let shares = sk.split_with_rng(2, 3, rand_chacha::ChaCha20Rng::from_seed([12u8; 32])).unwrap();
        let ls = lib_scheme(*s);
        let seal = move |m: &'static [u8]| std::thread::spawn(move || pk.sign_crypt(ls, m)).join();
        let (Ok(a), Ok(b)) = (seal(b"message of the first thread"), seal(b"message of the second thread, another one")) else {
            o.expect(&format!("C12:two-threads:{}:seal-panics", g), false, "returns", "PANIC");
            return;
        };
        o.calls(2);
        o.expect(&format!("C12:two-threads:{}:{}:distinct-ephemeral", g, s.name()), a.u != b.u, "different u", "the same u from two threads");
        let mut bound = true;
        let mut ds = vec![];
        for sh in &shares[..2] {
            let d = a.create_decryption_share(sh).unwrap();
            let pks = sh.public_key().unwrap();
            bound &= d.verify(&pks, &a).is_ok() && d.verify(&pks, &b).is_err();
            ds.push(d);
        }
        o.expect(&format!("C12:two-threads:{}:{}:share-verifies-only-for-its-ciphertext", g, s.name()), bound, "own: accept, other thread's ciphertext: reject", "accepted for the other ciphertext (or rejected for its own)");
        let cross = Option::<Vec<u8>>::from(b.decrypt_with_shares(&ds));
        let own = Option::<Vec<u8>>::from(a.decrypt_with_shares(&ds));
        let ok = own.as_deref() == Some(b"message of the first thread".as_slice()) && cross.as_deref() != Some(b"message of the second thread, another one".as_slice());
        o.expect(&format!("C12:two-threads:{}:{}:shares-open-only-their-ciphertext", g, s.name()), ok, "own message; not the other thread's", "the other thread's message (or not the own)");
        o.outcome(if bound && ok && a.u != b.u { "two-threads:shares-bound-to-their-ciphertext" } else { "two-threads:shares-cross" });
    }
}

fn depth_of<C: Suite>(_m: &M12<C>, s: &St) -> usize {
    s.seq.len() + s.fault.is_some() as usize
}

pub fn models(tier: Tier, seed: u64) -> Vec<Box<dyn DynModel>> {
    let mut v = vec![
        bounded_cross(M12::<Bls12381G1Impl>::new(Tier::Quick, seed), 10, depth_of::<Bls12381G1Impl>),
        bounded_cross(M12::<Bls12381G2Impl>::new(Tier::Quick, seed), 10, depth_of::<Bls12381G2Impl>),
    ];
    if tier.thorough() {
        v.push(bounded(M12::<Bls12381G1Impl>::new(tier, seed), 10));
        v.push(bounded(M12::<Bls12381G2Impl>::new(tier, seed), 10));
    }
    v.push(bounded(M12Equal::<Bls12381G1Impl> { _c: PhantomData }, 1));
    v.push(bounded(M12Equal::<Bls12381G2Impl> { _c: PhantomData }, 1));
    v.push(bounded(M12Free::<Bls12381G1Impl> { _c: PhantomData }, 1));
    v.push(bounded(M12Free::<Bls12381G2Impl> { _c: PhantomData }, 1));
    v.push(bounded(M12Big::<Bls12381G1Impl>::new(tier, seed), 1));
    v.push(bounded(M12Big::<Bls12381G2Impl>::new(tier, seed), 1));
    v.extend(crate::props::tsurf::models("C12", tier, seed));
    v
}

pub fn describe(tier: Tier, r: &mut Report) {
    r.rule = "share-collection machine over signcryption decryption shares per (group, ciphertext scheme in all three, (t,n)): every subset of shares (ascending) plus one fault (duplicate, zero identifier, share made for another ciphertext, transport through a codec, reverse order); every state decrypts directly and through a combined decryption key and compares with the message, the threshold rule and an independent interpolation + reference open; the root state checks the full share x key-share x ciphertext verification matrix against the property's table and the reference pairing equation".into();
    r.deviation_bound_completed = "1 fault on every collected set".into();
    r.alphabet.insert("grid".into(), serde_json::json!(grid(tier)));
    r.assumptions = vec!["'fewer than t shares never return the original message' is observed on the enumerated subsets (such a call may legitimately return Some(other bytes)) and judged for messages of at least 8 bytes: a wrong key yields some plaintext, which equals an L byte original with probability 2^-8(L+1) by the framing alone (seen once for the empty message while building this check: a false alarm of the oracle, not of the library)".into()];
}
