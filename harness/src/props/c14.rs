//! C14 - ElGamal: correct, additively homomorphic, proofs bind ciphertext and key.
use crate::common::*;
use crate::engine::*;
use crate::refmodel::{self as rf, RefSuite};
use blsful::vsss_rs::Share;
use blsful::*;
use rand_core::SeedableRng;
use serde::{Deserialize, Serialize};
use std::marker::PhantomData;

#[derive(Copy, Clone, Debug, PartialEq, Eq, Hash, Serialize, Deserialize)]
pub enum PDev {
    C1AddG,
    C1Identity,
    C2AddG,
    C2Identity,
    SwapC1C2,
    MpPlus1,
    MpZero,
    BpPlus1,
    BpZero,
    ChPlus1,
    ChZero,
    SwapMpBp,
    SwapMpCh,
    SwapBpCh,
    PkOther,
    PkIdentity,
    WrongSk,
    Transport(Codec),
}

#[derive(Clone, Debug, PartialEq, Eq, Hash, Serialize, Deserialize)]
pub enum St {
    /// encrypt plaintext m to recipient k; decrypt
    Enc { k: usize, m: usize, transport: Option<Codec> },
    /// sum of the first `n` ciphertexts (prefix sums) via the Add/AddAssign impl #`via`
    Sum { k: usize, n: usize, via: usize },
    /// three ciphertexts with blinders b, -b, d sealed through the trait function, summed through impl #`via`
    /// in the order given by `order` (0: (a+b)+c, 1: a+(b+c), 2: (a+c)+b)
    Cancel { k: usize, via: usize, order: u8 },
    /// pair sum c_i + c_j
    Pair { k: usize, i: usize, j: usize },
    /// the SAME ciphertext object on both sides of the operator, `doublings` times in a row (a double-and-add ladder),
    /// through impl #`via`
    SelfAdd { k: usize, m: usize, via: usize, doublings: usize },
    /// decryption key recombined from shares (split #i, subset mask)
    Shares { k: usize, m: usize, split: usize, mask: u32, fault: Option<u8> },
    /// large splittings (t, n) = BIG[tn] with a named subset: 0 first t, 1 last t, 2 all, 3 first t - 1, 4 all + a duplicate
    SharesBig { k: usize, m: usize, tn: usize, named: u8 },
    /// decryption shares of a 3-of-5 sharing in which participants 1 and 2 hold equal values (subset index)
    SharesEqual { k: usize, m: usize, subset: usize },
    /// proof with one deviation
    Proof { k: usize, m: usize, dev: Option<PDev> },
}

#[derive(Clone, Debug, PartialEq)]
pub enum Act {
    Transport(Codec),
    AddNext,
    Via(usize),
    PDev(PDev),
    AddShare(u32),
    Fault(u8),
}

pub struct M14<C: Suite> {
    seed: u64,
    sks: Vec<SecretKey<C>>,
    plains: Vec<SecretKey<C>>,
    splits: Vec<(usize, usize)>,
    _c: PhantomData<C>,
}

const NSUM: usize = 16;

const EQ_SUBSETS: [&[u8]; 7] = [&[1, 2, 3], &[1, 2, 4], &[2, 1, 5], &[5, 2, 1], &[1, 2, 3, 4, 5], &[3, 4, 5], &[1, 3, 5]];

/// thresholds beyond fixed buffer sizes and at the one byte identifier limit
const BIG: [(usize, usize); 10] = [(65, 70), (200, 255), (255, 255), (2, 255), (9, 10), (17, 20), (34, 40), (64, 64), (100, 128), (130, 199)];

impl<C: Suite> M14<C> {
    pub fn new(_tier: Tier, seed: u64) -> Self {
        let ka = key_alphabet(seed, true);
        // recipients: two derived keys, a third party, and the edge keys 1, 2, r-1 (proofs and round trips only)
        let sks = [8usize, 10, 9, 0, 1, 7].iter().map(|i| sk_from_be::<C>(&ka.be[*i]).unwrap()).collect();
        // plaintext scalars: 1, 2, r-1, from_hash("m"), from_hash(seed)
        let mut plains: Vec<SecretKey<C>> = [0usize, 1, 7].iter().map(|i| sk_from_be::<C>(&ka.be[*i]).unwrap()).collect();
        plains.push(SecretKey::<C>::from_hash(b"m"));
        plains.push(SecretKey::<C>::from_hash(data(seed, "c14-plain", 32)));
        for i in 0..NSUM {
            plains.push(SecretKey::<C>::from_hash(format!("c14-sum-{}", i)));
        }
        M14 { seed, sks, plains, splits: vec![(2, 3), (3, 5)], _c: PhantomData }
    }
    fn enc(&self, k: usize, m: usize) -> ElGamalCiphertext<C> {
        let ent = entropy_stream(self.seed, &format!("c14-enc-{}-{}", k, m), 1);
        with_env(ent, None, || self.sks[k].public_key().encrypt_key_el_gamal(&self.plains[m])).unwrap().expect("encrypt_key_el_gamal")
    }
    fn proof(&self, k: usize, m: usize) -> ElGamalProof<C> {
        let ent = entropy_stream(self.seed, &format!("c14-proof-{}-{}", k, m), 1);
        with_env(ent, None, || self.sks[k].public_key().encrypt_key_el_gamal_with_proof(&self.plains[m])).unwrap().expect("with_proof")
    }
    /// reference: plaintext scalar times the reference message generator, compressed
    fn ref_point(&self, ms: &[usize]) -> Vec<u8> {
        let mut s = rf::RScalar::from(0u64);
        for m in ms {
            s += rf::scalar_from_be(&self.plains[*m].to_be_bytes()).unwrap();
        }
        rf::enc(&(rf::elgamal_generator::<C::R>() * s))
    }
}

impl<C: Suite> Model for M14<C> {
    type State = St;
    type Action = Act;
    fn name(&self) -> String {
        format!("c14-elgamal/{}", C::G)
    }
    fn init(&self) -> Vec<St> {
        let mut v = vec![];
        for k in [3usize, 4, 5] {
            for m in 0..5 {
                v.push(St::Enc { k, m, transport: None });
                v.push(St::Proof { k, m, dev: None });
            }
        }
        for k in 0..2 {
            for m in 0..5 {
                v.push(St::Enc { k, m, transport: None });
                v.push(St::Proof { k, m, dev: None });
            }
            v.push(St::Sum { k, n: 1, via: 0 });
            for via in 0..6 {
                for order in 0..3u8 {
                    v.push(St::Cancel { k, via, order });
                }
            }
            for i in 0..NSUM {
                for j in i + 1..NSUM {
                    v.push(St::Pair { k, i, j });
                    if i == 0 && j < 3 {
                        for via in 0..6 {
                            v.push(St::SelfAdd { k, m: 5 + j, via, doublings: j + 1 });
                        }
                    }
                }
            }
            for subset in 0..EQ_SUBSETS.len() {
                v.push(St::SharesEqual { k, m: 3, subset });
            }
            if k == 0 {
                for tn in 0..BIG.len() {
                    for named in 0..5u8 {
                        v.push(St::SharesBig { k, m: 3, tn, named });
                    }
                }
            }
            for split in 0..self.splits.len() {
                v.push(St::Shares { k, m: 3, split, mask: 0, fault: None });
            }
        }
        v
    }
    fn actions(&self, st: &St) -> Vec<Act> {
        match st {
            St::Enc { transport: None, .. } => vec![Act::Transport(Codec::Bytes), Act::Transport(Codec::Bare), Act::Transport(Codec::Json)],
            St::Sum { n, via: 0, .. } => {
                let mut a = vec![];
                if *n < NSUM {
                    a.push(Act::AddNext);
                }
                if *n >= 2 {
                    for v in 1..6 {
                        a.push(Act::Via(v));
                    }
                }
                a
            }
            St::Shares { split, mask, fault: None, .. } => {
                let (_, n) = self.splits[*split];
                let hi = 32 - mask.leading_zeros();
                let mut a: Vec<Act> = (hi..n as u32).map(|b| Act::AddShare(1 << b)).collect();
                if mask.count_ones() >= 1 {
                    a.push(Act::Fault(0));
                    a.push(Act::Fault(1));
                }
                if mask.count_ones() >= 2 {
                    // order of presentation: reversed, rotated
                    a.push(Act::Fault(2));
                    a.push(Act::Fault(3));
                }
                a
            }
            St::Proof { dev: None, k, .. } if *k < 2 => {
                use PDev::*;
                let mut a: Vec<Act> = [C1AddG, C1Identity, C2AddG, C2Identity, SwapC1C2, MpPlus1, MpZero, BpPlus1, BpZero, ChPlus1, ChZero, SwapMpBp, SwapMpCh, SwapBpCh, PkOther, PkIdentity, WrongSk].iter().map(|d| Act::PDev(*d)).collect();
                for c in [Codec::Bytes, Codec::Bare, Codec::Json] {
                    a.push(Act::PDev(Transport(c)));
                }
                a
            }
            _ => vec![],
        }
    }
    fn step(&self, st: &St, a: &Act) -> Option<St> {
        Some(match (st, a) {
            (St::Enc { k, m, .. }, Act::Transport(c)) => St::Enc { k: *k, m: *m, transport: Some(*c) },
            (St::Sum { k, n, .. }, Act::AddNext) => St::Sum { k: *k, n: n + 1, via: 0 },
            (St::Sum { k, n, .. }, Act::Via(v)) => St::Sum { k: *k, n: *n, via: *v },
            (St::Shares { k, m, split, mask, .. }, Act::AddShare(b)) => St::Shares { k: *k, m: *m, split: *split, mask: mask | b, fault: None },
            (St::Shares { k, m, split, mask, .. }, Act::Fault(f)) => St::Shares { k: *k, m: *m, split: *split, mask: *mask, fault: Some(*f) },
            (St::Proof { k, m, .. }, Act::PDev(d)) => St::Proof { k: *k, m: *m, dev: Some(*d) },
            _ => return None,
        })
    }
    fn describe(&self, st: &St) -> String {
        format!("{} {:?}", C::G, st)
    }
    fn required_outcomes(&self) -> Vec<String> {
        vec!["decrypt:m*H".into(), "sum:homomorphic".into(), "shares-qualified:m*H".into(), "shares-unqualified:other".into(), "proof-honest:ok".into(), "proof-deviated:err".into()]
    }
    fn check(&self, st: &St, o: &mut Obs) {
        let g = C::G;
        o.nontrivial = true;
        match st {
            St::Enc { k, m, transport } => {
                let mut ct = self.enc(*k, *m);
                if transport.is_none() {
                    expect_ct_move(o, "C14", &format!("ElGamalCiphertext<{}>", g), &ct, &(ct + ct));
                }
                if let Some(c) = transport {
                    let r: Result<ElGamalCiphertext<C>, String> = match c {
                        Codec::Bytes => ElGamalCiphertext::<C>::try_from(Vec::<u8>::from(&ct).as_slice()).map_err(|e| e.to_string()),
                        Codec::Bare => via_bare(&ct),
                        _ => via_json(&ct),
                    };
                    match r {
                        Ok(x) => {
                            o.expect(&format!("C14:ciphertext-transport-equal:{}:{:?}", g, c), x == ct, "equal", "differs");
                            ct = x;
                        }
                        Err(e) => {
                            o.expect(&format!("C14:ciphertext-transport:{}:{:?}", g, c), false, "Ok", &e);
                            return;
                        }
                    }
                }
                let d = guard(|| ct.decrypt(&self.sks[*k]));
                o.calls(2);
                let ok = matches!(&d, Ok(p) if pt(p) == self.ref_point(&[*m]));
                o.outcome(if ok { "decrypt:m*H" } else { "decrypt:wrong" });
                o.expect(&format!("C14:decrypt:{}", g), ok, "plaintext scalar times the reference message generator", "differs");
                // the library's generator equals the reference generator
                let gen = <C as BlsElGamal>::message_generator();
                o.expect(&format!("C14:message-generator:{}", g), pt(&gen) == rf::enc(&rf::elgamal_generator::<C::R>()), "reference generator", "differs");
                // trait level routes: seal_scalar with explicit generator and blinder equals the textbook formula computed
                // by the reference; seal_point encrypts a point that decrypts to itself
                {
                    use rand_core::SeedableRng;
                    let rng = || rand_chacha::ChaCha20Rng::from_seed([11u8; 32]);
                    let pk = self.sks[*k].public_key();
                    let b = self.plains[4].0;
                    let rb = rf::scalar_from_be(&self.plains[4].to_be_bytes()).unwrap();
                    let rm = rf::scalar_from_be(&self.plains[*m].to_be_bytes()).unwrap();
                    let rpk = <C::R as RefSuite>::pk_from(&Vec::<u8>::from(&pk)).unwrap();
                    let rgen = <C::R as RefSuite>::hash_to_pk(b"c14 custom generator", <C::R as RefSuite>::DST_ELGAMAL);
                    let gen = pt_from::<PkP<C>>(&rf::enc(&rgen)).unwrap();
                    let want_c1 = rf::enc(&(<<C::R as RefSuite>::Pk as bls12_381_plus::group::Group>::generator() * rb));
                    let want_c2 = rf::enc(&(rpk * rb + rgen * rm));
                    let r = guard(|| <C as BlsElGamal>::seal_scalar(pk.0, self.plains[*m].0, Some(gen), Some(b), rng()));
                    o.expect(&format!("C14:trait-seal_scalar-formula:{}", g), matches!(&r, Ok(Ok((c1, c2))) if pt(c1) == want_c1 && pt(c2) == want_c2), "c1 = G*b, c2 = pk*b + gen*m", verdict(&r));
                    let point = gen + gen;
                    let r2 = guard(|| <C as BlsElGamal>::seal_point(pk.0, point, Some(b), rng()));
                    let ok = matches!(&r2, Ok(Ok((c1, c2))) if <C as BlsElGamal>::decrypt(self.sks[*k].0, *c1, *c2) == point && pt(c1) == want_c1);
                    o.expect(&format!("C14:trait-seal_point-roundtrip:{}", g), ok, "decrypts to the sealed point", verdict(&r2));
                    let r3 = guard(|| <C as BlsElGamal>::seal_point(pk.0, point, None, rng()));
                    let ok3 = matches!(&r3, Ok(Ok((c1, c2))) if <C as BlsElGamal>::decrypt(self.sks[*k].0, *c1, *c2) == point);
                    o.expect(&format!("C14:trait-seal_point-roundtrip-fresh-blinder:{}", g), ok3, "decrypts to the sealed point", verdict(&r3));
                    o.calls(3);
                }
                // a different key does not decrypt to m*H
                let d2 = ct.decrypt(&self.sks[2]);
                o.expect(&format!("C14:decrypt-wrong-key:{}", g), pt(&d2) != self.ref_point(&[*m]), "a different point", "the plaintext point");
            }
            St::Sum { k, n, via } => {
                let cts: Vec<ElGamalCiphertext<C>> = (0..*n).map(|i| self.enc(*k, 5 + i)).collect();
                let mut acc = cts[0];
                for c in cts.iter().skip(1) {
                    match via {
                        0 => acc = acc + *c,
                        1 => acc = &acc + c,
                        2 => acc = acc + c,
                        3 => acc = &acc + *c,
                        4 => acc += *c,
                        _ => acc += c,
                    }
                }
                o.calls(*n as u64);
                let d = acc.decrypt(&self.sks[*k]);
                let ms: Vec<usize> = (0..*n).map(|i| 5 + i).collect();
                let ok = pt(&d) == self.ref_point(&ms);
                o.outcome(if ok { "sum:homomorphic" } else { "sum:wrong" });
                o.expect(&format!("C14:sum-decrypts-to-sum:{}:impl{}", g, via), ok, "sum of plaintexts times the generator", "differs");
            }
            St::Cancel { k, via, order } => {
                use rand_core::SeedableRng;
                let pk = self.sks[*k].public_key();
                let b = self.plains[4].0;
                let d = self.plains[3].0;
                let blinders = [b, -b, d];
                let ms = [5usize, 6, 7];
                let mut cts = vec![];
                for (m, bl) in ms.iter().zip(blinders) {
                    let r = <C as BlsElGamal>::seal_scalar(pk.0, self.plains[*m].0, None, Some(bl), rand_chacha::ChaCha20Rng::from_seed([14u8; 32]));
                    match r {
                        Ok((c1, c2)) => cts.push(ElGamalCiphertext::<C> { c1, c2 }),
                        Err(e) => {
                            o.expect(&format!("C14:seal-with-chosen-blinder:{}", g), false, "Ok", &e.to_string());
                            return;
                        }
                    }
                }
                let add = |x: ElGamalCiphertext<C>, y: ElGamalCiphertext<C>| -> ElGamalCiphertext<C> {
                    let mut acc = x;
                    match via {
                        0 => acc = acc + y,
                        1 => acc = &acc + &y,
                        2 => acc = acc + &y,
                        3 => acc = &acc + y,
                        4 => acc += y,
                        _ => acc += &y,
                    }
                    acc
                };
                let (x, y, z) = (cts[0], cts[1], cts[2]);
                let sum = match order {
                    0 => add(add(x, y), z),
                    1 => add(x, add(y, z)),
                    _ => add(add(x, z), y),
                };
                o.calls(5);
                let ok = pt(&sum.decrypt(&self.sks[*k])) == self.ref_point(&ms);
                o.outcome(if ok { "sum:homomorphic" } else { "sum:wrong" });
                o.expect(&format!("C14:sum-with-cancelling-blinders:{}:impl{}:order{}", g, via, order), ok, "sum of plaintexts times the generator", "differs");
            }
            St::SelfAdd { k, m, via, doublings } => {
                let mut acc = self.enc(*k, *m);
                for _ in 0..*doublings {
                    match via {
                        0 => acc = acc + acc,
                        1 => acc = &acc + &acc,
                        2 => acc = acc + &acc,
                        3 => acc = &acc + acc,
                        4 => {
                            let y = acc;
                            acc += y;
                        }
                        _ => {
                            let y = acc;
                            acc += &y;
                        }
                    }
                }
                o.calls(*doublings as u64);
                let ms: Vec<usize> = vec![*m; 1 << *doublings];
                let ok = pt(&acc.decrypt(&self.sks[*k])) == self.ref_point(&ms);
                o.outcome(if ok { "sum:homomorphic" } else { "sum:wrong" });
                o.expect(&format!("C14:ciphertext-added-to-itself:{}:impl{}", g, via), ok, "2^d times the plaintext times the generator", "differs");
            }
            St::Pair { k, i, j } => {
                let a = self.enc(*k, 5 + i);
                let b = self.enc(*k, 5 + j);
                let d = (a + b).decrypt(&self.sks[*k]);
                o.calls(3);
                let ok = pt(&d) == self.ref_point(&[5 + i, 5 + j]);
                o.outcome(if ok { "sum:homomorphic" } else { "sum:wrong" });
                o.expect(&format!("C14:pair-sum:{}", g), ok, "sum of plaintexts times the generator", "differs");
                // component-wise: c1 with c1 and c2 with c2
                let s = a + b;
                o.expect(&format!("C14:sum-componentwise:{}", g), s.c1 == a.c1 + b.c1 && s.c2 == a.c2 + b.c2, "component-wise", "mixed");
            }
            St::Shares { k, m, split, mask, fault } => {
                let (t, n) = self.splits[*split];
                let ct = self.enc(*k, *m);
                let shares = self.sks[*k].split_with_rng(t, n, rand_chacha::ChaCha20Rng::from_seed(data32(self.seed, &format!("c14-split-{}", split)))).unwrap();
                let mut ds: Vec<ElGamalDecryptionShare<C>> = shares
                    .iter()
                    .enumerate()
                    .filter(|(i, _)| mask & (1 << i) != 0)
                    .map(|(_, s)| ElGamalDecryptionShare(<C as BlsSignatureCore>::public_key_share_with_generator(&s.0, ct.c1).unwrap()))
                    .collect();
                let cnt = ds.len();
                let reorder = matches!(fault, Some(2) | Some(3));
                match fault {
                    Some(0) => ds.push(ds[0].clone()),
                    Some(1) => *ds[0].0.identifier_mut() = 0,
                    Some(2) => ds.reverse(),
                    Some(_) => ds.rotate_left(1),
                    None => {}
                }
                let fault = if reorder { &None } else { fault };
                let r = guard(|| ElGamalDecryptionKey::<C>::from_shares(&ds));
                o.calls(2);
                if r.is_err() {
                    o.expect(&format!("C14:from-shares-panics:{}", g), false, "returns", verdict(&r));
                    return;
                }
                let r = r.unwrap();
                if fault.is_some() {
                    o.outcome(if r.is_err() { "shares-fault:err" } else { "shares-fault:ok" });
                    o.expect(&format!("C14:faulty-share-set:{}:{}", g, if *fault == Some(0) { "duplicate" } else { "zero-id" }), r.is_err(), "Err", "Ok");
                    return;
                }
                let want = self.ref_point(&[*m]);
                match r {
                    Ok(key) => {
                        let d = key.decrypt(&ct);
                        let is = pt(&d) == want;
                        if cnt >= t {
                            o.outcome(if is { "shares-qualified:m*H" } else { "shares-qualified:wrong" });
                            o.expect(&format!("C14:decryption-key-from-shares:{}:qualified", g), is, "m times the generator", "differs");
                        } else {
                            o.outcome(if is { "shares-unqualified:m*H" } else { "shares-unqualified:other" });
                            o.expect(&format!("C14:decryption-key-from-shares:{}:below-threshold", g), !is, "a different point", "the plaintext point");
                        }
                        // transports of the key
                        let kb = ElGamalDecryptionKey::<C>::try_from(Vec::<u8>::from(&key).as_slice());
                        o.expect(&format!("C14:decryption-key-transport:{}", g), matches!(&kb, Ok(x) if *x == key), "round trip", "differs");
                    }
                    Err(_) => {
                        o.outcome("shares-too-few:err");
                        o.expect(&format!("C14:decryption-key-from-shares:{}:count={}", g, cnt.min(2)), cnt < 2, "Ok for two or more distinct shares", "Err");
                    }
                }
            }
            St::SharesEqual { k, m, subset } => {
                let ct = self.enc(*k, *m);
                let all = shares_with_equal_values::<C>(&self.sks[*k], 5);
                let ds: Vec<ElGamalDecryptionShare<C>> =
                    EQ_SUBSETS[*subset].iter().map(|i| ElGamalDecryptionShare(<C as BlsSignatureCore>::public_key_share_with_generator(&all[*i as usize - 1].0, ct.c1).unwrap())).collect();
                let r = guard(|| ElGamalDecryptionKey::<C>::from_shares(&ds).map(|k| pt(&k.decrypt(&ct))));
                o.calls(2);
                let want = self.ref_point(&[*m]);
                let ok = matches!(&r, Ok(Ok(x)) if *x == want);
                o.outcome(if ok { "shares-qualified:m*H" } else { "shares-qualified:wrong" });
                o.expect(&format!("C14:decryption-key-from-equal-valued-shares:{}", g), ok, "m times the generator", &format!("{:?}", r.map(|x| x.map(|_| "another point").map_err(|e| e.to_string()))));
            }
            St::SharesBig { k, m, tn, named } => {
                let (t, n) = BIG[*tn];
                let ct = self.enc(*k, *m);
                let shares = self.sks[*k].split_with_rng(t, n, rand_chacha::ChaCha20Rng::from_seed(data32(self.seed, &format!("c14-big-split-{}", tn)))).unwrap();
                let all: Vec<ElGamalDecryptionShare<C>> = shares.iter().map(|s| ElGamalDecryptionShare(<C as BlsSignatureCore>::public_key_share_with_generator(&s.0, ct.c1).unwrap())).collect();
                let ds: Vec<ElGamalDecryptionShare<C>> = match named {
                    0 => all[..t].to_vec(),
                    1 => all[n - t..].to_vec(),
                    2 => all.clone(),
                    3 => all[..t - 1].to_vec(),
                    _ => {
                        let mut v = all.clone();
                        v.push(all[0].clone());
                        v
                    }
                };
                let r = guard(|| ElGamalDecryptionKey::<C>::from_shares(&ds));
                o.calls(2);
                let want = self.ref_point(&[*m]);
                let cls = ["first-t", "last-t", "all", "first-t-minus-1", "all-plus-duplicate"][*named as usize];
                let key = format!("C14:decryption-key-from-shares-large:{}:t{}n{}:{}", g, t, n, cls);
                match (named, r) {
                    (_, Err(p)) => o.expect(&format!("{}:panic", key), false, "returns", &p),
                    (4, Ok(r)) => {
                        o.outcome(if r.is_err() { "shares-fault:err" } else { "shares-fault:ok" });
                        o.expect(&key, r.is_err(), "Err", "Ok");
                    }
                    (3, Ok(r)) => {
                        // one share fewer than the threshold: an error (t = 2) or a different point
                        let is = matches!(&r, Ok(k) if pt(&k.decrypt(&ct)) == want);
                        o.outcome(if is { "shares-unqualified:m*H" } else { "shares-unqualified:other" });
                        o.expect(&key, !is, "a different point or an error", "the plaintext point");
                    }
                    (_, Ok(r)) => {
                        let is = matches!(&r, Ok(k) if pt(&k.decrypt(&ct)) == want);
                        o.outcome(if is { "shares-qualified:m*H" } else { "shares-qualified:wrong" });
                        o.expect(&key, is, "m times the generator", if r.is_err() { "Err" } else { "differs" });
                    }
                }
            }
            St::Proof { k, m, dev } => {
                use PDev::*;
                let mut p = self.proof(*k, *m);
                let mut pk = self.sks[*k].public_key();
                let mut sk = self.sks[*k].clone();
                let one = Sc::<C>::ONE;
                let gen = PkP::<C>::generator();
                let mut relative = false;
                if let Some(d) = dev {
                    match d {
                        C1AddG => p.ciphertext.c1 += gen,
                        C1Identity => p.ciphertext.c1 = PkP::<C>::identity(),
                        C2AddG => p.ciphertext.c2 += gen,
                        C2Identity => p.ciphertext.c2 = PkP::<C>::identity(),
                        SwapC1C2 => std::mem::swap(&mut p.ciphertext.c1, &mut p.ciphertext.c2),
                        MpPlus1 => p.message_proof += one,
                        MpZero => p.message_proof = Sc::<C>::ZERO,
                        BpPlus1 => p.blinder_proof += one,
                        BpZero => p.blinder_proof = Sc::<C>::ZERO,
                        ChPlus1 => p.challenge += one,
                        ChZero => p.challenge = Sc::<C>::ZERO,
                        SwapMpBp => std::mem::swap(&mut p.message_proof, &mut p.blinder_proof),
                        SwapMpCh => std::mem::swap(&mut p.message_proof, &mut p.challenge),
                        SwapBpCh => std::mem::swap(&mut p.blinder_proof, &mut p.challenge),
                        PkOther => pk = self.sks[2].public_key(),
                        PkIdentity => pk = PublicKey(PkP::<C>::identity()),
                        WrongSk => sk = self.sks[2].clone(),
                        Transport(c) => {
                            let r: Result<ElGamalProof<C>, String> = match c {
                                Codec::Bytes => ElGamalProof::<C>::try_from(Vec::<u8>::from(&p).as_slice()).map_err(|e| e.to_string()),
                                Codec::Bare => via_bare(&p),
                                _ => via_json(&p),
                            };
                            match r {
                                Ok(x) => {
                                    o.expect(&format!("C14:proof-transport-equal:{}:{:?}", g, c), x == p, "equal", "differs");
                                    p = x;
                                }
                                Err(e) => {
                                    o.expect(&format!("C14:proof-transport:{}:{:?}", g, c), false, "Ok", &e);
                                    return;
                                }
                            }
                            relative = true;
                        }
                    }
                }
                let v = guard(|| p.verify(pk));
                let vd = guard(|| p.verify_and_decrypt(&sk));
                o.calls(3);
                let cls = dev.map(|d| format!("{:?}", d).split('(').next().unwrap().to_string()).unwrap_or("honest".into());
                if v.is_err() || vd.is_err() {
                    o.expect(&format!("C14:proof-panics:{}:{}", g, cls), false, "returns", &format!("{}/{}", verdict(&v), verdict(&vd)));
                    return;
                }
                let vok = matches!(v, Ok(Ok(())));
                let vdok = matches!(&vd, Ok(Ok(pnt)) if pt(pnt) == self.ref_point(&[*m]));
                let vd_is_ok = matches!(&vd, Ok(Ok(_)));
                let honest = dev.is_none() || relative;
                // which entry point does the deviation concern?
                let concerns_verify = !matches!(dev, Some(WrongSk));
                let concerns_vd = !matches!(dev, Some(PkOther) | Some(PkIdentity));
                if honest {
                    o.outcome(if vok && vdok { "proof-honest:ok" } else { "proof-honest:fails" });
                    o.expect(&format!("C14:proof-verify:{}:{}", g, cls), vok, "Ok", "Err");
                    o.expect(&format!("C14:proof-verify-and-decrypt:{}:{}", g, cls), vdok, "Ok(m times generator)", "Err or another point");
                } else {
                    let bad = (concerns_verify && vok) || (concerns_vd && vd_is_ok);
                    o.outcome(if bad { "proof-deviated:ok" } else { "proof-deviated:err" });
                    if concerns_verify {
                        o.expect(&format!("C14:proof-verify:{}:{}", g, cls), !vok, "Err", "Ok");
                    }
                    if concerns_vd {
                        o.expect(&format!("C14:proof-verify-and-decrypt:{}:{}", g, cls), !vd_is_ok, "Err", "Ok");
                    }
                }
                // reference verifier (own transcript) on the same values
                let dec = |x: &PkP<C>| <C::R as RefSuite>::pk_from(&pt(x));
                let sc = |x: &Sc<C>| rf::scalar_from_be(&sc_to_be::<C>(x));
                if let (Some(rpk), Some(c1), Some(c2), Some(mp), Some(bp), Some(ch)) = (dec(&pk.0), dec(&p.ciphertext.c1), dec(&p.ciphertext.c2), sc(&p.message_proof), sc(&p.blinder_proof), sc(&p.challenge)) {
                    let r = rf::elgamal_verify::<C::R>(&rpk, &c1, &c2, &mp, &bp, &ch);
                    o.expect(&format!("C14:proof-verify-vs-reference:{}:{}", g, cls), r == vok, if r { "accept" } else { "reject" }, verdict(&v));
                }
            }
        }
    }
}

fn depth_of<C: Suite>(_m: &M14<C>, s: &St) -> usize {
    match s {
        St::Enc { transport, .. } => transport.is_some() as usize,
        St::Sum { n, via, .. } => n - 1 + (*via != 0) as usize,
        St::Cancel { .. } => 0,
        St::Pair { .. } => 0,
        St::SelfAdd { .. } => 0,
        St::Shares { mask, fault, .. } => mask.count_ones() as usize + fault.is_some() as usize,
        St::SharesBig { .. } | St::SharesEqual { .. } => 0,
        St::Proof { dev, .. } => dev.is_some() as usize,
    }
}

pub fn models(tier: Tier, seed: u64) -> Vec<Box<dyn DynModel>> {
    vec![
        bounded_cross(M14::<Bls12381G1Impl>::new(tier, seed), 20, depth_of::<Bls12381G1Impl>),
        bounded_cross(M14::<Bls12381G2Impl>::new(tier, seed), 20, depth_of::<Bls12381G2Impl>),
    ]
}

pub fn describe(_tier: Tier, r: &mut Report) {
    r.rule = "initial states: encryptions of 5 plaintext scalars (1, 2, r-1, two hash derived) to 2 recipient keys, the prefix-sum chain (actions: add the next ciphertext up to 16 terms; redo the sum through each of the 6 Add/AddAssign impls), all 120 pair sums, the share-collection lattice of decryption shares for (2,3) and (3,5) (actions: add a share; duplicate / zero-id fault), and proofs (one action: each single-component deviation of c1, c2, message_proof, blinder_proof, challenge, pk, wrong sk, or a codec transport). Oracles: reference message generator and plaintext point; reference Fiat-Shamir transcript verifier; honest => Ok and the right point, every deviation => Err".into();
    r.deviation_bound_completed = "1 deviation per proof; 16-term sums; full share lattices".into();
}
