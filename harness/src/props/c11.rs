//! C11 - signcryption round-trips every message and rejects every altered ciphertext.
use crate::common::*;
use crate::engine::*;
use crate::refmodel::{self as rf, RefSuite, Scheme, SCHEMES};
use blsful::*;
use serde::{Deserialize, Serialize};
use std::marker::PhantomData;

#[derive(Copy, Clone, Debug, PartialEq, Eq, Hash, Serialize, Deserialize)]
pub enum PtOp {
    AddG,
    Dbl,
    Neg,
    OtherHonest,
    Identity,
}

#[derive(Copy, Clone, Debug, PartialEq, Eq, Hash, Serialize, Deserialize)]
pub enum Dev {
    Transport(Codec),
    BitFlip(usize),
    TruncV(usize),
    ExtV(u8),
    Label(Scheme),
    U(PtOp),
    W(PtOp),
    WrongKey(usize),
    /// u and w both replaced by the identity (the pairing equation is then trivially satisfied)
    BothIdentity,
    /// keys algebraically related to the right one: 0 = -sk, 1 = sk+1, 2 = 2 sk, 3 = sk-1
    RelatedKey(u8),
    /// u (false) or w (true) plus a point outside the prime order subgroup, presented through a decoder
    AddTorsion(bool, Codec),
    /// structured extensions of v: 0 = enc(u) || v, 1 = v || enc(u), 2 = enc(w) || v, 3 = v || v, 4 = enc(u) alone
    Splice(u8),
}

#[derive(Clone, Debug, PartialEq, Eq, Hash, Serialize, Deserialize)]
pub struct St {
    s: Scheme,
    k: usize,
    /// message length
    len: usize,
    /// tamper base (full tamper alphabet) or round-trip-only length
    base: bool,
    /// data dependent base: 0 = entropy from the stream; 1 = entropy searched so that the masked payload v ends in a
    /// 0x00 byte; 2 = so that it starts with a 0x00 byte (the reference computes v during the search)
    #[serde(default)]
    pick: u8,
    devs: Vec<Dev>,
}

pub struct M11<C: Suite> {
    tier: Tier,
    seed: u64,
    sks: Vec<SecretKey<C>>,
    lens: Vec<usize>,
    /// special[k][pick - 1]: entropy for the data dependent bases (5 byte message)
    special: Vec<Vec<[u8; 32]>>,
    _c: PhantomData<C>,
}

/// the 32 bytes a sealer draws from the CS-PRNG the entropy seam seeds with `seed`
fn drawn(seed: &[u8; 32]) -> [u8; 32] {
    use rand::Rng;
    use rand_core::SeedableRng;
    rand_chacha::ChaCha20Rng::from_seed(*seed).gen::<[u8; 32]>()
}

/// lengths that get the full treatment (both keys, every transport, every identifier); the lengths that only the
/// dense band contributes are sealed and opened under the first key (quick tier)
pub fn base_lens(tier: Tier) -> Vec<usize> {
    let mut v: Vec<usize> = if tier.thorough() { return lens_for(tier) } else { vec![0, 1, 30, 31, 32, 33, 40, 127, 128, 140, 16383, 16384, 65535, 65536, 65537, 2097151, 2097152] };
    v.extend(41..=300);
    v
}

pub fn lens_for(tier: Tier) -> Vec<usize> {
    if tier.thorough() {
        let mut v: Vec<usize> = (0..=40).collect();
        v.extend(100..=140);
        v.extend(16380..=16390);
        v.extend([65535, 65536, 65537, 2097150, 2097151, 2097152, 2097153]);
        v.extend(dense_lens());
        v.sort();
        v.dedup();
        v
    } else {
        // incl. the lengths at which the LEB128 length prefix grows to 3 and to 4 bytes and the 16 bit boundary
        let mut v = vec![0, 1, 30, 31, 32, 33, 40, 127, 128, 140, 16383, 16384, 65535, 65536, 65537, 2097151, 2097152];
        v.extend(dense_lens());
        v.sort();
        v.dedup();
        v
    }
}

impl<C: Suite> M11<C> {
    pub fn new(tier: Tier, seed: u64) -> Self {
        let ka = key_alphabet(seed, false);
        let sks: Vec<SecretKey<C>> = [3usize, 2, 4, 0, 5].iter().map(|i| sk_from_be::<C>(&ka.be[*i]).unwrap()).collect();
        let msg = msg_of(seed, 5, 3);
        let mut special = vec![];
        for k in 0..2 {
            let rpk = <C::R as RefSuite>::pk_from(&Vec::<u8>::from(&sks[k].public_key())).expect("honest key");
            let mut found: Vec<Option<[u8; 32]>> = vec![None, None];
            for i in 0..100_000u32 {
                let e = data32(seed, &format!("c11-special-{}-{}", k, i));
                let v = rf::signcrypt_seal::<C::R>(&rpk, &msg, Scheme::Basic, &drawn(&e)).v;
                if v[v.len() - 1] == 0 && found[0].is_none() {
                    found[0] = Some(e);
                }
                if v[0] == 0 && found[1].is_none() {
                    found[1] = Some(e);
                }
                if found.iter().all(|f| f.is_some()) {
                    break;
                }
            }
            special.push(found.into_iter().map(|f| f.expect("an entropy value with the wanted masked byte")).collect());
        }
        M11 {
            tier,
            seed,
            sks,
            special,
            lens: lens_for(tier),
            _c: PhantomData,
        }
    }
    fn seal(&self, st: &St) -> (SignCryptCiphertext<C>, Vec<u8>) {
        let msg = msg_of(self.seed, st.len, 3);
        let ent = if st.pick > 0 { vec![self.special[st.k][st.pick as usize - 1]] } else { entropy_stream(self.seed, &format!("c11-{}-{}-{}", st.s.name(), st.k, st.len), 1) };
        let pk = self.sks[st.k].public_key();
        let ct = with_env(ent, None, || pk.sign_crypt(lib_scheme(st.s), &msg)).expect("sign_crypt panicked");
        (ct, msg)
    }
    /// [start, end) of the v bytes (incl. their length prefix) and the offset of the scheme byte
    fn regions(ct: &SignCryptCiphertext<C>) -> (usize, usize, usize) {
        let ser = Vec::<u8>::from(ct);
        let ulen = pt(&ct.u).len();
        let wlen = pt(&ct.w).len();
        let scheme_off = ser.len() - 1;
        (ulen, scheme_off - wlen, scheme_off)
    }
}

impl<C: Suite> Model for M11<C> {
    type State = St;
    type Action = Dev;
    fn name(&self) -> String {
        format!("c11-signcrypt/{}", C::G)
    }
    fn init(&self) -> Vec<St> {
        let mut v = vec![];
        for s in SCHEMES {
            let base = base_lens(self.tier);
            for k in 0..2 {
                for &len in &self.lens {
                    if k != 0 && !base.contains(&len) {
                        continue;
                    }
                    v.push(St { s, k, len, base: false, pick: 0, devs: vec![] });
                }
                for len in [5usize, 33] {
                    v.push(St { s, k, len, base: true, pick: 0, devs: vec![] });
                }
                for pick in 1..=2u8 {
                    v.push(St { s, k, len: 5, base: true, pick, devs: vec![] });
                }
                if k == 0 {
                    // 64 KiB base: selected positions only (ends and middle of v, truncation, extension)
                    v.push(St { s, k, len: 65536, base: true, pick: 0, devs: vec![] });
                }
            }
        }
        v
    }
    fn actions(&self, st: &St) -> Vec<Dev> {
        let mut a = vec![];
        if st.devs.is_empty() {
            for c in [Codec::Bytes, Codec::Bare, Codec::Json] {
                if c != Codec::Bytes && !st.base && !base_lens(self.tier).contains(&st.len) {
                    continue;
                }
                a.push(Dev::Transport(c));
            }
            if !st.base {
                return a;
            }
            let (ct, _) = self.seal(st);
            let ser = Vec::<u8>::from(&ct);
            if st.len > 1000 {
                let (vs, ve, so) = Self::regions(&ct);
                let mut bytes: Vec<usize> = vec![0, vs - 1, vs, vs + 1, vs + 2, vs + 3, (vs + ve) / 2, ve - 2, ve - 1, ve, so - 1, so];
                for off in [65535usize, 65536, 65537, 32768, 16384] {
                    for d in [0usize, 1] {
                        if vs + off + d < ve {
                            bytes.push(vs + off - d);
                            bytes.push(ve - 1 - (off % 7) - d * 40);
                        }
                    }
                }
                bytes.sort();
                bytes.dedup();
                for b in bytes {
                    a.push(Dev::BitFlip(b * 8));
                    a.push(Dev::BitFlip(b * 8 + 7));
                }
                let n = ct.v.len();
                for l in [0, 1, n / 2, n - 17, n - 2, n - 1] {
                    a.push(Dev::TruncV(l));
                }
            } else {
                let (vs, ve, _) = Self::regions(&ct);
                for i in 0..ser.len() * 8 {
                    // data dependent bases: flips inside v (and its length prefix) only
                    if st.pick == 0 || (i / 8 >= vs && i / 8 < ve) {
                        a.push(Dev::BitFlip(i));
                    }
                }
                for l in 0..ct.v.len() {
                    a.push(Dev::TruncV(l));
                }
            }
            a.push(Dev::ExtV(0x00));
            a.push(Dev::ExtV(0xFF));
            if st.pick > 0 {
                return a;
            }
            for l in SCHEMES {
                if l != st.s {
                    a.push(Dev::Label(l));
                }
            }
            for op in [PtOp::AddG, PtOp::Dbl, PtOp::Neg, PtOp::OtherHonest, PtOp::Identity] {
                a.push(Dev::U(op));
                a.push(Dev::W(op));
            }
            a.push(Dev::BothIdentity);
            for k in 0..5u8 {
                a.push(Dev::Splice(k));
            }
            if st.len <= 1000 {
                for c in DECODERS {
                    a.push(Dev::AddTorsion(false, c));
                    a.push(Dev::AddTorsion(true, c));
                }
            }
            for j in 2..5 {
                a.push(Dev::WrongKey(j));
            }
            a.push(Dev::WrongKey(1 - st.k));
            for r in 0..4u8 {
                a.push(Dev::RelatedKey(r));
            }
        } else if st.devs.len() == 1 && self.tier.thorough() && st.base && st.len == 5 && st.k == 0 {
            // second deviation: pairs of bit flips inside v (with its length prefix) and the scheme byte
            if let Dev::BitFlip(i) = st.devs[0] {
                let (ct, _) = self.seal(st);
                let (vs, ve, so) = Self::regions(&ct);
                let in_region = |b: usize| (b / 8 >= vs && b / 8 < ve) || b / 8 == so;
                if in_region(i) {
                    for j in i + 1..(so + 1) * 8 {
                        if in_region(j) {
                            a.push(Dev::BitFlip(j));
                        }
                    }
                }
            }
        }
        a
    }
    fn step(&self, st: &St, a: &Dev) -> Option<St> {
        let mut n = st.clone();
        n.devs.push(*a);
        Some(n)
    }
    fn describe(&self, st: &St) -> String {
        format!(
            "{} {} key#{} message length {}{}: sign_crypt, deviations {:?}, is_valid / decrypt / decryption-key decrypt",
            C::G,
            st.s.name(),
            st.k,
            st.len,
            ["", " (v ends in 0x00)", " (v starts with 0x00)"][st.pick as usize],
            st.devs
        )
    }
    fn required_outcomes(&self) -> Vec<String> {
        vec![
            "honest:round-trip".into(),
            "mutant:undecodable".into(),
            "mutant:decodes-rejected".into(),
            "mutant:decodes-equal-unchanged".into(),
            "wrong-key:not-the-message".into(),
        ]
    }
    fn check(&self, st: &St, o: &mut Obs) {
        let g = C::G;
        o.nontrivial = true;
        let sk = &self.sks[st.k];
        let (ct0, msg) = self.seal(st);
        o.calls(1);
        let mut ct: Option<SignCryptCiphertext<C>> = Some(ct0.clone());
        let mut dsk = sk.clone();
        let mut cls = "honest".to_string();
        let mut serialized_mutant = false;
        let mut ser = Vec::<u8>::from(&ct0);
        for d in &st.devs {
            cls = format!("{:?}", d).split('(').next().unwrap().to_string();
            let gen_p = PkP::<C>::generator();
            let gen_s = SgP::<C>::generator();
            match *d {
                Dev::Transport(c) => {
                    let r: Result<SignCryptCiphertext<C>, String> = match c {
                        Codec::Bytes => SignCryptCiphertext::<C>::try_from(ser.as_slice()).map_err(|e| e.to_string()),
                        Codec::Bare => via_bare(&ct0),
                        _ => via_json(&ct0),
                    };
                    match r {
                        Ok(x) => {
                            o.expect(&format!("C11:transport-equal:{}:{:?}", g, c), x == ct0, "equal", "differs");
                            ct = Some(x);
                        }
                        Err(e) => {
                            o.expect(&format!("C11:transport:{}:{:?}", g, c), false, "Ok", &e);
                            return;
                        }
                    }
                }
                Dev::BitFlip(i) => {
                    ser[i / 8] ^= 0x80 >> (i % 8);
                    serialized_mutant = true;
                }
                Dev::TruncV(l) => ct.as_mut().unwrap().v.truncate(l),
                Dev::ExtV(b) => ct.as_mut().unwrap().v.push(b),
                Dev::Label(l) => ct.as_mut().unwrap().scheme = lib_scheme(l),
                Dev::U(op) => {
                    let c = ct.as_mut().unwrap();
                    c.u = match op {
                        PtOp::AddG => c.u + gen_p,
                        PtOp::Dbl => c.u + c.u,
                        PtOp::Neg => -c.u,
                        PtOp::OtherHonest => self.sks[2].public_key().0,
                        PtOp::Identity => PkP::<C>::identity(),
                    }
                }
                Dev::W(op) => {
                    let c = ct.as_mut().unwrap();
                    c.w = match op {
                        PtOp::AddG => c.w + gen_s,
                        PtOp::Dbl => c.w + c.w,
                        PtOp::Neg => -c.w,
                        PtOp::OtherHonest => *self.sks[2].sign(lib_scheme(st.s), b"x").unwrap().as_raw_value(),
                        PtOp::Identity => SgP::<C>::identity(),
                    }
                }
                Dev::BothIdentity => {
                    let c = ct.as_mut().unwrap();
                    c.u = PkP::<C>::identity();
                    c.w = SgP::<C>::identity();
                }
                Dev::Splice(k) => {
                    let c = ct.as_mut().unwrap();
                    let (ub, wb, v0) = (pt(&c.u), pt(&c.w), c.v.clone());
                    c.v = match k {
                        0 => [ub.as_slice(), v0.as_slice()].concat(),
                        1 => [v0.as_slice(), ub.as_slice()].concat(),
                        2 => [wb.as_slice(), v0.as_slice()].concat(),
                        3 => [v0.as_slice(), v0.as_slice()].concat(),
                        _ => ub,
                    };
                }
                Dev::AddTorsion(is_w, c) => {
                    let from = if is_w { pt(&ct0.w) } else { pt(&ct0.u) };
                    let to = rf::torsion_perturbed(&from).expect("a point outside the subgroup");
                    match redecode_with_point(&ct0, &from, &to, c) {
                        Ok(x) => ct = Some(x),
                        Err(e) if e == "component-not-found" => {
                            o.expect(&format!("C11:harness-locates-component:{}", g), false, "found", &e);
                            return;
                        }
                        Err(_) => {
                            o.outcome("mutant:undecodable");
                            o.record("undecodable", &[]);
                            return;
                        }
                    }
                }
                Dev::WrongKey(j) => dsk = self.sks[j].clone(),
                Dev::RelatedKey(r) => {
                    let one = Sc::<C>::ONE;
                    dsk = SecretKey::<C>(match r {
                        0 => -sk.0,
                        1 => sk.0 + one,
                        2 => sk.0 + sk.0,
                        _ => sk.0 - one,
                    })
                }
            }
        }
        if serialized_mutant {
            let r = guard(|| SignCryptCiphertext::<C>::try_from(ser.as_slice()));
            o.calls(1);
            match r {
                Err(p) => {
                    o.outcome("mutant:decode-panic");
                    o.expect(&format!("C11:decode-panics:{}", g), false, "returns", &p);
                    return;
                }
                Ok(Err(_)) => {
                    o.outcome("mutant:undecodable");
                    o.record("undecodable", &[]);
                    return;
                }
                Ok(Ok(x)) => ct = Some(x),
            }
        }
        let ct = ct.unwrap();
        let wrong_key = st.devs.iter().any(|d| matches!(d, Dev::WrongKey(_) | Dev::RelatedKey(_)));
        let valid = guard(|| bool::from(ct.is_valid()));
        let dec = guard(|| Option::<Vec<u8>>::from(ct.decrypt(&dsk)));
        let kdec = guard(|| Option::<Vec<u8>>::from(dsk.sign_decryption_key::<&[u8]>(&ct).decrypt(&ct)));
        o.calls(3);
        let (valid, dec, kdec) = match (valid, dec, kdec) {
            (Ok(a), Ok(b), Ok(c)) => (a, b, c),
            (a, b, c) => {
                o.outcome("panic");
                o.expect(&format!("C11:panic:{}:{}:{}", g, st.s.name(), cls), false, "returns", &format!("{:?}/{:?}/{:?}", a.err(), b.err(), c.err()));
                return;
            }
        };
        o.record("valid", &[valid as u8]);
        o.record("dec", dec.as_deref().unwrap_or(b"<none>"));
        let key = |what: &str| format!("C11:{}:{}:{}:{}", what, g, st.s.name(), cls);
        // independent reference open of exactly this ciphertext with exactly this key
        let ref_open = {
            let u = <C::R as RefSuite>::pk_from(&pt(&ct.u));
            let w = <C::R as RefSuite>::sig_from(&pt(&ct.w));
            let rs = match ct.scheme {
                SignatureSchemes::Basic => Scheme::Basic,
                SignatureSchemes::MessageAugmentation => Scheme::Aug,
                SignatureSchemes::ProofOfPossession => Scheme::Pop,
            };
            match (u, w) {
                (Some(u), Some(w)) => rf::signcrypt_open::<C::R>(&u, &ct.v, &w, rs, &rf::scalar_from_be(&dsk.to_be_bytes()).unwrap()),
                _ => None,
            }
        };
        o.expect(&key("decrypt-vs-reference"), dec == ref_open, &format!("{:?}", ref_open.as_ref().map(|m| m.len())), &format!("{:?}", dec.as_ref().map(|m| m.len())));
        if wrong_key {
            let leaked = dec.as_ref() == Some(&msg) || kdec.as_ref() == Some(&msg);
            o.outcome(if leaked { "wrong-key:the-message" } else { "wrong-key:not-the-message" });
            o.expect(&key("wrong-key"), !leaked, "never the original message", "original message");
            return;
        }
        let unchanged = ct == ct0;
        if unchanged {
            let ok = valid && dec.as_ref() == Some(&msg) && kdec.as_ref() == Some(&msg);
            if st.devs.iter().all(|d| matches!(d, Dev::Transport(_))) {
                o.outcome(if ok { "honest:round-trip" } else { "honest:fails" });
                let lc = if st.len <= 40 { "len<=40" } else if st.len <= 140 { "len<=140" } else if st.len < 65535 { "len>=16380" } else if st.len < 2097151 { "len>=65535" } else { "len>=2^21-1" };
                o.expect(&format!("C11:round-trip:{}:{}:{}:{}", g, st.s.name(), cls, lc), ok, "valid and decrypts to the message (both ways)", &format!("valid={} decrypt={:?} key-decrypt={:?}", valid, dec.as_ref().map(|m| m == &msg), kdec.as_ref().map(|m| m == &msg)));
            } else {
                o.outcome(if ok { "mutant:decodes-equal-unchanged" } else { "mutant:decodes-equal-changed" });
                o.expect(&key("equal-value-same-result"), ok, "unchanged result for an equal value", "changed");
            }
        } else {
            let rejected = !valid && dec.is_none() && kdec.is_none();
            o.outcome(if rejected { "mutant:decodes-rejected" } else { "mutant:decodes-accepted" });
            o.expect(&key("altered-ciphertext"), rejected, "invalid and decrypts to nothing", &format!("valid={} decrypt={} key-decrypt={}", valid, dec.is_some(), kdec.is_some()));
        }
    }
}

// ---- the sealer's ephemeral scalar and the recipient's key in a simple relation -----------------------------------
//
// u = g^r and pk = g^sk are points of the same group; nothing stops a recipient key from being r, -r, 2r or r + 1 for
// the r a sealer draws (the entropy answer fixes r, the recipient key is then derived from it). The ciphertext is an
// honest one and must open.

#[derive(Clone, Copy, Debug, PartialEq, Eq, Hash, Serialize, Deserialize)]
pub struct AliasSt {
    s: Scheme,
    rel: u8,
    len: usize,
}

const ALIAS: [&str; 5] = ["sk == r (u == pk)", "sk == -r (u == -pk)", "sk == 2r", "sk == r + 1", "sk == 1/r"];

pub struct M11Alias<C: Suite> {
    seed: u64,
    _c: PhantomData<C>,
}

impl<C: Suite> Model for M11Alias<C> {
    type State = Option<AliasSt>;
    type Action = AliasSt;
    fn name(&self) -> String {
        format!("c11-recipient-key-related-to-the-ephemeral-scalar/{}", C::G)
    }
    fn init(&self) -> Vec<Option<AliasSt>> {
        vec![None]
    }
    fn actions(&self, st: &Option<AliasSt>) -> Vec<AliasSt> {
        if st.is_some() {
            return vec![];
        }
        let mut v = vec![];
        for s in SCHEMES {
            for rel in 0..ALIAS.len() as u8 {
                for len in [0usize, 5, 40] {
                    v.push(AliasSt { s, rel, len });
                }
            }
        }
        v
    }
    fn step(&self, _s: &Option<AliasSt>, a: &AliasSt) -> Option<Option<AliasSt>> {
        Some(Some(*a))
    }
    fn describe(&self, st: &Option<AliasSt>) -> String {
        format!("{} signcryption to a recipient whose key is related to the sealer's ephemeral scalar: {:?}", C::G, st.map(|s| (s.s.name(), ALIAS[s.rel as usize], s.len)))
    }
    fn required_outcomes(&self) -> Vec<String> {
        vec!["related-recipient:opens".into()]
    }
    fn check(&self, st: &Option<AliasSt>, o: &mut Obs) {
        use bls12_381_plus::ff::Field as _;
        let Some(st) = st else { return };
        o.nontrivial = true;
        let g = C::G;
        let seed = data32(self.seed, "c11-alias-entropy");
        let r = rf::hash_to_scalar(&drawn(&seed), rf::SALT_SIGNCRYPT);
        let rsk = match st.rel {
            0 => r,
            1 => -r,
            2 => r + r,
            3 => r + bls12_381_plus::Scalar::ONE,
            _ => r.invert().unwrap(),
        };
        let sk = sk_from_be::<C>(&rf::scalar_to_be(&rsk)).unwrap();
        let pk = sk.public_key();
        let msg = msg_of(self.seed, st.len, 3);
        let ls = lib_scheme(st.s);
        let ct = match with_env(vec![seed], None, || pk.sign_crypt(ls, &msg)) {
            Ok(c) => c,
            Err(p) => {
                o.expect(&format!("C11:related-recipient:{}:seal", g), false, "returns", &p);
                return;
            }
        };
        if st.rel == 0 {
            assert!(ct.u == pk.0, "the entropy answer does not give the ephemeral scalar the reference computes");
        }
        let rpk = rf::sk_to_pk::<C::R>(&rsk);
        let rct = rf::signcrypt_seal::<C::R>(&rpk, &msg, st.s, &drawn(&seed));
        let same = pt(&ct.u) == rf::enc(&rct.u) && ct.v == rct.v && pt(&ct.w) == rf::enc(&rct.w);
        let r2 = guard(|| {
            let valid = bool::from(ct.is_valid());
            let whole = Option::<Vec<u8>>::from(ct.decrypt(&sk));
            let by_key = Option::<Vec<u8>>::from(sk.sign_decryption_key::<&[u8]>(&ct).decrypt(&ct));
            let trait_level = Option::<Vec<u8>>::from(<C as BlsSignCrypt>::unseal(ct.u, &ct.v, ct.w, &sk.0, <C as BlsSignatureBasic>::DST));
            (valid, whole, by_key, trait_level)
        });
        o.calls(5);
        let sn = st.s.name();
        let ropen = rf::signcrypt_open::<C::R>(&rct.u, &rct.v, &rct.w, st.s, &rsk);
        let ok = same && ropen.as_ref() == Some(&msg) && matches!(&r2, Ok((true, Some(a), Some(b), _)) if *a == msg && *b == msg);
        o.outcome(if ok { "related-recipient:opens" } else { "related-recipient:fails" });
        o.expect(&format!("C11:related-recipient:{}:{}:{}", g, sn, ALIAS[st.rel as usize]), ok, "bit-identical to the reference; valid; the message by whole key and by decryption key", &format!("same={} reference={:?} library={:?}", same, ropen.map(|m| m.len()), r2.map(|(v, a, b, c)| (v, a.map(|m| m.len()), b.map(|m| m.len()), c.map(|m| m.len())))));
    }
}

pub fn models(tier: Tier, seed: u64) -> Vec<Box<dyn DynModel>> {
    let mut v: Vec<Box<dyn DynModel>> = vec![bounded(M11::<Bls12381G1Impl>::new(tier, seed), 2), bounded(M11::<Bls12381G2Impl>::new(tier, seed), 2)];
    v.extend(crate::props::tsurf::models("C11", tier, seed));
    v.extend(crate::props::mask::models("C11", seed));
    v.push(bounded(M11Alias::<Bls12381G1Impl> { seed, _c: PhantomData }, 1));
    v.push(bounded(M11Alias::<Bls12381G2Impl> { seed, _c: PhantomData }, 1));
    v
}

pub fn describe(tier: Tier, r: &mut Report) {
    r.rule = "initial states = honest ciphertexts (scheme x 2 keys x message lengths, sealed under the entropy seam); actions: transport through each codec; on the 5- and 33-byte tamper bases: every single-bit flip of the serialized ciphertext, every truncation of v, v + 1 byte, both other labels, u / w in {+G, 2x, negate, other honest point, identity}, 4 wrong keys; two data-dependent 5-byte bases per key whose entropy answer is searched so that v ends in / starts with 0x00 (all truncations, extensions and bit flips of v); thorough adds every pair of bit flips inside v (with its length prefix) and the scheme byte of the 5-byte ciphertext. Oracle is component level: an undecodable mutant is fine; a mutant that decodes to an equal value must behave unchanged; any other must be invalid and decrypt to nothing through both decrypt paths; the reference open must agree on every decodable ciphertext".into();
    r.deviation_bound_completed = if tier.thorough() { "2 (bit flip pairs in v / scheme byte), 1 elsewhere".into() } else { "1".into() };
    r.alphabet.insert("lengths".into(), serde_json::json!(lens_for(tier)));
}
