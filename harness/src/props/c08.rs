//! C08 - threshold shares recombine to exactly the whole-key results.
use crate::common::*;
use crate::engine::*;
use crate::refmodel::{self as rf, RefSuite, Scheme};
use blsful::vsss_rs::Share;
use blsful::*;
use rand_core::SeedableRng;
use serde::{Deserialize, Serialize};
use std::marker::PhantomData;

#[derive(Copy, Clone, Debug, PartialEq, Eq, Hash, Serialize, Deserialize)]
pub enum Fault {
    Dup(usize),
    ZeroId(usize),
    Foreign(usize),
    OtherScheme(usize),
    CorruptPayload(usize),
    Transport(usize, Codec),
    Reverse,
    /// an unfilled slot (identifier 0, payload empty or all zero) inserted at this position, the other shares untouched
    Placeholder(usize, bool),
}

#[derive(Copy, Clone, Debug, PartialEq, Eq, Hash, Serialize, Deserialize)]
pub enum Named {
    FirstT,
    LastT,
    FirstTMinus1,
    All,
    Strided,
    /// the k-th permutation (lexicographic) of the first six shares
    Perm(u16),
}

#[derive(Clone, Debug, PartialEq, Eq, Hash, Serialize, Deserialize)]
pub enum St {
    /// instance index, share identifiers collected so far (in order), optional fault
    Collect { inst: usize, seq: Vec<u8>, fault: Option<Fault> },
    /// split with parameters outside the range
    BadParams { s: Scheme, t: usize, n: usize },
    /// an in-range split that the library refused (index into the failure list)
    SplitRefused(usize),
    /// a (2,3) splitting partially signing a long message (length index into LONG_LENS)
    LongMessage { s: Scheme, len: usize },
    /// a 3-of-5 sharing on a polynomial crafted so that participants 1 and 2 hold the same value; subset index
    EqualValues { s: Scheme, subset: usize },
}

const EQ_SUBSETS: [&[u8]; 7] = [&[1, 2, 3], &[1, 2, 4], &[2, 1, 5], &[5, 2, 1], &[1, 2, 3, 4, 5], &[3, 4, 5], &[1, 3, 5]];

/// 64 KiB, 2 MiB, 4 MiB, 16 MiB boundaries (+1): request-size guards and 16 / 32 bit length arithmetic
const LONG_LENS: [usize; 4] = [65537, (1 << 21) + 1, (1 << 22) + 1, (1 << 24) + 1];

#[derive(Clone, Debug, PartialEq)]
pub enum Act {
    Append(u8),
    Take(Named),
    Fault(Fault),
}

pub struct Inst<C: Suite> {
    s: Scheme,
    t: usize,
    n: usize,
    big: bool,
    sk: SecretKey<C>,
    pk: PublicKey<C>,
    sig: Signature<C>,
    shares: Vec<SecretKeyShare<C>>,
    shares2: Vec<SecretKeyShare<C>>,
    pks: Vec<PublicKeyShare<C>>,
    sigs: Vec<SignatureShare<C>>,
    sigs_other: Vec<SignatureShare<C>>,
}

pub struct M08<C: Suite> {
    tier: Tier,
    msg: Vec<u8>,
    insts: Vec<Inst<C>>,
    /// in-range (scheme, t, n) whose split was refused or panicked
    failed: Vec<(Scheme, usize, usize, String)>,
    bad: Vec<(usize, usize)>,
    _c: PhantomData<C>,
}

fn tn_grid(tier: Tier) -> (Vec<(usize, usize)>, Vec<(usize, usize)>) {
    let nmax = if tier.thorough() { 7 } else { 5 };
    let mut small = vec![];
    for n in 2..=nmax {
        for t in 2..=n {
            small.push((t, n));
        }
    }
    let big = if tier.thorough() {
        vec![(2, 255), (3, 255), (128, 255), (254, 255), (255, 255), (2, 100), (50, 100)]
    } else {
        vec![(2, 255), (255, 255), (2, 254), (3, 128), (65, 70), (33, 40), (9, 10), (17, 20), (34, 40), (50, 64), (64, 64), (100, 128), (130, 199), (199, 200)]
    };
    (small, big)
}

impl<C: Suite> M08<C> {
    pub fn new(tier: Tier, seed: u64) -> Self {
        let msg = msg_of(seed, 40, 3);
        let (small, big) = tn_grid(tier);
        let mut insts = vec![];
        let mut failed = vec![];
        for s in [Scheme::Basic, Scheme::Pop] {
            for (bigf, list) in [(false, &small), (true, &big)] {
                for &(t, n) in list.iter() {
                    let sk = SecretKey::<C>::from_hash(format!("c08-{}-{}-{}", s.name(), t, n));
                    let rng = |l: &str| rand_chacha::ChaCha20Rng::from_seed(data32(seed, &format!("c08-split-{}-{}-{}", l, t, n)));
                    let (shares, shares2) = match guard(|| (sk.split_with_rng(t, n, rng("a")), sk.split_with_rng(t, n, rng("b")))) {
                        Ok((Ok(a), Ok(b))) => (a, b),
                        Ok((a, _)) => {
                            failed.push((s, t, n, a.err().map(|e| e.to_string()).unwrap_or("second split failed".into())));
                            continue;
                        }
                        Err(p) => {
                            failed.push((s, t, n, format!("PANIC {}", p)));
                            continue;
                        }
                    };
                    let other = if s == Scheme::Basic { Scheme::Pop } else { Scheme::Basic };
                    let pks = shares.iter().map(|x| x.public_key().unwrap()).collect();
                    let sigs = shares.iter().map(|x| x.sign(lib_scheme(s), &msg).unwrap()).collect();
                    let sigs_other = if bigf { vec![] } else { shares.iter().map(|x| x.sign(lib_scheme(other), &msg).unwrap()).collect() };
                    insts.push(Inst {
                        s,
                        t,
                        n,
                        big: bigf,
                        pk: sk.public_key(),
                        sig: sk.sign(lib_scheme(s), &msg).unwrap(),
                        sk,
                        shares,
                        shares2,
                        pks,
                        sigs,
                        sigs_other,
                    });
                }
            }
        }
        M08 {
            tier,
            msg,
            insts,
            failed,
            bad: vec![(0, 0), (1, 1), (1, 5), (0, 5), (3, 2), (2, 256), (256, 256), (2, 1000)],
            _c: PhantomData,
        }
    }
}

fn share_id<C: Suite>(s: &SecretKeyShare<C>) -> u8 {
    s.0.identifier()
}

impl<C: Suite> Model for M08<C> {
    type State = St;
    type Action = Act;
    fn name(&self) -> String {
        format!("c08-threshold/{}{}", C::G, if self.tier.thorough() { "/n<=7+grid" } else { "" })
    }
    fn init(&self) -> Vec<St> {
        let mut v: Vec<St> = (0..self.insts.len()).map(|i| St::Collect { inst: i, seq: vec![], fault: None }).collect();
        for s in [Scheme::Basic, Scheme::Pop] {
            for &(t, n) in &self.bad {
                v.push(St::BadParams { s, t, n });
            }
        }
        for i in 0..self.failed.len() {
            v.push(St::SplitRefused(i));
        }
        for s in [Scheme::Basic, Scheme::Pop] {
            for len in 0..LONG_LENS.len() {
                v.push(St::LongMessage { s, len });
            }
            for subset in 0..EQ_SUBSETS.len() {
                v.push(St::EqualValues { s, subset });
            }
        }
        v
    }
    fn actions(&self, st: &St) -> Vec<Act> {
        let St::Collect { inst, seq, fault } = st else {
            return vec![];
        };
        if fault.is_some() {
            return vec![];
        }
        let it = &self.insts[*inst];
        let mut a = vec![];
        if it.big {
            if seq.is_empty() {
                for k in [Named::FirstT, Named::LastT, Named::FirstTMinus1, Named::All, Named::Strided] {
                    a.push(Act::Take(k));
                }
                // every order of six shares, on the (3,128) instance
                if it.t == 3 && it.n == 128 {
                    for k in 0..720u16 {
                        a.push(Act::Take(Named::Perm(k)));
                    }
                }
            } else {
                a.push(Act::Fault(Fault::Reverse));
                a.push(Act::Fault(Fault::Dup(0)));
            }
            return a;
        }
        let maxid = seq.iter().copied().max().unwrap_or(0);
        for sh in &it.shares {
            let id = share_id(sh);
            if seq.contains(&id) {
                continue;
            }
            // every subset once (ascending), plus every ordering of subsets of size <= 4 when n <= 5
            if id > maxid || (it.n <= 5 && seq.len() < 4) {
                a.push(Act::Append(id));
            }
        }
        // faults are explored on ascending sequences only (order is covered by the orderings above)
        let ascending = seq.windows(2).all(|w| w[0] < w[1]);
        if ascending && !seq.is_empty() {
            let positions: Vec<usize> = if seq.len() <= 3 { (0..seq.len()).collect() } else { vec![0, seq.len() - 1] };
            for p in positions {
                a.push(Act::Fault(Fault::Dup(p)));
                a.push(Act::Fault(Fault::ZeroId(p)));
                a.push(Act::Fault(Fault::Foreign(p)));
                a.push(Act::Fault(Fault::OtherScheme(p)));
                a.push(Act::Fault(Fault::CorruptPayload(p)));
                for c in [Codec::Bytes, Codec::Bare, Codec::Json] {
                    a.push(Act::Fault(Fault::Transport(p, c)));
                }
                a.push(Act::Fault(Fault::Placeholder(p, false)));
                a.push(Act::Fault(Fault::Placeholder(p, true)));
            }
            a.push(Act::Fault(Fault::Placeholder(seq.len(), false)));
            a.push(Act::Fault(Fault::Placeholder(seq.len(), true)));
            if seq.len() >= 2 {
                a.push(Act::Fault(Fault::Reverse));
            }
        }
        a
    }
    fn step(&self, st: &St, a: &Act) -> Option<St> {
        let St::Collect { inst, seq, .. } = st else {
            return None;
        };
        let it = &self.insts[*inst];
        let ids: Vec<u8> = it.shares.iter().map(share_id).collect();
        Some(match a {
            Act::Append(id) => {
                let mut s = seq.clone();
                s.push(*id);
                St::Collect { inst: *inst, seq: s, fault: None }
            }
            Act::Take(k) => {
                let s: Vec<u8> = match k {
                    Named::FirstT => ids[..it.t].to_vec(),
                    Named::LastT => ids[it.n - it.t..].to_vec(),
                    Named::FirstTMinus1 => ids[..it.t - 1].to_vec(),
                    Named::All => ids.clone(),
                    Named::Strided => {
                        // t shares spread over the whole range
                        (0..it.t).map(|i| ids[i * it.n / it.t]).collect()
                    }
                    Named::Perm(k) => {
                        let mut items: Vec<u8> = ids[..6].to_vec();
                        let mut k = *k as usize;
                        let mut out = vec![];
                        for i in (0..6).rev() {
                            let f: usize = (1..=i).product();
                            out.push(items.remove(k / f));
                            k %= f;
                        }
                        out
                    }
                };
                St::Collect { inst: *inst, seq: s, fault: None }
            }
            Act::Fault(f) => St::Collect { inst: *inst, seq: seq.clone(), fault: Some(*f) },
        })
    }
    fn describe(&self, st: &St) -> String {
        match st {
            St::BadParams { s, t, n } => format!("{} {} split(threshold={}, limit={}) must be refused", C::G, s.name(), t, n),
            St::SplitRefused(i) => format!("{} split(threshold={}, limit={}) is in range and must succeed", C::G, self.failed[*i].1, self.failed[*i].2),
            St::EqualValues { s, subset } => format!("{} {} 3-of-5 sharing in which participants 1 and 2 hold equal values, participants {:?}: key, public key and signature recombine", C::G, s.name(), EQ_SUBSETS[*subset]),
            St::LongMessage { s, len } => format!("{} {} (2,3) shares partially sign a message of {} bytes; recombined = whole key signature", C::G, s.name(), LONG_LENS[*len]),
            St::Collect { inst, seq, fault } => {
                let it = &self.insts[*inst];
                format!("{} {} ({},{}) collected ids {:?} fault {:?}: combine / PublicKey::from_shares / Signature::from_shares", C::G, it.s.name(), it.t, it.n, if seq.len() > 12 { &seq[..12] } else { &seq[..] }, fault)
            }
        }
    }
    fn required_outcomes(&self) -> Vec<String> {
        vec![
            "qualified:whole-key-results".into(),
            "below-threshold:not-the-key".into(),
            "fewer-than-two:err".into(),
            "fault:err".into(),
            "bad-params:err".into(),
            "matrix:i=j-accept".into(),
            "matrix:i!=j-reject".into(),
        ]
    }
    fn check(&self, st: &St, o: &mut Obs) {
        let g = C::G;
        o.nontrivial = true;
        match st {
            St::EqualValues { s, subset } => {
                let sk = SecretKey::<C>::from_hash(b"c08 equal valued shares");
                let all = shares_with_equal_values::<C>(&sk, 5);
                let pick: Vec<SecretKeyShare<C>> = EQ_SUBSETS[*subset].iter().map(|i| all[*i as usize - 1].clone()).collect();
                let r = guard(|| -> Result<(bool, bool, bool), String> {
                    let k = SecretKey::<C>::combine(&pick).map_err(|e| format!("combine: {}", e))?;
                    let pks: Vec<PublicKeyShare<C>> = pick.iter().map(|x| x.public_key().unwrap()).collect();
                    let p = PublicKey::<C>::from_shares(&pks).map_err(|e| format!("PublicKey::from_shares: {}", e))?;
                    let parts: Vec<SignatureShare<C>> = pick.iter().map(|x| x.sign(lib_scheme(*s), &self.msg).unwrap()).collect();
                    let sg = Signature::<C>::from_shares(&parts).map_err(|e| format!("Signature::from_shares: {}", e))?;
                    Ok((k == sk, p == sk.public_key(), sg == sk.sign(lib_scheme(*s), &self.msg).unwrap()))
                });
                o.calls(4);
                o.outcome(if matches!(r, Ok(Ok((true, true, true)))) { "equal-values:recombines" } else { "equal-values:fails" });
                o.expect(&format!("C08:equal-valued-shares-recombine:{}:{}", g, s.name()), matches!(r, Ok(Ok((true, true, true)))), "key, public key and signature of the whole key", &format!("{:?}", r));
            }
            St::LongMessage { s, len } => {
                use rand_core::SeedableRng;
                let n = LONG_LENS[*len];
                let msg = msg_of(1, n, 2);
                let sk = SecretKey::<C>::from_hash(b"c08 long message");
                let shares = sk.split_with_rng(2, 3, rand_chacha::ChaCha20Rng::from_seed([8u8; 32])).expect("split");
                let r = guard(|| -> Result<bool, String> {
                    let parts: Vec<SignatureShare<C>> = shares[1..].iter().map(|x| x.sign(lib_scheme(*s), &msg).map_err(|e| e.to_string())).collect::<Result<_, _>>()?;
                    for (sh, p) in shares[1..].iter().zip(parts.iter()) {
                        if sh.public_key().map_err(|e| e.to_string())?.verify(p, &msg).is_err() {
                            return Err("a partial signature does not verify against its own key share".into());
                        }
                    }
                    let whole = sk.sign(lib_scheme(*s), &msg).map_err(|e| e.to_string())?;
                    Ok(Signature::<C>::from_shares(&parts).map_err(|e| e.to_string())? == whole)
                });
                o.calls(6);
                let band = if n > (1 << 22) { ">4MiB" } else if n > (1 << 21) { ">2MiB" } else if n > 65536 { ">64KiB" } else { "<=64KiB" };
                o.outcome(if matches!(r, Ok(Ok(true))) { "long-message:recombines" } else { "long-message:fails" });
                o.expect(&format!("C08:partial-signatures-over-a-long-message:{}:{}:{}", g, s.name(), band), matches!(r, Ok(Ok(true))), "partial signatures recombine to the whole key signature", &format!("{:?}", r));
            }
            St::SplitRefused(i) => {
                let (s, t, n, e) = &self.failed[*i];
                o.outcome("split-in-range:refused");
                o.expect(&format!("C08:split-in-range-refused:{}:{}:t={},n={}", g, s.name(), t, n), false, "Ok (2 <= t <= n <= 255)", e);
            }
            St::BadParams { s, t, n } => {
                let sk = SecretKey::<C>::from_hash(b"c08-bad-params");
                let r = guard(|| sk.split_with_rng(*t, *n, rand_chacha::ChaCha20Rng::from_seed([9u8; 32])));
                o.calls(1);
                let err = matches!(r, Ok(Err(_)));
                o.outcome(if err { "bad-params:err" } else { "bad-params:not-err" });
                let detail = match &r {
                    Ok(Ok(v)) => format!("Ok({} shares, ids {:?}..)", v.len(), v.iter().take(3).map(share_id).collect::<Vec<_>>()),
                    x => verdict(x).to_string(),
                };
                o.expect(&format!("C08:split-out-of-range:{}:t={},n={}", g, t, n), err, "Err", &detail);
                let _ = s;
            }
            St::Collect { inst, seq, fault } => {
                let it = &self.insts[*inst];
                let idx = |id: u8| it.shares.iter().position(|s| share_id(s) == id).unwrap();
                let mut sks: Vec<SecretKeyShare<C>> = seq.iter().map(|id| it.shares[idx(*id)].clone()).collect();
                let mut pks: Vec<PublicKeyShare<C>> = seq.iter().map(|id| it.pks[idx(*id)]).collect();
                let mut sgs: Vec<SignatureShare<C>> = seq.iter().map(|id| it.sigs[idx(*id)]).collect();
                let k = seq.len();
                let sname = it.s.name();
                let mut fault_expect_err = false;
                let mut same_as_plain = false;
                let mut foreign = false;
                let mut fcls = "none".to_string();
                if let Some(f) = fault {
                    fcls = format!("{:?}", f).split('(').next().unwrap().to_string();
                    match *f {
                        Fault::Dup(p) => {
                            sks.push(sks[p].clone());
                            pks.push(pks[p]);
                            sgs.push(sgs[p]);
                            fault_expect_err = true;
                        }
                        Fault::ZeroId(p) => {
                            *sks[p].0.identifier_mut() = 0;
                            *pks[p].0.identifier_mut() = 0;
                            match &mut sgs[p] {
                                SignatureShare::Basic(x) | SignatureShare::MessageAugmentation(x) | SignatureShare::ProofOfPossession(x) => *x.identifier_mut() = 0,
                            }
                            fault_expect_err = true;
                        }
                        Fault::Foreign(p) => {
                            let i = idx(seq[p]);
                            sks[p] = it.shares2[i].clone();
                            pks[p] = it.shares2[i].public_key().unwrap();
                            sgs[p] = it.shares2[i].sign(lib_scheme(it.s), &self.msg).unwrap();
                            foreign = true;
                        }
                        Fault::OtherScheme(p) => {
                            sgs[p] = it.sigs_other[idx(seq[p])];
                        }
                        Fault::CorruptPayload(p) => {
                            let mut b = Vec::<u8>::from(&pks[p]);
                            for x in b.iter_mut().skip(1) {
                                *x = 0xFF;
                            }
                            pks[p] = PublicKeyShare::<C>::try_from(b.as_slice()).unwrap();
                            let mut b = Vec::<u8>::from(&sgs[p]);
                            for x in b.iter_mut().skip(2) {
                                *x = 0xFF;
                            }
                            sgs[p] = SignatureShare::<C>::try_from(b.as_slice()).unwrap();
                        }
                        Fault::Transport(p, c) => {
                            let r = guard(|| -> Result<(SecretKeyShare<C>, PublicKeyShare<C>, SignatureShare<C>), String> {
                                Ok(match c {
                                    Codec::Bytes => (
                                        SecretKeyShare::<C>::try_from(Vec::<u8>::from(&sks[p]).as_slice()).map_err(|e| e.to_string())?,
                                        PublicKeyShare::<C>::try_from(Vec::<u8>::from(&pks[p]).as_slice()).map_err(|e| e.to_string())?,
                                        SignatureShare::<C>::try_from(Vec::<u8>::from(&sgs[p]).as_slice()).map_err(|e| e.to_string())?,
                                    ),
                                    Codec::Bare => (via_bare(&sks[p])?, via_bare(&pks[p])?, via_bare(&sgs[p])?),
                                    _ => (via_json(&sks[p])?, via_json(&pks[p])?, via_json(&sgs[p])?),
                                })
                            });
                            match r {
                                Ok(Ok((a, b, c2))) => {
                                    sks[p] = a;
                                    pks[p] = b;
                                    sgs[p] = c2;
                                }
                                x => {
                                    o.expect(&format!("C08:share-transport:{}:{:?}", g, c), false, "Ok", &format!("{:?}", x.map(|y| y.map(|_| ()))));
                                    return;
                                }
                            }
                            same_as_plain = true;
                        }
                        Fault::Placeholder(p, full) => {
                            use blsful::vsss_rs::Share;
                            let len = |n: usize| if full { n } else { 0 };
                            let sg_len = Vec::<u8>::from(&sgs[0]).len() - 2;
                            let pk_len = Vec::<u8>::from(&pks[0]).len() - 1;
                            sks.insert(p, SecretKeyShare(<C as Pairing>::SecretKeyShare::empty_share_with_capacity(len(32))));
                            pks.insert(p, PublicKeyShare(<C as Pairing>::PublicKeyShare::empty_share_with_capacity(len(pk_len))));
                            let raw = <C as Pairing>::SignatureShare::empty_share_with_capacity(len(sg_len));
                            sgs.insert(
                                p,
                                match it.s {
                                    Scheme::Basic => SignatureShare::Basic(raw),
                                    Scheme::Aug => SignatureShare::MessageAugmentation(raw),
                                    Scheme::Pop => SignatureShare::ProofOfPossession(raw),
                                },
                            );
                            fault_expect_err = true;
                        }
                        Fault::Reverse => {
                            sks.reverse();
                            pks.reverse();
                            sgs.reverse();
                            same_as_plain = true;
                        }
                    }
                }
                let _ = same_as_plain;
                let r_sk = guard(|| SecretKey::<C>::combine(&sks));
                let r_pk = guard(|| PublicKey::<C>::from_shares(&pks));
                let r_sg = guard(|| Signature::<C>::from_shares(&sgs));
                o.calls(3);
                o.record("r_sk", verdict(&r_sk).as_bytes());
                o.record("r_pk", verdict(&r_pk).as_bytes());
                o.record("r_sg", verdict(&r_sg).as_bytes());
                for (what, v) in [("combine", verdict(&r_sk)), ("PublicKey::from_shares", verdict(&r_pk)), ("Signature::from_shares", verdict(&r_sg))] {
                    o.expect(&format!("C08:{}:{}:panic", what, g), v != "PANIC", "returns", "PANIC");
                }
                let sk_ok = matches!(&r_sk, Ok(Ok(x)) if *x == it.sk);
                let pk_ok = matches!(&r_pk, Ok(Ok(x)) if *x == it.pk);
                let sg_ok = matches!(&r_sg, Ok(Ok(x)) if Vec::<u8>::from(x) == Vec::<u8>::from(&it.sig));
                let key = |what: &str, cls: &str| format!("C08:{}:{}:{}:{}", what, g, sname, cls);
                if fault_expect_err {
                    let all_err = matches!(r_sk, Ok(Err(_))) && matches!(r_pk, Ok(Err(_))) && matches!(r_sg, Ok(Err(_)));
                    o.outcome(if all_err { "fault:err" } else { "fault:not-err" });
                    o.expect(&key("faulty-set-is-error", &fcls), all_err, "Err from all three", &format!("{}/{}/{}", verdict(&r_sk), verdict(&r_pk), verdict(&r_sg)));
                    return;
                }
                if let Some(Fault::OtherScheme(_)) = fault {
                    let e = if k >= 2 { matches!(r_sg, Ok(Err(_))) } else { !sg_ok };
                    o.outcome(if e { "fault:err" } else { "fault:not-err" });
                    o.expect(&key("mixed-scheme-shares", &fcls), e, "Err", verdict(&r_sg));
                    return;
                }
                if let Some(Fault::CorruptPayload(_)) = fault {
                    let e = matches!(r_pk, Ok(Err(_))) && matches!(r_sg, Ok(Err(_)));
                    o.outcome(if e { "fault:err" } else { "fault:not-err" });
                    o.expect(&key("corrupt-payload", &fcls), e, "Err", &format!("{}/{}", verdict(&r_pk), verdict(&r_sg)));
                    return;
                }
                if foreign {
                    // a share of another split of the same key: never the whole-key results (when more than one share is involved)
                    let bad = k >= 2 && (sk_ok || pk_ok || sg_ok);
                    o.outcome(if bad { "foreign:whole-key-results" } else { "foreign:not-the-key" });
                    o.expect(&key("foreign-share", &fcls), !bad, "error or a value different from the whole-key result", "whole-key result");
                    return;
                }
                if k < 2 {
                    let e = matches!(r_sk, Ok(Err(_))) && matches!(r_pk, Ok(Err(_))) && matches!(r_sg, Ok(Err(_)));
                    o.outcome(if e { "fewer-than-two:err" } else { "fewer-than-two:not-err" });
                    o.expect(&key("fewer-than-two-shares", "err"), e, "Err from all three", &format!("{}/{}/{}", verdict(&r_sk), verdict(&r_pk), verdict(&r_sg)));
                } else if k >= it.t {
                    let all = sk_ok && pk_ok && sg_ok;
                    o.outcome(if all { "qualified:whole-key-results" } else { "qualified:wrong" });
                    o.expect(&key("combine-qualified", &fcls), sk_ok, "the secret key", verdict(&r_sk));
                    o.expect(&key("public-key-from-shares-qualified", &fcls), pk_ok, "the public key", verdict(&r_pk));
                    o.expect(&key("signature-from-shares-qualified", &fcls), sg_ok, "byte-identical whole-key signature", verdict(&r_sg));
                } else {
                    let none = !sk_ok && !pk_ok && !sg_ok;
                    o.outcome(if none { "below-threshold:not-the-key" } else { "below-threshold:the-key" });
                    o.expect(&key("below-threshold", &fcls), none, "error or a value different from the whole-key result", "whole-key result from fewer than t shares");
                }
                // independent Lagrange interpolation over the same share values (also below the threshold)
                if k >= 2 && !it.big || (it.big && k >= 2 && k <= 4) {
                    let rs: Vec<(u8, rf::RScalar)> = sks
                        .iter()
                        .map(|s| {
                            let b = Vec::<u8>::from(s);
                            let mut le: [u8; 32] = b[1..33].try_into().unwrap();
                            le.reverse();
                            (b[0], rf::scalar_from_be(&le).expect("canonical share value"))
                        })
                        .collect();
                    let want = rf::interpolate_scalars(&rs);
                    let got = match &r_sk {
                        Ok(Ok(x)) => x.to_be_bytes() == rf::scalar_to_be(&want),
                        _ => false,
                    };
                    o.expect(&key("combine-vs-lagrange-reference", &fcls), got, "reference interpolation at 0", verdict(&r_sk));
                    let wpk = rf::enc(&rf::sk_to_pk::<C::R>(&want));
                    let gotpk = matches!(&r_pk, Ok(Ok(x)) if Vec::<u8>::from(x) == wpk);
                    o.expect(&key("public-key-from-shares-vs-reference", &fcls), gotpk, "G * interpolated scalar", verdict(&r_pk));
                    let wsg = rf::enc(&rf::core_sign::<C::R>(&want, &self.msg, rf::sig_dst::<C::R>(it.s)));
                    let gotsg = matches!(&r_sg, Ok(Ok(x)) if pt(x.as_raw_value()) == wsg);
                    o.expect(&key("signature-from-shares-vs-reference", &fcls), gotsg, "H(m) * interpolated scalar", verdict(&r_sg));
                }
                // in the root state of each instance: the i x j verification matrix and share well-formedness
                if seq.is_empty() && fault.is_none() {
                    let n = it.n;
                    expect_ct_move(o, "C08", &format!("SignatureShare<{}>", g), &it.sigs[0], &it.sigs[1]);
                    expect_ct_move(o, "C08", &format!("PublicKeyShare<{}>", g), &it.pks[0], &it.pks[1]);
                    let ids: Vec<u8> = it.shares.iter().map(share_id).collect();
                    let mut sorted = ids.clone();
                    sorted.sort();
                    sorted.dedup();
                    o.expect(&key("split-ids", "distinct-nonzero"), sorted.len() == n && !ids.contains(&0), "n distinct non-zero identifiers", &format!("{:?}", &ids[..ids.len().min(8)]));
                    for i in 0..n {
                        let js: Vec<usize> = if n <= 7 { (0..n).collect() } else { vec![i, (i + 1) % n, (i + n - 1) % n] };
                        if n > 7 && i % 16 != 0 && i != n - 1 {
                            continue;
                        }
                        for j in js {
                            let v = guard(|| it.pks[j].verify(&it.sigs[i], &self.msg));
                            let v2 = guard(|| it.sigs[i].verify(&it.pks[j], &self.msg));
                            o.calls(2);
                            let acc = matches!(v, Ok(Ok(())));
                            o.outcome(&format!("matrix:{}-{}", if i == j { "i=j" } else { "i!=j" }, if acc { "accept" } else { "reject" }));
                            o.expect(&key("partial-signature-matrix", if i == j { "own-key-share" } else { "other-key-share" }), acc == (i == j) && v.is_ok(), if i == j { "accept" } else { "reject" }, verdict(&v));
                            o.expect(&key("partial-signature-matrix-both-entry-points", "agree"), matches!(v2, Ok(Ok(()))) == acc, "same decision", verdict(&v2));
                            // trait level partial_verify (it also compares the identifiers)
                            let raw = *it.sigs[i].as_raw_value();
                            let v3 = guard(|| match it.s {
                                Scheme::Basic => <C as BlsSignatureBasic>::partial_verify(it.pks[j].0, raw, &self.msg),
                                _ => <C as BlsSignaturePop>::partial_verify(it.pks[j].0, raw, &self.msg),
                            });
                            o.calls(1);
                            o.expect(&key("trait-partial_verify", if i == j { "own-key-share" } else { "other-key-share" }), matches!(v3, Ok(Ok(()))) == (i == j) && v3.is_ok(), if i == j { "accept" } else { "reject" }, verdict(&v3));
                        }
                    }
                    // deterministic partial signing; public key share = G * share value
                    // trait level signing / key share derivation give the same containers
                    let tps = match it.s {
                        Scheme::Basic => <C as BlsSignatureBasic>::partial_sign(&it.shares[0].0, &self.msg),
                        _ => <C as BlsSignaturePop>::partial_sign(&it.shares[0].0, &self.msg),
                    };
                    o.expect(&key("trait-partial_sign", "agrees"), matches!(&tps, Ok(x) if x == it.sigs[0].as_raw_value()), "same share", "differs");
                    let tpk = <C as BlsSignatureCore>::public_key_share(&it.shares[0].0);
                    o.expect(&key("trait-public_key_share", "agrees"), matches!(&tpk, Ok(x) if *x == it.pks[0].0), "same share", "differs");
                    let again = it.shares[0].sign(lib_scheme(it.s), &self.msg).unwrap();
                    o.expect(&key("partial-sign", "deterministic"), again == it.sigs[0], "equal", "differs");
                    let augr = guard(|| it.shares[0].sign(SignatureSchemes::MessageAugmentation, &self.msg));
                    o.note(format!("share sign under MessageAugmentation: {}", verdict(&augr)));
                }
            }
        }
    }
}

fn depth_of<C: Suite>(_m: &M08<C>, s: &St) -> usize {
    match s {
        St::BadParams { .. } | St::SplitRefused(_) | St::LongMessage { .. } | St::EqualValues { .. } => 0,
        St::Collect { seq, fault, .. } => seq.len() + fault.is_some() as usize,
    }
}

pub fn models(tier: Tier, seed: u64) -> Vec<Box<dyn DynModel>> {
    let mut v = vec![
        bounded_cross(M08::<Bls12381G1Impl>::new(Tier::Quick, seed), 300, depth_of::<Bls12381G1Impl>),
        bounded_cross(M08::<Bls12381G2Impl>::new(Tier::Quick, seed), 300, depth_of::<Bls12381G2Impl>),
    ];
    if tier.thorough() {
        v.push(bounded(M08::<Bls12381G1Impl>::new(tier, seed), 300));
        v.push(bounded(M08::<Bls12381G2Impl>::new(tier, seed), 300));
    }
    v.extend(crate::props::tsurf::models("C08", tier, seed));
    v
}

pub fn describe(tier: Tier, r: &mut Report) {
    let (small, big) = tn_grid(tier);
    r.rule = "share-collection machine per (group, scheme in {Basic, Pop}, (t,n)): state = sequence of share identifiers collected; actions append a not-yet-present identifier (every subset once in ascending order, plus every ordering of subsets of size <= 4 for n <= 5) or apply one fault (duplicate, zero identifier, share of a second split, share of the other scheme, corrupt payload, transport through a codec, reverse order, an unfilled placeholder slot with identifier 0 and empty or all-zero payload inserted at any position). Every state recombines the secret key, the public key and the signature and checks them against the whole-key results, the threshold rule and an independent Lagrange interpolation; the root state of each instance checks the full partial-signature x key-share matrix. Large (t,n) use named subsets (first t, last t, t-1, all, strided). Dedup key = the ordered sequence + fault, i.e. only literally identical states merge".into();
    r.deviation_bound_completed = "1 fault on every collected set".into();
    r.alphabet.insert("small_grid".into(), serde_json::json!(small));
    r.alphabet.insert("large_grid".into(), serde_json::json!(big));
    let _ = <rf::RG1 as RefSuite>::NAME;
    r.assumptions = vec!["'fewer than t shares never yield the key' is observed on the enumerated subsets (information-theoretic hiding is not decidable by enumeration)".into(), "n > 255 is outside the identifier range: only refusal is checked".into()];
    r.not_covered = vec!["(t,n) outside the listed grids".into()];
}
