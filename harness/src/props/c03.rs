//! C03 - keys, signatures, proofs of possession and aggregates are byte-for-byte the values of the
//! IETF BLS ciphersuites; seed derived keys equal the HKDF KeyGen construction.
use crate::common::*;
use crate::engine::*;
use crate::refmodel::{self as rf, RefSuite, Scheme, SCHEMES};
use blsful::*;
use rand::Rng;
use rand_core::SeedableRng;
use serde::{Deserialize, Serialize};
use std::marker::PhantomData;

#[derive(Copy, Clone, Debug, PartialEq, Eq, Hash, Serialize, Deserialize)]
pub enum KeySrc {
    /// alphabet key imported from big endian bytes
    Alpha(usize),
    /// SecretKey::from_hash(seed)
    KeyGen(usize),
    /// SecretKey::random(seeded ChaCha20)
    Random(usize),
    /// sk = i, public key compared with the zkcrypto "i*G" vector
    Small(u16),
}

#[derive(Clone, Debug, PartialEq, Eq, Hash, Serialize, Deserialize)]
pub enum St {
    Key(KeySrc),
    Sign(KeySrc, usize, Scheme),
    Pop(KeySrc),
    Agg(KeySrc, usize, Scheme),
    /// RFC 9380 vector i through the library's hash_to_point with the RFC's DST
    H2C(usize),
}

#[derive(Clone, Debug, PartialEq)]
pub enum Act {
    Sign(usize, Scheme),
    Pop,
    Agg(usize, Scheme),
}

pub struct M03<C: Suite> {
    keys: KeyAlpha,
    msgs: MsgAlpha,
    seeds: Vec<Vec<u8>>,
    rngs: Vec<[u8; 32]>,
    vectors: Vec<u8>,
    h2c: Vec<(Vec<u8>, Vec<u8>)>,
    h2c_dst: Vec<u8>,
    _c: PhantomData<C>,
}

impl<C: Suite> M03<C> {
    pub fn new(tier: Tier, seed: u64) -> Self {
        let keys = key_alphabet(seed, tier.thorough());
        let msgs = msg_alphabet(seed, tier.thorough());
        // seed alphabet: lengths x contents {pseudo random, zeros, 0xff, pseudo random ending in 0x00 / 0x01 / 0xff}
        let mut seeds: Vec<Vec<u8>> = vec![];
        for l in [0usize, 1, 16, 32, 33, 64, 255] {
            let d = data(seed, &format!("keygen-seed-{}", l), l);
            seeds.push(d.clone());
            if l > 0 {
                seeds.push(vec![0u8; l]);
                seeds.push(vec![0xFFu8; l]);
                for last in [0x00u8, 0x01, 0xFF] {
                    let mut e = d.clone();
                    *e.last_mut().unwrap() = last;
                    seeds.push(e);
                }
                let mut e = d.clone();
                e[0] = 0;
                seeds.push(e);
            }
        }
        let rngs = (0..3).map(|i| data32(seed, &format!("rng-{}", i))).collect();
        // public keys live in the other group from signatures
        let pk_len = <C::R as RefSuite>::PK_LEN;
        let sig_len = <C::R as RefSuite>::SIG_LEN;
        let f = if pk_len == 48 { "g1" } else { "g2" };
        let vectors = std::fs::read(format!("/verif/data/{}_compressed_valid_test_vectors.dat", f)).expect("zkcrypto vectors");
        assert_eq!(vectors.len(), 1000 * pk_len);
        let doc: serde_json::Value = serde_json::from_str(&std::fs::read_to_string("/verif/data/rfc9380_vectors.json").expect("rfc vectors")).unwrap();
        let side = if sig_len == 48 { "G1" } else { "G2" };
        let h2c_dst = doc[side]["dst"].as_str().unwrap().as_bytes().to_vec();
        let h2c = doc[side]["vectors"]
            .as_array()
            .unwrap()
            .iter()
            .map(|v| (v["msg"].as_str().unwrap().as_bytes().to_vec(), hex::decode(v["uncompressed"].as_str().unwrap()).unwrap()))
            .collect();
        M03 {
            keys,
            msgs,
            seeds,
            rngs,
            vectors,
            h2c,
            h2c_dst,
            _c: PhantomData,
        }
    }

    /// (library key, reference scalar)
    fn key(&self, src: KeySrc) -> (SecretKey<C>, rf::RScalar) {
        match src {
            KeySrc::Alpha(i) => (sk_from_be::<C>(&self.keys.be[i]).unwrap(), rf::scalar_from_be(&self.keys.be[i]).unwrap()),
            KeySrc::KeyGen(i) => (SecretKey::<C>::from_hash(&self.seeds[i]), rf::keygen(&self.seeds[i])),
            KeySrc::Random(i) => {
                let sk = SecretKey::<C>::random(rand_chacha::ChaCha20Rng::from_seed(self.rngs[i]));
                let ikm: [u8; 32] = rand_chacha::ChaCha20Rng::from_seed(self.rngs[i]).gen();
                (sk, rf::keygen(&ikm))
            }
            KeySrc::Small(i) => {
                let mut b = [0u8; 32];
                b[30] = (i >> 8) as u8;
                b[31] = i as u8;
                (sk_from_be::<C>(&b).unwrap(), rf::RScalar::from(i as u64))
            }
        }
    }
    fn next_src(&self, src: KeySrc, d: usize) -> KeySrc {
        match src {
            KeySrc::Alpha(i) => KeySrc::Alpha((i + d) % self.keys.be.len()),
            KeySrc::KeyGen(i) => KeySrc::KeyGen((i + d) % self.seeds.len()),
            KeySrc::Random(i) => KeySrc::Random((i + d) % self.rngs.len()),
            KeySrc::Small(i) => KeySrc::Small(1 + ((i as usize + d - 1) % 999) as u16),
        }
    }
    fn src_class(src: KeySrc) -> &'static str {
        match src {
            KeySrc::Alpha(_) => "alphabet-key",
            KeySrc::KeyGen(_) => "from_hash",
            KeySrc::Random(_) => "random",
            KeySrc::Small(_) => "small-key",
        }
    }
}

impl<C: Suite> Model for M03<C> {
    type State = St;
    type Action = Act;
    fn name(&self) -> String {
        format!("c03-ietf-bytes/{}", C::G)
    }
    fn init(&self) -> Vec<St> {
        let mut v = vec![];
        for i in 0..self.keys.be.len() {
            v.push(St::Key(KeySrc::Alpha(i)));
        }
        for i in 0..self.seeds.len() {
            v.push(St::Key(KeySrc::KeyGen(i)));
        }
        for i in 0..self.rngs.len() {
            v.push(St::Key(KeySrc::Random(i)));
        }
        for i in 1..1000u16 {
            v.push(St::Key(KeySrc::Small(i)));
        }
        for i in 0..self.h2c.len() {
            v.push(St::H2C(i));
        }
        v
    }
    fn actions(&self, st: &St) -> Vec<Act> {
        let St::Key(src) = st else {
            return vec![];
        };
        if let KeySrc::Small(i) = src {
            if *i > 3 {
                return vec![];
            }
        }
        let mut a = vec![Act::Pop];
        // sign actions on every key source class; the large seed alphabet only gets a few messages
        let few = matches!(src, KeySrc::KeyGen(i) if *i % 7 != 0);
        for m in 0..self.msgs.msgs.len() + SPECIAL_MESSAGES.len() {
            if few && m >= 3 && m < self.msgs.msgs.len() {
                continue;
            }
            for s in SCHEMES {
                a.push(Act::Sign(m, s));
            }
        }
        for n in [2usize, 3, 4, 5] {
            for s in SCHEMES {
                a.push(Act::Agg(n, s));
            }
        }
        a
    }
    fn step(&self, st: &St, a: &Act) -> Option<St> {
        let St::Key(src) = st else {
            return None;
        };
        Some(match a {
            Act::Sign(m, s) => St::Sign(*src, *m, *s),
            Act::Pop => St::Pop(*src),
            Act::Agg(n, s) => St::Agg(*src, *n, *s),
        })
    }
    fn describe(&self, st: &St) -> String {
        match st {
            St::Key(s) => format!("{} key {:?}: secret key bytes and public key bytes vs reference", C::G, s),
            St::Sign(k, m, s) => format!("{} key {:?} sign {} under {}: bytes vs reference, cross verification", C::G, k, if *m < self.msgs.names.len() { self.msgs.names[*m].clone() } else { SPECIAL_MESSAGES[*m - self.msgs.names.len()].to_string() }, s.name()),
            St::Pop(k) => format!("{} key {:?} proof of possession bytes vs reference", C::G, k),
            St::Agg(k, n, s) => format!("{} aggregate of {} {} signatures starting at key {:?}", C::G, n, s.name(), k),
            St::H2C(i) => format!("{} hash_to_point RFC 9380 vector #{}", C::G, i),
        }
    }
    fn required_outcomes(&self) -> Vec<String> {
        vec!["key:bytes-equal".into(), "sign:bytes-equal".into(), "pop:bytes-equal".into(), "agg:bytes-equal".into(), "h2c:vector-equal".into(), "small-key:vector-equal".into()]
    }
    fn check(&self, st: &St, o: &mut Obs) {
        let g = C::G;
        o.nontrivial = true;
        match st {
            St::Key(src) => {
                let (sk, rsk) = self.key(*src);
                let cls = Self::src_class(*src);
                o.calls(2);
                let eq = sk.to_be_bytes() == rf::scalar_to_be(&rsk);
                o.expect(&format!("C03:secret-key-bytes:{}:{}", g, cls), eq, "equal to reference KeyGen/OS2IP", "differs");
                let pkb = Vec::<u8>::from(&sk.public_key());
                let rpk = rf::enc(&rf::sk_to_pk::<C::R>(&rsk));
                let eq2 = pkb == rpk;
                o.expect(&format!("C03:public-key-bytes:{}:{}", g, cls), eq2, "equal to reference SkToPk (compressed)", "differs");
                o.outcome(if eq && eq2 { "key:bytes-equal" } else { "key:bytes-differ" });
                o.record("pk", &pkb);
                if let KeySrc::Small(i) = src {
                    let l = pkb.len();
                    let v = &self.vectors[*i as usize * l..(*i as usize + 1) * l];
                    o.expect(&format!("C03:zkcrypto-vector:{}", g), pkb == v, "i*G vector", "differs");
                    o.outcome(if pkb == v { "small-key:vector-equal" } else { "small-key:vector-differs" });
                }
                // the pairing itself: bytes of e(H(m), pk) equal the reference's (they key the time lock derivation)
                if matches!(src, KeySrc::Alpha(_) | KeySrc::KeyGen(_)) {
                    let h = <C as HashToPoint>::hash_to_point(b"pairing input", <C as BlsSignatureBasic>::DST);
                    let gt = <C as Pairing>::pairing(&[(h, sk.public_key().0)]);
                    let rh = <C::R as RefSuite>::hash_to_sig(b"pairing input", <C::R as RefSuite>::DST_NUL);
                    let rgt = <C::R as RefSuite>::pairing_product(&[(rh, rf::sk_to_pk::<C::R>(&rsk))]);
                    o.expect(&format!("C03:pairing-bytes:{}", g), gt.to_bytes().as_ref() == rgt.to_bytes().as_ref(), "equal to the reference pairing", "differs");
                    // a product with the point at infinity in one pair equals the product without that pair
                    let gt2 = <C as Pairing>::pairing(&[(h, sk.public_key().0), (SgP::<C>::identity(), sk.public_key().0), (h, PkP::<C>::identity())]);
                    o.expect(&format!("C03:pairing-with-identity-pairs:{}", g), gt2 == gt, "unchanged by pairs containing the identity", "differs");
                    o.calls(2);
                }
                let arr: [u8; 32] = (&sk).into();
                let arr2: [u8; 32] = sk.clone().into();
                o.expect(&format!("C03:secret-key-array-conversions:{}", g), arr == sk.to_be_bytes() && arr2 == arr, "big endian bytes", "differs");
                // the other public routes to the same derivations agree with the reference too
                o.expect(&format!("C03:public-key-from-impl:{}", g), Vec::<u8>::from(&PublicKey::<C>::from(&sk)) == rpk, "equal to reference SkToPk", "differs");
                if let KeySrc::KeyGen(i) = src {
                    let k2 = BlsSignature::<C>::secret_key_from_hash(&self.seeds[*i]);
                    o.expect(&format!("C03:secret-key-bytes:{}:BlsSignature::secret_key_from_hash", g), k2.to_be_bytes() == rf::scalar_to_be(&rsk), "equal to reference KeyGen", "differs");
                    let ch = ProofCommitmentChallenge::<C>::from_hash(&self.seeds[*i]);
                    let ch2 = BlsSignature::<C>::proof_challenge_from_hash(&self.seeds[*i]);
                    o.expect(&format!("C03:challenge-from-hash:{}", g), ch.to_be_bytes() == rf::scalar_to_be(&rsk) && ch2 == ch, "equal to the reference derivation", "differs");
                }
                if let KeySrc::Random(i) = src {
                    let mk = || rand_chacha::ChaCha20Rng::from_seed(self.rngs[*i]);
                    let k2 = BlsSignature::<C>::random_secret_key(mk());
                    let e = SecretKeyEnum::random(if g == "G1" { Bls12381::G1 } else { Bls12381::G2 }, mk());
                    let eb = match &e {
                        SecretKeyEnum::G1(k) => k.to_be_bytes(),
                        SecretKeyEnum::G2(k) => k.to_be_bytes(),
                    };
                    let ch = ProofCommitmentChallenge::<C>::random(mk());
                    let ch2 = BlsSignature::<C>::random_proof_challenge(mk());
                    let want = rf::scalar_to_be(&rsk);
                    o.expect(&format!("C03:random-routes:{}", g), k2.to_be_bytes() == want && eb == want && ch.to_be_bytes() == want && ch2 == ch, "every seeded-RNG route derives KeyGen(rng.gen::<[u8;32]>())", "differs");
                }
                if let KeySrc::KeyGen(i) = src {
                    // the curve tagged wrapper derives the same key
                    let e = SecretKeyEnum::from_hash(if g == "G1" { Bls12381::G1 } else { Bls12381::G2 }, &self.seeds[*i]);
                    let eb = match &e {
                        SecretKeyEnum::G1(k) => k.to_be_bytes(),
                        SecretKeyEnum::G2(k) => k.to_be_bytes(),
                    };
                    o.expect(&format!("C03:secret-key-enum-from-hash:{}", g), eb == rf::scalar_to_be(&rsk), "equal", "differs");
                }
            }
            St::Sign(src, m, s) => {
                let (sk, rsk) = self.key(*src);
                let n = self.msgs.msgs.len();
                let special;
                let msg = if *m < n {
                    &self.msgs.msgs[*m]
                } else {
                    special = special_message(&Vec::<u8>::from(&sk.public_key()), *m - n);
                    &special
                };
                let sig = match guard(|| sk.sign(lib_scheme(*s), msg)) {
                    Ok(Ok(x)) => x,
                    r => {
                        o.expect(&format!("C03:sign-ok:{}:{}", g, s.name()), false, "Ok", verdict(&r));
                        return;
                    }
                };
                o.calls(1);
                let sgb = pt(sig.as_raw_value());
                let rsig = rf::sign::<C::R>(&rsk, *s, msg);
                let rsb = rf::enc(&rsig);
                let eq = sgb == rsb;
                o.expect(&format!("C03:signature-bytes:{}:{}", g, s.name()), eq, "equal to reference", "differs");
                o.outcome(if eq { "sign:bytes-equal" } else { "sign:bytes-differ" });
                o.record("sig", &sgb);
                // byte form of the wrapper: one scheme byte + compressed point
                let wire = Vec::<u8>::from(&sig);
                o.expect(&format!("C03:signature-wire-length:{}", g), wire.len() == sgb.len() + 1 && wire[1..] == sgb[..], "tag byte + compressed point", &format!("{} bytes", wire.len()));
                // cross verification
                let pkb = Vec::<u8>::from(&sk.public_key());
                let rv = rf::verify::<C::R>(&pkb, *s, msg, &sgb);
                o.expect(&format!("C03:reference-verifies-library-signature:{}:{}", g, s.name()), rv, "accept", "reject");
                let rpk = rf::enc(&rf::sk_to_pk::<C::R>(&rsk));
                let lv = match (pt_from::<SgP<C>>(&rsb), PublicKey::<C>::try_from(rpk.as_slice())) {
                    (Some(p), Ok(pk)) => guard(|| mk_sig::<C>(*s, p).verify(&pk, msg)).map(|r| r.is_ok()).unwrap_or(false),
                    _ => false,
                };
                o.calls(1);
                o.expect(&format!("C03:library-verifies-reference-signature:{}:{}", g, s.name()), lv, "accept", "reject");
            }
            St::Pop(src) => {
                let (sk, rsk) = self.key(*src);
                let pop = match guard(|| sk.proof_of_possession()) {
                    Ok(Ok(x)) => x,
                    r => {
                        o.expect(&format!("C03:pop-ok:{}", g), false, "Ok", verdict(&r));
                        return;
                    }
                };
                o.calls(1);
                let pb = Vec::<u8>::from(&pop);
                let rp = rf::enc(&rf::pop_prove::<C::R>(&rsk));
                o.expect(&format!("C03:pop-bytes:{}", g), pb == rp, "equal to reference PopProve", "differs");
                o.outcome(if pb == rp { "pop:bytes-equal" } else { "pop:bytes-differ" });
                let pkb = Vec::<u8>::from(&sk.public_key());
                o.expect(&format!("C03:reference-verifies-library-pop:{}", g), rf::pop_verify::<C::R>(&pkb, &pb), "accept", "reject");
                let lv = ProofOfPossession::<C>::try_from(rp.as_slice()).ok().map(|p| p.verify(sk.public_key()).is_ok()).unwrap_or(false);
                o.calls(1);
                o.expect(&format!("C03:library-verifies-reference-pop:{}", g), lv, "accept", "reject");
            }
            St::Agg(src, n, s) => {
                let mut sigs = vec![];
                let mut rsigs = vec![];
                let mut pairs = vec![];
                let mut lpairs = vec![];
                // n = 2, 3: distinct signers; n = 4, 5: the first (signer, message) pair occurs again at the end / in the middle
                let nn = *n;
                let signer_of = |d: usize| -> usize {
                    match nn {
                        4 if d == 2 => 0,
                        5 if d == 1 => 0,
                        _ => d,
                    }
                };
                let count = if nn >= 4 { 3 } else { nn };
                for d0 in 0..count {
                    let d = signer_of(d0);
                    let (sk, rsk) = self.key(self.next_src(*src, d));
                    let msg = self.msgs.msgs[3 + d].clone();
                    sigs.push(sk.sign(lib_scheme(*s), &msg).unwrap());
                    rsigs.push(rf::sign::<C::R>(&rsk, *s, &msg));
                    pairs.push((rf::enc(&rf::sk_to_pk::<C::R>(&rsk)), msg.clone()));
                    lpairs.push((sk.public_key(), msg));
                }
                let agg = match guard(|| AggregateSignature::<C>::from_signatures(&sigs)) {
                    Ok(Ok(x)) => x,
                    r => {
                        o.expect(&format!("C03:aggregate-ok:{}:{}", g, s.name()), false, "Ok", verdict(&r));
                        return;
                    }
                };
                o.calls(1 + count as u64);
                let wire = Vec::<u8>::from(&agg);
                let rb = rf::enc(&rf::aggregate::<C::R>(&rsigs));
                let eq = wire.len() == rb.len() + 1 && wire[1..] == rb[..];
                o.expect(&format!("C03:aggregate-bytes:{}:{}", g, s.name()), eq, "tag byte + reference point sum", "differs");
                o.outcome(if eq { "agg:bytes-equal" } else { "agg:bytes-differ" });
                // a repeated (key, message) pair repeats a message: refused by Basic, fine for the other two schemes
                let want = !(nn >= 4 && *s == Scheme::Basic);
                let rv = rf::aggregate_verify::<C::R>(*s, &pairs, &wire[1..]);
                o.expect(&format!("C03:reference-verifies-library-aggregate:{}:{}", g, s.name()), rv == want, if want { "accept" } else { "reject" }, if rv { "accept" } else { "reject" });
                let lv = guard(|| agg.verify(&lpairs)).map(|r| r.is_ok()).unwrap_or(false);
                o.calls(1);
                o.expect(&format!("C03:library-verifies-aggregate:{}:{}", g, s.name()), lv == want, if want { "accept" } else { "reject" }, if lv { "accept" } else { "reject" });
            }
            St::H2C(i) => {
                let (msg, unc) = &self.h2c[*i];
                let p = <C as HashToPoint>::hash_to_point(msg, &self.h2c_dst);
                o.calls(1);
                let lb = pt(&p);
                // compress the RFC's uncompressed vector with the reference backend
                let want: Vec<u8> = if unc.len() == 96 {
                    let a: [u8; 96] = unc.as_slice().try_into().unwrap();
                    bls12_381_plus::G1Affine::from_uncompressed(&a).unwrap().to_compressed().to_vec()
                } else {
                    let a: [u8; 192] = unc.as_slice().try_into().unwrap();
                    bls12_381_plus::G2Affine::from_uncompressed(&a).unwrap().to_compressed().to_vec()
                };
                o.expect(&format!("C03:hash-to-curve-rfc9380:{}", g), lb == want, "RFC 9380 vector", "differs");
                o.outcome(if lb == want { "h2c:vector-equal" } else { "h2c:vector-differs" });
                // and the x coordinate as printed in the RFC (the uncompressed form starts with it)
                let xlen = lb.len();
                let mut x = lb.clone();
                x[0] &= 0x1f;
                o.expect(&format!("C03:hash-to-curve-rfc9380-x:{}", g), x[..] == unc[..xlen], "x coordinate of the RFC vector", "differs");
            }
        }
    }
}

pub fn models(tier: Tier, seed: u64) -> Vec<Box<dyn DynModel>> {
    let h = crate::props::hist::MHist::new("C03", tier, seed);
    let d = h.depth();
    vec![
        bounded(M03::<Bls12381G1Impl>::new(tier, seed), 1),
        bounded(M03::<Bls12381G2Impl>::new(tier, seed), 1),
        // operation histories over both groups: the bytes are the IETF values whatever ran before
        bounded(h, d),
    ]
    .into_iter()
    .chain(crate::props::aggx::models("C03", tier, seed))
    .collect()
}

pub fn describe(_tier: Tier, r: &mut Report) {
    r.rule = "initial states = key sources (alphabet keys imported from bytes, from_hash over seeds of length 0/1/16/32/33/64/255, random() from 3 seeded ChaCha20 streams, sk = 1..999 against the zkcrypto i*G vectors) plus the RFC 9380 hash-to-curve vectors; actions apply one operation to a key: sign(message, scheme) for every message and scheme, proof_of_possession, aggregate of 2 or 3. Every state compares library bytes with the reference re-implementation and cross-verifies in both directions".into();
    r.deviation_bound_completed = "n/a (conformance tree, depth 1)".into();
    r.assumptions = vec![
        "KeyGen is checked in the form the property states it (salt used as given, not hashed)".into(),
        "anchors: RFC 9380 J.9.1/J.10.1 vectors and the zkcrypto compressed-encoding vectors, both run against the library and the reference".into(),
    ];
}
