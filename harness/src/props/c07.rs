//! C07 - multi-signatures verify against exactly the set of signers.
use crate::common::*;
use crate::engine::*;
use crate::refmodel::{self as rf, Scheme, SCHEMES};
use blsful::*;
use serde::{Deserialize, Serialize};
use std::marker::PhantomData;

#[derive(Copy, Clone, Debug, PartialEq, Eq, Hash, Serialize, Deserialize)]
pub enum Edit {
    Omit(usize),
    AddForeign,
    Replace(usize),
    DoubleCount(usize),
    Reorder,
    OtherMsg,
    /// the signed message starts with (1) / equals (2) the compressed accumulated key of the signers, (3) of a sub-set
    KeyBoundMsg(u8),
    /// signer i replaced by the negation of signer 0 in BOTH lists: a prefix sums to the identity, the whole does not
    NegatedSigner(usize),
    MsgFlip(usize),
    MsgTrunc,
    MsgExt,
}

#[derive(Clone, Debug, PartialEq, Eq, Hash, Serialize, Deserialize)]
pub enum St {
    Multi { s: Scheme, n: usize, edit: Option<Edit> },
    /// sequence of (scheme label, point value: false = honest signature, true = the identity point)
    From(Vec<(Scheme, bool)>),
}

#[derive(Clone, Debug, PartialEq)]
pub enum Act {
    Edit(Edit),
    Append(Scheme, bool),
}

pub struct M07<C: Suite> {
    tier: Tier,
    ns: Vec<usize>,
    /// signer counts explored without edits (honest accumulation, group sums, exact set accepted, one omission rejected)
    ns_plain: Vec<usize>,
    sks: Vec<SecretKey<C>>,
    pks: Vec<PublicKey<C>>,
    msg: Vec<u8>,
    sigs: Vec<Vec<Signature<C>>>,
    rsigs: Vec<Vec<<C::R as rf::RefSuite>::Sig>>,
    rpks: std::collections::HashMap<Vec<u8>, <C::R as rf::RefSuite>::Pk>,
    _c: PhantomData<C>,
}

impl<C: Suite> M07<C> {
    pub fn new(tier: Tier, seed: u64) -> Self {
        let ns: Vec<usize> = if tier.thorough() { (2..=64).collect() } else { vec![2, 3, 4, 5, 8, 16] };
        // every n up to 300 (block sizes of batched implementations, the 7 / 8 bit boundaries), and 512 / 1000 / 1024 with neighbours
        let ns_plain: Vec<usize> = (2..=300).chain([511, 512, 513, 1000, 1023, 1024, 1025, 4095, 4096, 4097, 4099]).filter(|n| !ns.contains(n)).collect();
        let nk = ns.iter().chain(ns_plain.iter()).max().unwrap() + 1;
        let sks: Vec<SecretKey<C>> = par_table(nk, |i| SecretKey::<C>::from_hash(format!("c07-key-{}", i)));
        let pks: Vec<PublicKey<C>> = par_table(nk, |i| sks[i].public_key());
        let msg = msg_of(seed, 12, 3);
        // (MessageAugmentation signatures are only used by the short accumulation lists)
        let sigs: Vec<Vec<Signature<C>>> = SCHEMES.iter().map(|s| par_table(if *s == Scheme::Aug { 8.min(nk) } else { nk }, |i| sks[i].sign(lib_scheme(*s), &msg).unwrap())).collect();
        // the same points decoded (and validated) once by the reference
        let rsigs: Vec<Vec<<C::R as rf::RefSuite>::Sig>> = sigs.iter().map(|l| par_table(l.len(), |i| <C::R as rf::RefSuite>::sig_from(&pt(l[i].as_raw_value())).unwrap())).collect();
        let rpks: std::collections::HashMap<Vec<u8>, <C::R as rf::RefSuite>::Pk> = par_table(nk, |i| (Vec::<u8>::from(&pks[i]), <C::R as rf::RefSuite>::pk_from(&Vec::<u8>::from(&pks[i])).unwrap())).into_iter().collect();
        M07 {
            tier,
            ns,
            ns_plain,
            sks,
            pks,
            msg,
            sigs,
            rsigs,
            rpks,
            _c: PhantomData,
        }
    }
}

impl<C: Suite> Model for M07<C> {
    type State = St;
    type Action = Act;
    fn name(&self) -> String {
        format!("c07-multisig/{}{}", C::G, if self.tier.thorough() { "/n<=64" } else { "" })
    }
    fn init(&self) -> Vec<St> {
        let mut v = vec![St::From(vec![])];
        for s in [Scheme::Basic, Scheme::Pop] {
            for &n in self.ns.iter().chain(self.ns_plain.iter()) {
                v.push(St::Multi { s, n, edit: None });
            }
        }
        v
    }
    fn actions(&self, st: &St) -> Vec<Act> {
        match st {
            St::From(l) if l.len() < 3 => SCHEMES.iter().flat_map(|s| [Act::Append(*s, false), Act::Append(*s, true)]).collect(),
            St::Multi { n, edit: None, .. } if self.ns_plain.contains(n) => vec![Act::Edit(Edit::Omit(0)), Act::Edit(Edit::Omit(*n - 1)), Act::Edit(Edit::Reorder)],
            St::Multi { n, edit: None, .. } => {
                let mut a = vec![];
                for i in 0..*n {
                    a.push(Act::Edit(Edit::Omit(i)));
                    a.push(Act::Edit(Edit::Replace(i)));
                    a.push(Act::Edit(Edit::DoubleCount(i)));
                }
                a.push(Act::Edit(Edit::AddForeign));
                a.push(Act::Edit(Edit::Reorder));
                a.push(Act::Edit(Edit::OtherMsg));
                for k in 1..=3u8 {
                    a.push(Act::Edit(Edit::KeyBoundMsg(k)));
                }
                if *n >= 3 {
                    a.push(Act::Edit(Edit::NegatedSigner(1)));
                    a.push(Act::Edit(Edit::NegatedSigner(*n - 1)));
                }
                a.push(Act::Edit(Edit::MsgTrunc));
                a.push(Act::Edit(Edit::MsgExt));
                let bits = self.msg.len() * 8;
                for b in 0..bits {
                    if *n <= 8 || b % 12 == 0 {
                        a.push(Act::Edit(Edit::MsgFlip(b)));
                    }
                }
                a
            }
            _ => vec![],
        }
    }
    fn step(&self, st: &St, a: &Act) -> Option<St> {
        match (st, a) {
            (St::From(l), Act::Append(s, z)) => {
                let mut l = l.clone();
                l.push((*s, *z));
                Some(St::From(l))
            }
            (St::Multi { s, n, edit: None }, Act::Edit(e)) => Some(St::Multi { s: *s, n: *n, edit: Some(*e) }),
            _ => None,
        }
    }
    fn describe(&self, st: &St) -> String {
        match st {
            St::From(l) => format!("{} MultiSignature::from_signatures over (scheme, is identity point) {:?}", C::G, l.iter().map(|(s, z)| (s.name(), *z)).collect::<Vec<_>>()),
            St::Multi { s, n, edit } => format!("{} {} n={} edit={:?}: multi-signature of n signers verified against the (edited) accumulated key / message", C::G, s.name(), n, edit),
        }
    }
    fn required_outcomes(&self) -> Vec<String> {
        vec!["exact-set:accept".into(), "edited:reject".into(), "from:ok".into(), "from:err".into(), "sum:equal".into()]
    }
    fn check(&self, st: &St, o: &mut Obs) {
        let g = C::G;
        o.nontrivial = true;
        match st {
            St::From(l) => {
                let sigs: Vec<Signature<C>> = l.iter().enumerate().map(|(i, (s, z))| if *z { mk_sig::<C>(*s, SgP::<C>::identity()) } else { self.sigs[s.idx()][i] }).collect();
                let r = guard(|| MultiSignature::<C>::from_signatures(&sigs));
                let r2 = guard(|| MultiSignature::<C>::try_from(sigs.as_slice()));
                o.calls(2);
                let same = l.iter().all(|(s, _)| *s == l[0].0);
                let any_identity = l.iter().any(|(_, z)| *z);
                let want = l.len() >= 2 && same && l[0].0 != Scheme::Aug;
                let ok = matches!(r, Ok(Ok(_)));
                o.outcome(if ok { "from:ok" } else { "from:err" });
                let cls = if l.len() < 2 {
                    "fewer-than-two"
                } else if l.iter().any(|(s, _)| *s == Scheme::Aug) && same {
                    "augmentation"
                } else if want {
                    "same-scheme"
                } else {
                    "mixed-schemes"
                };
                o.expect(&format!("C07:from_signatures-routes-agree:{}", g), matches!(r2, Ok(Ok(_))) == ok && r2.is_ok(), verdict(&r), verdict(&r2));
                if want && any_identity {
                    // whether identity valued entries of the right scheme are accumulated or refused is left open;
                    // a result, if any, is the plain sum
                    o.outcome("from:same-scheme-with-identity-entries-recorded");
                    if let Ok(Ok(m)) = &r {
                        let mut sum = SgP::<C>::identity();
                        for x in &sigs {
                            sum += x.as_raw_value();
                        }
                        o.expect(&format!("C07:from_signatures-with-identity-entries-is-sum:{}", g), *m.as_raw_value() == sum, "the plain sum", "differs");
                    }
                } else {
                    let cls = if any_identity { format!("{}-with-identity-entries", cls) } else { cls.to_string() };
                    o.expect(&format!("C07:from_signatures:{}:{}", g, cls), ok == want && r.is_ok(), if want { "Ok" } else { "Err" }, verdict(&r));
                }
            }
            St::Multi { s, n, edit } => {
                let (s, n) = (*s, *n);
                let sigs = &self.sigs[s.idx()][..n];
                let ms = match guard(|| MultiSignature::<C>::from_signatures(sigs)) {
                    Ok(Ok(m)) => m,
                    r => {
                        o.expect(&format!("C07:accumulate-honest:{}:{}", g, s.name()), false, "Ok", verdict(&r));
                        return;
                    }
                };
                // equals the plain group sum (reference arithmetic)
                let rsum = rf::aggregate::<C::R>(&self.rsigs[s.idx()][..n]);
                let eq = pt(ms.as_raw_value()) == rf::enc(&rsum);
                o.outcome(if eq { "sum:equal" } else { "sum:differs" });
                o.expect(&format!("C07:multisig-is-group-sum:{}:{}", g, s.name()), eq, "reference point sum", "differs");
                // edits that change what is SIGNED (the honest parties sign another message / another party signs)
                let (ms, sigs_owned): (MultiSignature<C>, Vec<Signature<C>>) = match edit {
                    Some(Edit::KeyBoundMsg(k)) => {
                        let apk = Vec::<u8>::from(&MultiPublicKey::<C>::from_public_keys(&self.pks[..if *k == 3 { n - 1 } else { n }]));
                        let m: Vec<u8> = if *k == 2 { apk.clone() } else { [apk.as_slice(), b" and a payload"].concat() };
                        let sg: Vec<Signature<C>> = self.sks[..n].iter().map(|x| x.sign(lib_scheme(s), &m).unwrap()).collect();
                        match MultiSignature::<C>::from_signatures(&sg) {
                            Ok(x) => (x, sg),
                            Err(e) => {
                                o.expect(&format!("C07:accumulate-honest:{}:{}:key-bound-message", g, s.name()), false, "Ok", &e.to_string());
                                return;
                            }
                        }
                    }
                    Some(Edit::NegatedSigner(i)) => {
                        let neg = SecretKey::<C>(-self.sks[0].0);
                        let mut sg: Vec<Signature<C>> = sigs.to_vec();
                        sg[*i] = neg.sign(lib_scheme(s), &self.msg).unwrap();
                        // bring the negated signer right behind signer 0
                        sg.swap(1, *i);
                        match MultiSignature::<C>::from_signatures(&sg) {
                            Ok(x) => (x, sg),
                            Err(e) => {
                                o.expect(&format!("C07:accumulate-honest:{}:{}:negated-signer", g, s.name()), false, "Ok", &e.to_string());
                                return;
                            }
                        }
                    }
                    _ => (ms, sigs.to_vec()),
                };
                let sigs = &sigs_owned[..];
                if matches!(edit, Some(Edit::KeyBoundMsg(_)) | Some(Edit::NegatedSigner(_))) {
                    let mut sum = SgP::<C>::identity();
                    for x in sigs {
                        sum += x.as_raw_value();
                    }
                    o.expect(&format!("C07:multisig-is-group-sum:{}:{}:{}", g, s.name(), cls_of(edit)), *ms.as_raw_value() == sum, "the plain sum of the parts", "differs");
                }
                let mut keys: Vec<PublicKey<C>> = self.pks[..n].to_vec();
                let foreign = self.pks[self.pks.len() - 1];
                let mut msg = self.msg.clone();
                let mut cls = "exact-set".to_string();
                let mut want = true;
                if let Some(e) = edit {
                    cls = format!("{:?}", e).split('(').next().unwrap().to_string();
                    want = false;
                    match *e {
                        Edit::Omit(i) => {
                            keys.remove(i);
                        }
                        Edit::AddForeign => keys.push(foreign),
                        Edit::Replace(i) => keys[i] = foreign,
                        Edit::DoubleCount(i) => keys.push(keys[i]),
                        Edit::Reorder => {
                            keys.reverse();
                            want = true;
                        }
                        Edit::OtherMsg => msg = b"another message".to_vec(),
                        Edit::KeyBoundMsg(k) => {
                            let apk = Vec::<u8>::from(&MultiPublicKey::<C>::from_public_keys(&self.pks[..if k == 3 { n - 1 } else { n }]));
                            msg = if k == 2 { apk.clone() } else { [apk.as_slice(), b" and a payload"].concat() };
                            want = true;
                        }
                        Edit::NegatedSigner(i) => {
                            keys[i] = SecretKey::<C>(-self.sks[0].0).public_key();
                            keys.swap(1, i);
                            want = true;
                        }
                        Edit::MsgFlip(b) => msg[b / 8] ^= 1 << (b % 8),
                        Edit::MsgTrunc => {
                            msg.pop();
                        }
                        Edit::MsgExt => msg.push(0),
                    }
                }
                let mpk = MultiPublicKey::<C>::from_public_keys(&keys);
                let mpk2 = MultiPublicKey::<C>::from(keys.as_slice());
                o.expect(&format!("C07:multikey-constructors-agree:{}", g), mpk == mpk2, "equal", "differ");
                let mut rk = <<C::R as rf::RefSuite>::Pk as bls12_381_plus::group::Group>::identity();
                for k in &keys {
                    let kb = Vec::<u8>::from(k);
                    rk += match self.rpks.get(&kb) {
                        Some(p) => *p,
                        None => <C::R as rf::RefSuite>::pk_from(&kb).unwrap(),
                    };
                }
                o.expect(&format!("C07:multikey-is-group-sum:{}", g), Vec::<u8>::from(&mpk) == rf::enc(&rk), "reference point sum", "differs");
                if edit.is_none() && n <= 5 {
                    expect_ct_move(o, "C07", &format!("MultiSignature<{}>", g), &ms, &mk_multi_sig::<C>(s, *sigs[0].as_raw_value()));
                    expect_ct_move(o, "C07", &format!("MultiPublicKey<{}>", g), &mpk, &MultiPublicKey::<C>(foreign.0));
                }
                let v = guard(|| ms.verify(mpk, &msg));
                o.calls(3);
                let acc = matches!(v, Ok(Ok(())));
                // trait level routes: aggregate_public_keys / from_public_keys / from_signatures / aggregate_signatures / multi_sig_verify
                {
                    let a1 = <C as BlsSignatureCore>::aggregate_public_keys(keys.iter().map(|k| k.0));
                    let a2 = <C as BlsMultiKey>::from_public_keys(keys.iter().map(|k| k.0));
                    o.expect(&format!("C07:trait-key-accumulation-agrees:{}", g), a1 == mpk.0 && a2 == mpk.0, "equal", "differ");
                    // the same lists as iterators of every shape (size hints exact, absent, partial)
                    if n <= 16 {
                        let raw_keys: Vec<PkP<C>> = keys.iter().map(|k| k.0).collect();
                        let raw_sigs: Vec<SgP<C>> = sigs.iter().map(|x| *x.as_raw_value()).collect();
                        for ((shape, it1), (_, it2)) in iterator_shapes(&raw_keys).into_iter().zip(iterator_shapes(&raw_keys)) {
                            let b1 = <C as BlsSignatureCore>::aggregate_public_keys(it1);
                            let b2 = <C as BlsMultiKey>::from_public_keys(it2);
                            o.expect(&format!("C07:trait-key-accumulation-iterator-shape:{}:{}", g, shape), b1 == mpk.0 && b2 == mpk.0, "the same accumulated key", "differs");
                        }
                        for ((shape, it1), (_, it2)) in iterator_shapes(&raw_sigs).into_iter().zip(iterator_shapes(&raw_sigs)) {
                            let b1 = <C as BlsSignatureCore>::aggregate_signatures(it1);
                            let b2 = <C as BlsMultiSignature>::from_signatures(it2);
                            o.expect(&format!("C07:trait-signature-accumulation-iterator-shape:{}:{}", g, shape), b1 == *ms.as_raw_value() && b2 == b1, "the same accumulated signature", "differs");
                        }
                        if s == Scheme::Pop {
                            for (shape, it) in iterator_shapes(&raw_keys) {
                                let tv = guard(|| <C as BlsSignaturePop>::multi_sig_verify(it, *ms.as_raw_value(), &msg));
                                o.expect(&format!("C07:trait-multi_sig_verify-iterator-shape:{}:{}", g, shape), matches!(tv, Ok(Ok(()))) == acc && tv.is_ok(), verdict(&v), verdict(&tv));
                            }
                        }
                    }
                    let s1 = <C as BlsSignatureCore>::aggregate_signatures(sigs.iter().map(|x| *x.as_raw_value()));
                    let s2 = <C as BlsMultiSignature>::from_signatures(sigs.iter().map(|x| *x.as_raw_value()));
                    o.expect(&format!("C07:trait-signature-accumulation-agrees:{}", g), s1 == *ms.as_raw_value() && s2 == s1, "equal", "differ");
                    if s == Scheme::Pop {
                        let tv = guard(|| <C as BlsSignaturePop>::multi_sig_verify(keys.iter().map(|k| k.0), *ms.as_raw_value(), &msg));
                        o.calls(1);
                        o.expect(&format!("C07:trait-multi_sig_verify-agrees:{}:{}", g, cls_of(edit)), matches!(tv, Ok(Ok(()))) == acc && tv.is_ok(), verdict(&v), verdict(&tv));
                    }
                }
                o.record("acc", &[acc as u8]);
                if want {
                    o.outcome(if acc { "exact-set:accept" } else { "exact-set:reject" });
                } else {
                    o.outcome(if acc { "edited:accept" } else { "edited:reject" });
                }
                o.expect(&format!("C07:verify:{}:{}:{}", g, s.name(), cls), acc == want && v.is_ok(), if want { "accept" } else { "reject" }, verdict(&v));
                let r = rf::verify::<C::R>(&Vec::<u8>::from(&mpk), s, &msg, &pt(ms.as_raw_value()));
                o.expect(&format!("C07:verify-vs-reference:{}:{}:{}", g, s.name(), cls), acc == r, if r { "accept" } else { "reject" }, verdict(&v));
                let _ = &self.sks;
            }
        }
    }
}

fn cls_of(e: &Option<Edit>) -> String {
    e.map(|e| format!("{:?}", e).split('(').next().unwrap().to_string()).unwrap_or("exact-set".into())
}

fn depth_of<C: Suite>(_m: &M07<C>, s: &St) -> usize {
    match s {
        St::From(l) => l.len(),
        St::Multi { edit, .. } => edit.is_some() as usize,
    }
}

pub fn models(tier: Tier, seed: u64) -> Vec<Box<dyn DynModel>> {
    let mut v = vec![
        bounded_cross(M07::<Bls12381G1Impl>::new(Tier::Quick, seed), 3, depth_of::<Bls12381G1Impl>),
        bounded_cross(M07::<Bls12381G2Impl>::new(Tier::Quick, seed), 3, depth_of::<Bls12381G2Impl>),
    ];
    if tier.thorough() {
        v.push(bounded(M07::<Bls12381G1Impl>::new(tier, seed), 3));
        v.push(bounded(M07::<Bls12381G2Impl>::new(tier, seed), 3));
    }
    v
}

pub fn describe(tier: Tier, r: &mut Report) {
    r.rule = "signer-set machine: initial states = honest multi-signature of n signers (Basic and ProofOfPossession) over one message; one action edits the accumulated key (omit / replace / double count signer i for every i, add a foreign signer, reorder) or the message (other, truncate, extend, bit flips); the accumulation refusal lattice is the sequence machine over all sequences of length <= 3 of (scheme label, honest point | identity point), through from_signatures and TryFrom<&[Signature]>".into();
    r.deviation_bound_completed = "1 edit; sequences of length 3".into();
    r.alphabet.insert("n".into(), serde_json::json!(if tier.thorough() { "every n in 2..=64" } else { "n in {2,3,4,5,8,16}" }));
    r.assumptions = vec!["signer keys are distinct hash-derived keys".into()];
}
