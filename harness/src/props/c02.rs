//! C02 - verification accepts exactly the one valid signature and nothing else; the decision
//! always equals an independent CoreVerify.
use crate::common::*;
use crate::engine::*;
use crate::refmodel::{self as rf, Scheme, SCHEMES};
use blsful::*;
use serde::{Deserialize, Serialize};
use std::marker::PhantomData;

#[derive(Copy, Clone, Debug, PartialEq, Eq, Hash, Serialize, Deserialize)]
pub enum SigOp {
    AddG,
    Add2G,
    SubG,
    Neg,
    Dbl,
    Triple,
    OtherMsg,
    OtherKey,
    Identity,
    /// same point, different projective representation: must still be accepted
    Repr,
    /// sig + a point outside the subgroup, presented through a decoder (0 bytes, 1 serde_bare, 2 serde_json)
    AddTorsion(u8),
}
#[derive(Copy, Clone, Debug, PartialEq, Eq, Hash, Serialize, Deserialize)]
pub enum MsgOp {
    /// msg := compressed pk bytes || msg (the signature stays the one over msg)
    PrependPk,
    /// msg := compressed pk bytes alone
    ReplaceByPk,
    Flip(usize),
    Trunc(usize),
    Ext(u8),
    Empty,
    Other,
}
#[derive(Copy, Clone, Debug, PartialEq, Eq, Hash, Serialize, Deserialize)]
pub enum PkOp {
    Other,
    AddG,
    Neg,
    Identity,
    Repr,
    /// pk + a point outside the subgroup, presented through a decoder (0 bytes, 1 serde_bare, 2 serde_json)
    AddTorsion(u8),
}

#[derive(Clone, Debug, PartialEq, Eq, Hash, Serialize, Deserialize)]
pub struct St {
    s: Scheme,
    k: usize,
    m: usize,
    sig: Option<SigOp>,
    msg: Option<MsgOp>,
    pk: Option<PkOp>,
    label: Option<Scheme>,
    /// key-sum with signature-sum (valid for Basic / Pop): 0 = single signer, else an index into `MULTI`
    sum_both: u8,
}

/// signer lists (0 = the base key, 1 = the other key) for the accumulated key and for the accumulated signature;
/// the key is accumulated by the library (`MultiPublicKey::from_public_keys`), the reference sums the same list itself
const MULTI: [(&[usize], &[usize]); 8] = [
    (&[0], &[0]),
    (&[0, 1], &[0, 1]),
    (&[0, 1, 0], &[0, 1, 0]),
    (&[0, 0], &[0, 0]),
    (&[1, 0, 0], &[0, 0, 1]),
    // a repeated signer counted once in the signature only: must be rejected
    (&[0, 1, 0], &[0, 1]),
    // signer 2 is the negation of signer 0: a prefix of the list sums to the identity, the whole list does not
    (&[0, 2, 1], &[0, 2, 1]),
    (&[0, 1, 2, 1], &[0, 1, 2, 1]),
];

impl St {
    fn devs(&self) -> usize {
        self.sig.is_some() as usize
            + self.msg.is_some() as usize
            + self.pk.is_some() as usize
            + self.label.is_some() as usize
            + (self.sum_both != 0) as usize
    }
}

#[derive(Clone, Debug, PartialEq)]
pub enum Act {
    Sig(SigOp),
    Msg(MsgOp),
    Pk(PkOp),
    Label(Scheme),
    SumBoth(u8),
}

pub struct M02<C: Suite> {
    tier: Tier,
    sks: Vec<SecretKey<C>>,
    msgs: Vec<Vec<u8>>,
    _c: PhantomData<C>,
}

const R_SIG: [SigOp; 5] = [SigOp::OtherMsg, SigOp::OtherKey, SigOp::Neg, SigOp::AddG, SigOp::Identity];
const R_PK: [PkOp; 4] = [PkOp::Other, PkOp::AddG, PkOp::Neg, PkOp::Identity];

impl<C: Suite> M02<C> {
    pub fn new(tier: Tier, seed: u64) -> Self {
        let ka = key_alphabet(seed, false);
        // base keys: a derived key and r-1; "other" key: another derived key
        let idx = [3usize, 2, 4];
        let sks = idx.iter().map(|i| sk_from_be::<C>(&ka.be[*i]).unwrap()).collect();
        // base messages 0..3, then the "other" message, then the long base (64 KiB + 1: 16 bit length arithmetic)
        let msgs = vec![vec![], msg_of(seed, 33, 3), msg_of(seed, 257, 3), msg_of(seed, 40, 2), msg_of(seed, 65537, 3)];
        M02 {
            tier,
            sks,
            msgs,
            _c: PhantomData,
        }
    }
    fn restricted_msg(&self, m: usize) -> Vec<MsgOp> {
        let len = self.msgs[m].len();
        let mut v = vec![MsgOp::Other, MsgOp::Ext(0), MsgOp::PrependPk];
        if len > 0 {
            v.push(MsgOp::Flip(0));
            v.push(MsgOp::Empty);
        }
        v
    }
    fn msg_ops(&self, m: usize) -> Vec<MsgOp> {
        let len = self.msgs[m].len();
        let mut v = vec![];
        if len > 4096 {
            // long base: flips at both ends and around the 64 KiB boundary, truncation to / across the boundary
            for byte in [0usize, 1, 4096, 16383, 16384, 65534, 65535, len - 1] {
                v.push(MsgOp::Flip(byte * 8));
                v.push(MsgOp::Flip(byte * 8 + 7));
            }
            for l in [1usize, 16384, 65535, 65536] {
                v.push(MsgOp::Trunc(l));
            }
            v.extend([MsgOp::Ext(0x00), MsgOp::Ext(0xFF), MsgOp::Empty, MsgOp::Other, MsgOp::PrependPk, MsgOp::ReplaceByPk]);
            return v;
        }
        for i in 0..len * 8 {
            let all = self.tier.thorough() || len <= 33 || i < 8 || i >= (len - 1) * 8;
            if all || i % 8 == (i / 8) % 8 {
                v.push(MsgOp::Flip(i));
            }
        }
        for l in 1..len {
            v.push(MsgOp::Trunc(l));
        }
        v.push(MsgOp::Ext(0x00));
        v.push(MsgOp::Ext(0xFF));
        if len > 0 {
            v.push(MsgOp::Empty);
        }
        v.push(MsgOp::Other);
        v.push(MsgOp::PrependPk);
        v.push(MsgOp::ReplaceByPk);
        v
    }
    /// the other base key index
    fn other_k(k: usize) -> usize {
        if k == 0 {
            1
        } else {
            0
        }
    }
    fn other_m(&self, m: usize) -> usize {
        if m == 3 {
            1
        } else {
            3
        }
    }
    /// the long base explores single deviations only
    fn long(&self, m: usize) -> bool {
        self.msgs[m].len() > 4096
    }
}

impl<C: Suite> Model for M02<C> {
    type State = St;
    type Action = Act;
    fn name(&self) -> String {
        format!("c02-verify-exact/{}", C::G)
    }
    fn init(&self) -> Vec<St> {
        let mut v = vec![];
        for s in SCHEMES {
            for k in 0..2 {
                for m in [0usize, 1, 2, 4] {
                    v.push(St {
                        s,
                        k,
                        m,
                        sig: None,
                        msg: None,
                        pk: None,
                        label: None,
                        sum_both: 0,
                    });
                }
            }
        }
        v
    }
    fn actions(&self, st: &St) -> Vec<Act> {
        let mut a = vec![];
        match st.devs() {
            0 => {
                for o in [
                    SigOp::AddG,
                    SigOp::Add2G,
                    SigOp::SubG,
                    SigOp::Neg,
                    SigOp::Dbl,
                    SigOp::Triple,
                    SigOp::OtherMsg,
                    SigOp::OtherKey,
                    SigOp::Identity,
                    SigOp::Repr,
                    SigOp::AddTorsion(0),
                    SigOp::AddTorsion(1),
                    SigOp::AddTorsion(2),
                ] {
                    a.push(Act::Sig(o));
                }
                for o in self.msg_ops(st.m) {
                    a.push(Act::Msg(o));
                }
                for o in [PkOp::Other, PkOp::AddG, PkOp::Neg, PkOp::Identity, PkOp::Repr, PkOp::AddTorsion(0), PkOp::AddTorsion(1), PkOp::AddTorsion(2)] {
                    a.push(Act::Pk(o));
                }
                for l in SCHEMES {
                    if l != st.s {
                        a.push(Act::Label(l));
                    }
                }
                for i in 1..MULTI.len() as u8 {
                    a.push(Act::SumBoth(i));
                }
            }
            1 if self.long(st.m) => {}
            1 => {
                // second deviation: restricted operator sets, different component, canonical order
                let in_r = st.sig.map(|o| R_SIG.contains(&o)).unwrap_or(false)
                    || st.msg.map(|o| self.restricted_msg(st.m).contains(&o)).unwrap_or(false);
                if !in_r || st.sum_both != 0 || st.label.is_some() {
                    return a;
                }
                if st.sig.is_some() {
                    for o in self.restricted_msg(st.m) {
                        a.push(Act::Msg(o));
                    }
                }
                if st.sig.is_some() || st.msg.is_some() {
                    for o in R_PK {
                        a.push(Act::Pk(o));
                    }
                }
            }
            _ => {}
        }
        a
    }
    fn step(&self, st: &St, a: &Act) -> Option<St> {
        let mut n = st.clone();
        match a {
            Act::Sig(o) => n.sig = Some(*o),
            Act::Msg(o) => n.msg = Some(*o),
            Act::Pk(o) => n.pk = Some(*o),
            Act::Label(l) => n.label = Some(*l),
            Act::SumBoth(i) => n.sum_both = *i,
        }
        Some(n)
    }
    fn describe(&self, st: &St) -> String {
        format!(
            "{} {} key#{} msg(len={}) sig:{:?} msg:{:?} pk:{:?} label:{:?} sum_both:{}",
            C::G,
            st.s.name(),
            st.k,
            self.msgs[st.m].len(),
            st.sig,
            st.msg,
            st.pk,
            st.label,
            st.sum_both
        )
    }
    fn required_outcomes(&self) -> Vec<String> {
        vec![
            "dev0:accept".into(),
            "dev1:reject".into(),
            "dev1:accept".into(),
            "dev2:reject".into(),
            "dev2:accept".into(),
        ]
    }
    fn check(&self, st: &St, o: &mut Obs) {
        let g = C::G;
        let sk = &self.sks[st.k];
        let sk2 = &self.sks[Self::other_k(st.k)];
        let msg0 = &self.msgs[st.m];
        let msg_other = &self.msgs[self.other_m(st.m)];
        let lscheme = lib_scheme(st.s);
        let gen_s = SgP::<C>::generator();
        let gen_p = PkP::<C>::generator();
        let honest = *sk.sign(lscheme, msg0).expect("honest sign").as_raw_value();
        // --- apply the deviations ---
        let mut sig = honest;
        let mut opclass = String::new();
        let mut expect_accept = true;
        if let Some(op) = st.sig {
            opclass += &format!("sig.{:?}", op);
            sig = match op {
                SigOp::AddG => honest + gen_s,
                SigOp::Add2G => honest + gen_s + gen_s,
                SigOp::SubG => honest - gen_s,
                SigOp::Neg => -honest,
                SigOp::Dbl => honest + honest,
                SigOp::Triple => honest + honest + honest,
                SigOp::OtherMsg => *sk.sign(lscheme, msg_other).unwrap().as_raw_value(),
                SigOp::OtherKey => *sk2.sign(lscheme, msg0).unwrap().as_raw_value(),
                SigOp::Identity => SgP::<C>::identity(),
                SigOp::Repr => (honest + gen_s) - gen_s,
                SigOp::AddTorsion(dec) => {
                    // through a decoder: one scheme byte + compressed point (bytes / serde_bare), or the JSON document
                    let hs = mk_sig::<C>(st.s, honest);
                    let mut wire = Vec::<u8>::from(&hs);
                    let tb = rf::torsion_perturbed(&wire[1..]).expect("torsion point");
                    let json = String::from_utf8(serde_json::to_vec(&hs).unwrap()).unwrap().replace(&hex::encode(&wire[1..]), &hex::encode(&tb));
                    wire.truncate(1);
                    wire.extend_from_slice(&tb);
                    match guard(|| match dec {
                        0 => Signature::<C>::try_from(wire.as_slice()).map_err(|e| e.to_string()),
                        1 => serde_bare::from_slice::<Signature<C>>(&wire).map_err(|e| e.to_string()),
                        _ => serde_json::from_str::<Signature<C>>(&json).map_err(|e| e.to_string()),
                    }) {
                        Ok(Ok(sg)) => *sg.as_raw_value(),
                        Ok(Err(_)) => {
                            o.outcome("torsion:decoder-refuses");
                            o.outcome("dev1:reject");
                            return;
                        }
                        Err(p) => {
                            o.expect(&format!("C02:decode-panics:{}", g), false, "returns", &p);
                            return;
                        }
                    }
                }
            };
            if op != SigOp::Repr {
                expect_accept = false;
            }
            if matches!(op, SigOp::AddTorsion(_)) {
                opclass = "sig.AddTorsion".into();
            }
        }
        let mut msg = msg0.clone();
        if let Some(op) = st.msg {
            opclass += &format!("msg.{}", match op {
                MsgOp::PrependPk => "PrependPk",
                MsgOp::ReplaceByPk => "ReplaceByPk",
                MsgOp::Flip(_) => "Flip",
                MsgOp::Trunc(_) => "Trunc",
                MsgOp::Ext(_) => "Ext",
                MsgOp::Empty => "Empty",
                MsgOp::Other => "Other",
            });
            match op {
                MsgOp::PrependPk => {
                    let mut m = Vec::<u8>::from(&sk.public_key());
                    m.extend_from_slice(&msg);
                    msg = m;
                }
                MsgOp::ReplaceByPk => msg = Vec::<u8>::from(&sk.public_key()),
                MsgOp::Flip(i) => msg[i / 8] ^= 1 << (i % 8),
                MsgOp::Trunc(l) => msg.truncate(l),
                MsgOp::Ext(b) => msg.push(b),
                MsgOp::Empty => msg.clear(),
                MsgOp::Other => msg = msg_other.clone(),
            }
            expect_accept = false;
        }
        let mut pk = sk.public_key().0;
        if let Some(op) = st.pk {
            opclass += &format!("pk.{:?}", op);
            pk = match op {
                PkOp::Other => sk2.public_key().0,
                PkOp::AddG => pk + gen_p,
                PkOp::Neg => -pk,
                PkOp::Identity => PkP::<C>::identity(),
                PkOp::Repr => (pk + gen_p) - gen_p,
                PkOp::AddTorsion(dec) => {
                    let tb = rf::torsion_perturbed(&pt(&pk)).expect("torsion point");
                    match guard(|| match dec {
                        0 => PublicKey::<C>::try_from(tb.as_slice()).map_err(|e| e.to_string()),
                        1 => serde_bare::from_slice::<PublicKey<C>>(&tb).map_err(|e| e.to_string()),
                        _ => serde_json::from_str::<PublicKey<C>>(&format!("\"{}\"", hex::encode(&tb))).map_err(|e| e.to_string()),
                    }) {
                        Ok(Ok(k)) => k.0,
                        Ok(Err(_)) => {
                            o.outcome("torsion:decoder-refuses");
                            o.outcome(&format!("dev{}:reject", st.devs()));
                            return;
                        }
                        Err(p) => {
                            o.expect(&format!("C02:decode-panics:{}", g), false, "returns", &p);
                            return;
                        }
                    }
                }
            };
            if op != PkOp::Repr {
                expect_accept = false;
            }
            if matches!(op, PkOp::AddTorsion(_)) {
                opclass = opclass.split("pk.").next().unwrap_or("").to_string() + "pk.AddTorsion";
            }
        }
        let mut label = st.s;
        if let Some(l) = st.label {
            opclass += "label";
            label = l;
            expect_accept = false;
        }
        let mut ref_pk_override = None;
        if st.sum_both != 0 {
            let (kl, sl) = MULTI[st.sum_both as usize];
            opclass += &format!("sum_both[keys={:?},sigs={:?}]", kl, sl);
            let neg = SecretKey::<C>(-sk.0);
            let pick = |i: usize| match i {
                0 => sk,
                1 => sk2,
                _ => &neg,
            };
            let keys: Vec<PublicKey<C>> = kl.iter().map(|i| pick(*i).public_key()).collect();
            pk = MultiPublicKey::<C>::from_public_keys(&keys).0;
            let mut rk = <<C::R as rf::RefSuite>::Pk as bls12_381_plus::group::Group>::identity();
            for k in &keys {
                rk += <C::R as rf::RefSuite>::pk_from(&Vec::<u8>::from(k)).expect("honest key decodes in the reference");
            }
            ref_pk_override = Some(rf::enc(&rk));
            if st.s != Scheme::Aug && st.sig.is_none() && sl[0] == 0 {
                // accumulated by the library (the first part is the honest signature of the base key)
                let parts: Vec<Signature<C>> = sl.iter().map(|i| pick(*i).sign(lscheme, msg0).unwrap()).collect();
                match MultiSignature::<C>::from_signatures(&parts) {
                    Ok(m) => sig = *m.as_raw_value(),
                    Err(e) => {
                        o.expect(&format!("C02:multi-signature-accumulates:{}:{}", g, st.s.name()), false, "Ok", &e.to_string());
                        return;
                    }
                }
            } else {
                for i in &sl[1..] {
                    sig += *pick(*i).sign(lscheme, msg0).unwrap().as_raw_value();
                }
            }
            let mut a = kl.to_vec();
            let mut b = sl.to_vec();
            a.sort();
            b.sort();
            if st.s == Scheme::Aug || a != b {
                expect_accept = false;
            }
        }
        if opclass.is_empty() {
            opclass = "honest".into();
        }
        o.nontrivial = true;
        let devs = st.devs();
        // --- independent reference on the same bytes ---
        let pkb = ref_pk_override.unwrap_or_else(|| pt(&pk));
        let sgb = pt(&sig);
        let r = rf::verify::<C::R>(&pkb, label, &msg, &sgb);
        // --- the three library entry points ---
        let pkw = PublicKey::<C>(pk);
        let v1 = guard(|| mk_sig::<C>(label, sig).verify(&pkw, &msg));
        let v2 = guard(|| mk_multi_sig::<C>(label, sig).verify(MultiPublicKey::<C>(pk), &msg));
        let v3 = guard(|| mk_pk_share::<C>(1, &pk).verify(&mk_sig_share::<C>(label, 1, &sig), &msg));
        // the scheme traits' own verify functions (public API as well)
        let v4 = guard(|| match label {
            Scheme::Basic => <C as BlsSignatureBasic>::verify(pk, sig, &msg),
            Scheme::Aug => <C as BlsSignatureMessageAugmentation>::verify(pk, sig, &msg),
            Scheme::Pop => <C as BlsSignaturePop>::verify(pk, sig, &msg),
        });
        let v5 = guard(|| <C as BlsSignatureCore>::core_verify(pk, sig, if label == Scheme::Aug { rf::aug_msg::<C::R>(&<C::R as rf::RefSuite>::pk_from(&pkb).unwrap_or(<<C::R as rf::RefSuite>::Pk as bls12_381_plus::group::Group>::identity()), &msg) } else { msg.clone() }, rf::sig_dst::<C::R>(label)));
        o.calls(5);
        for (entry, v) in [("Signature::verify", &v1), ("MultiSignature::verify", &v2), ("PublicKeyShare::verify", &v3), ("trait::verify", &v4), ("BlsSignatureCore::core_verify", &v5)] {
            let acc = matches!(v, Ok(Ok(())));
            o.record(entry, verdict(v).as_bytes());
            o.expect(
                &format!("C02:decision-vs-reference:{}:{}:{}:{}", entry, g, label.name(), opclass),
                acc == r && v.is_ok(),
                if r { "accept (reference accepts)" } else { "reject (reference rejects)" },
                verdict(v),
            );
            if devs <= 1 {
                // the property's own table: a single non-compensated change must be rejected, a valid relative accepted
                o.expect(
                    &format!("C02:table:{}:{}:{}:{}", entry, g, label.name(), opclass),
                    acc == expect_accept,
                    if expect_accept { "accept" } else { "reject" },
                    verdict(v),
                );
            }
        }
        let acc = matches!(v1, Ok(Ok(())));
        o.outcome(&format!("dev{}:{}", devs, if acc { "accept" } else { "reject" }));
    }
}

// ---- honest tuples whose signature or key has a searched byte pattern, received through every decoder ------------
//
// "Exactly the signature verifies" includes that THE signature verifies however its holder received it. The message and
// key alphabets hold values found by search whose signature (under the first derived key) or public key has an encoding
// next to what a decoder special-cases: a coordinate starting with the first one / two / three bytes of the field
// modulus, 16 leading zero bits, a tail of CR LF / NUL NUL / spaces. State: (key, message, scheme, codec of the
// signature, codec of the key); the received tuple must verify, and must not for the neighbouring message.

#[derive(Clone, Debug, PartialEq, Eq, Hash, Serialize, Deserialize)]
pub struct PatSt {
    /// index into the pattern key list (0 = the first derived key, under which the pattern messages were searched)
    k: usize,
    m: usize,
    s: Scheme,
    sig_c: Codec,
    pk_c: Codec,
}

pub struct M02Pattern<C: Suite> {
    keys: Vec<(String, SecretKey<C>)>,
    msgs: Vec<(String, Vec<u8>)>,
    _c: PhantomData<C>,
}

impl<C: Suite> M02Pattern<C> {
    pub fn new(seed: u64) -> Self {
        let ka = key_alphabet(seed, false);
        let mut keys = vec![(ka.names[3].clone(), sk_from_be::<C>(&ka.be[3]).unwrap())];
        keys.extend(pattern_keys(seed).into_iter().map(|(n, b)| (n, sk_from_be::<C>(&b).unwrap())));
        let ma = msg_alphabet(seed, false);
        let mut msgs: Vec<(String, Vec<u8>)> = vec![("plain".into(), b"c02 pattern plain message".to_vec())];
        msgs.extend(ma.names.iter().zip(ma.msgs.iter()).filter(|(n, _)| n.contains("content=pattern:")).map(|(n, m)| (n.clone(), m.clone())));
        M02Pattern { keys, msgs, _c: PhantomData }
    }
}

impl<C: Suite> Model for M02Pattern<C> {
    type State = Option<PatSt>;
    type Action = PatSt;
    fn name(&self) -> String {
        format!("c02-searched-byte-patterns-through-every-decoder/{}", C::G)
    }
    fn init(&self) -> Vec<Option<PatSt>> {
        vec![None]
    }
    fn actions(&self, st: &Option<PatSt>) -> Vec<PatSt> {
        if st.is_some() {
            return vec![];
        }
        let mut v = vec![];
        for s in SCHEMES {
            for c in DECODERS {
                // pattern messages under the first derived key: the signature travels
                for m in 0..self.msgs.len() {
                    v.push(PatSt { k: 0, m, s, sig_c: c, pk_c: Codec::None });
                }
                // pattern keys with the plain message: the key travels, and key and signature together
                for k in 1..self.keys.len() {
                    v.push(PatSt { k, m: 0, s, sig_c: Codec::None, pk_c: c });
                    v.push(PatSt { k, m: 0, s, sig_c: c, pk_c: c });
                }
            }
        }
        v
    }
    fn step(&self, _s: &Option<PatSt>, a: &PatSt) -> Option<Option<PatSt>> {
        Some(Some(a.clone()))
    }
    fn describe(&self, st: &Option<PatSt>) -> String {
        match st {
            None => "root".into(),
            Some(st) => format!("{} {} {} / {}: signature received through {:?}, key through {:?}; verify, and verify for the neighbouring message", C::G, st.s.name(), self.keys[st.k].0, self.msgs[st.m].0, st.sig_c, st.pk_c),
        }
    }
    fn required_outcomes(&self) -> Vec<String> {
        vec!["pattern:received-and-accepted".into()]
    }
    fn check(&self, st: &Option<PatSt>, o: &mut Obs) {
        let Some(st) = st else { return };
        o.nontrivial = true;
        let g = C::G;
        let sk = &self.keys[st.k].1;
        let msg = &self.msgs[st.m].1;
        let sig = sk.sign(lib_scheme(st.s), msg).expect("honest sign");
        let pk = sk.public_key();
        let want = rf::verify::<C::R>(&Vec::<u8>::from(&pk), st.s, msg, &pt(sig.as_raw_value()));
        let r = guard(|| -> Result<(bool, bool), String> {
            let rsig = if st.sig_c == Codec::None { sig } else { transport_sig::<C>(&sig, st.sig_c)? };
            let rpk = if st.pk_c == Codec::None { pk } else { transport_pk::<C>(&pk, st.pk_c)? };
            let mut other = msg.clone();
            other.push(0);
            Ok((rsig.verify(&rpk, msg).is_ok(), rsig.verify(&rpk, &other).is_ok()))
        });
        o.calls(4);
        let what = if st.k == 0 { "signature-pattern" } else { "key-pattern" };
        let ok = matches!(r, Ok(Ok((true, false)))) && want;
        o.outcome(if ok { "pattern:received-and-accepted" } else { "pattern:lost-or-wrong" });
        o.expect(&format!("C02:searched-pattern:{}:{}:{}:sig-{:?}:pk-{:?}", g, st.s.name(), what, st.sig_c, st.pk_c), ok, "received, accepted for its message, rejected for the neighbour (the reference accepts)", &format!("{:?}", r));
    }
}

pub fn models(tier: Tier, seed: u64) -> Vec<Box<dyn DynModel>> {
    vec![
        bounded(M02::<Bls12381G1Impl>::new(tier, seed), 2),
        bounded(M02::<Bls12381G2Impl>::new(tier, seed), 2),
        bounded(M02Pattern::<Bls12381G1Impl>::new(seed), 1),
        bounded(M02Pattern::<Bls12381G2Impl>::new(seed), 1),
    ]
}

pub fn describe(tier: Tier, r: &mut Report) {
    r.rule = "initial states = honest (group, scheme, key, message) tuples; an action replaces one component (signature / message / public key / scheme label) by one operator of the tamper alphabet, or applies a validity-preserving relative (re-randomised projective form, key-sum with signature-sum over the signer lists [a,b], [a,b,a], [a,a], [b,a,a] - key accumulated by the library, summed independently by the reference - and [a,b,a] against the signatures of [a,b], which must fail); depth 2 combines restricted operator sets on different components (contains the compensating pairs that must accept). Every state runs Signature::verify, MultiSignature::verify and PublicKeyShare::verify on the tuple and compares each decision with the reference CoreVerify. non-trivial = every state (each differs from every other in at least one operand)".into();
    r.deviation_bound_completed = "2".into();
    r.alphabet.insert("message_bit_flips".into(), serde_json::json!(if tier.thorough() { "every bit of every base message" } else { "every bit for len<=33; for len 257 one bit per byte plus all bits of the first and last byte" }));
    r.alphabet.insert("base".into(), serde_json::json!("2 groups x 3 schemes x 2 keys x messages of length 0, 33, 257"));
    r.assumptions = vec!["'any other group element' is the operator alphabet {+G,+2G,-G,-sig,2sig,3sig,sig of other msg,sig of other key,identity}".into()];
    r.not_covered = vec!["group elements and messages outside the operator alphabets".into()];
}
