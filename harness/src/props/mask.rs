//! Masked payloads chosen by the sender. The masked payload (v of a signcryption ciphertext, w of a time-lock
//! ciphertext) is frame XOR key stream, and a sender who knows its own randomness knows the key stream: it can pick the
//! message so that the masked payload is any byte pattern it likes (behind the length prefix, whose bytes it cannot
//! choose - there the entropy answer is searched until the masked prefix has the wanted top bits). A receiver that looks
//! at the masked bytes as if they were the frame (a length prefix, text, padding) meets honest ciphertexts here.
//! Attached to C11 (signcryption), C13 (time lock) and C18 (both, as exchange with the reference).
use crate::common::*;
use crate::engine::*;
use crate::refmodel::{self as rf, RefSuite, Scheme, SCHEMES};
use blsful::*;
use rand::Rng;
use rand_core::SeedableRng;
use serde::{Deserialize, Serialize};
use std::marker::PhantomData;

/// (name, byte of the masked payload behind the prefix; None = the bytes count upwards from 0x80)
const PATTERNS: [(&str, Option<u8>); 8] = [("all ff", Some(0xff)), ("all 80", Some(0x80)), ("all 00", Some(0x00)), ("all 7f", Some(0x7f)), ("all 20", Some(0x20)), ("all 0a", Some(0x0a)), ("all 'a'", Some(b'a')), ("counting from 80", None)];
const LENS: [usize; 3] = [40, 200, 16400];

#[derive(Clone, Debug, PartialEq, Eq, Hash, Serialize, Deserialize)]
pub struct MaskSt {
    timelock: bool,
    s: Scheme,
    pat: usize,
    len: usize,
}

pub struct MMask<C: Suite> {
    prop: &'static str,
    seed: u64,
    _c: PhantomData<C>,
}

fn entropy_bytes(seed: &[u8; 32]) -> [u8; 32] {
    rand_chacha::ChaCha20Rng::from_seed(*seed).gen::<[u8; 32]>()
}

impl<C: Suite> Model for MMask<C> {
    type State = Option<MaskSt>;
    type Action = MaskSt;
    fn name(&self) -> String {
        format!("{}-masked-payload-chosen-by-the-sender/{}", self.prop.to_lowercase(), C::G)
    }
    fn init(&self) -> Vec<Option<MaskSt>> {
        vec![None]
    }
    fn actions(&self, st: &Option<MaskSt>) -> Vec<MaskSt> {
        if st.is_some() {
            return vec![];
        }
        let mut v = vec![];
        for timelock in [false, true] {
            if (timelock && self.prop == "C11") || (!timelock && self.prop == "C13") {
                continue;
            }
            for s in SCHEMES {
                for pat in 0..PATTERNS.len() {
                    for len in LENS {
                        v.push(MaskSt { timelock, s, pat, len });
                    }
                }
            }
        }
        v
    }
    fn step(&self, _s: &Option<MaskSt>, a: &MaskSt) -> Option<Option<MaskSt>> {
        Some(Some(a.clone()))
    }
    fn describe(&self, st: &Option<MaskSt>) -> String {
        match st {
            None => "root".into(),
            Some(st) => format!("{} {} {} of a {} byte message chosen so that the masked payload is '{}': sealed by the library and by the reference from the same entropy answer, opened by both", C::G, st.s.name(), if st.timelock { "time-lock ciphertext" } else { "signcryption ciphertext" }, st.len, PATTERNS[st.pat].0),
        }
    }
    fn required_outcomes(&self) -> Vec<String> {
        vec!["chosen-mask:opens".into()]
    }
    fn check(&self, st: &Option<MaskSt>, o: &mut Obs) {
        use bls12_381_plus::group::Group as _;
        let Some(st) = st else { return };
        o.nontrivial = true;
        let (p, g) = (self.prop, C::G);
        let sk = SecretKey::<C>::from_hash(b"chosen mask recipient");
        let pk = sk.public_key();
        let rsk = rf::scalar_from_be(&sk.to_be_bytes()).unwrap();
        let rpk = rf::sk_to_pk::<C::R>(&rsk);
        let id = b"chosen mask id".to_vec();
        let prefix = rf::frame(&vec![0u8; st.len])[..rf::frame(&vec![0u8; st.len]).len() - st.len].to_vec();
        let want = |i: usize| -> u8 {
            match PATTERNS[st.pat].1 {
                Some(b) => b,
                None => 0x80u8.wrapping_add(i as u8) | 0x80,
            }
        };
        // the key stream of entropy answer #e; the masked prefix must have the top bits of the pattern
        let mut found = None;
        for e in 0..256u32 {
            let seed = data32(self.seed, &format!("chosen-mask-entropy-{}", e));
            let ent = entropy_bytes(&seed);
            let ks = if st.timelock {
                let alpha = rf::scalar_to_le(&rf::hash_to_scalar(&ent, rf::SALT_TIMELOCK));
                rf::shake128(&alpha, prefix.len() + st.len)
            } else {
                let r = rf::hash_to_scalar(&ent, rf::SALT_SIGNCRYPT);
                rf::shake128(&rf::enc(&(rpk * r)), prefix.len() + st.len)
            };
            if prefix.iter().enumerate().all(|(i, b)| ((b ^ ks[i]) & 0x80) == (want(i) & 0x80)) {
                found = Some((seed, ks));
                break;
            }
        }
        let Some((seed, ks)) = found else {
            panic!("no entropy answer gives the masked prefix the wanted top bits");
        };
        let msg: Vec<u8> = (0..st.len).map(|i| want(prefix.len() + i) ^ ks[prefix.len() + i]).collect();
        let ls = lib_scheme(st.s);
        let key = |what: &str| format!("{}:chosen-mask:{}:{}:{}:{}", p, if st.timelock { "time-lock" } else { "signcryption" }, g, st.s.name(), what);
        let mut all = true;
        if st.timelock {
            let rct = rf::timelock_seal::<C::R>(&rpk, &msg, &id, st.s, &entropy_bytes(&seed)).unwrap();
            assert!(rct.w[prefix.len()..].iter().enumerate().all(|(i, b)| *b == want(prefix.len() + i)), "the crafted masked payload does not have its pattern");
            let ct = match with_env(vec![seed], None, || pk.encrypt_time_lock(ls, &msg, &id)) {
                Ok(Ok(c)) => c,
                r => {
                    o.expect(&key("seal"), false, "Ok", &format!("{:?}", r.map(|x| x.map(|_| ()).map_err(|e| e.to_string()))));
                    return;
                }
            };
            let same = pt(&ct.u) == rf::enc(&rct.u) && ct.v == rct.v && ct.w == rct.w;
            all &= same;
            o.expect(&key("bit-identical-to-reference"), same, "identical (u, v, w)", "differs");
            // the whole-key signature over the identifier the sealer bound (made by the reference)
            let rsig = rf::sign::<C::R>(&rsk, st.s, &id);
            let sig = mk_sig::<C>(st.s, pt_from::<SgP<C>>(&rf::enc(&rsig)).unwrap());
            let made_by_ref = TimeCryptCiphertext::<C> { u: pt_from::<PkP<C>>(&rf::enc(&rct.u)).unwrap(), v: rct.v, w: rct.w.clone(), scheme: ls };
            for (what, c) in [("library-made", &ct), ("reference-made", &made_by_ref)] {
                let d = guard(|| Option::<Vec<u8>>::from(c.decrypt(&sig)));
                // (message-augmentation time locks of this release open under the trait-level signature only: recorded by C13)
                let ok = matches!(&d, Ok(Some(m)) if *m == msg) || (st.s == Scheme::Aug && matches!(&d, Ok(None)));
                all &= ok;
                o.expect(&key(&format!("{}-opens", what)), ok, "the message", &format!("{:?}", d.map(|m| m.map(|m| m.len()))));
                for c2 in [Codec::Bare, Codec::Json] {
                    let back: Result<TimeCryptCiphertext<C>, String> = if c2 == Codec::Bare { via_bare(c) } else { via_json(c) };
                    let ok = matches!(&back, Ok(b) if b.w == c.w && b.v == c.v);
                    all &= ok;
                    o.expect(&key(&format!("{}-survives-{:?}", what, c2)), ok, "equal", &format!("{:?}", back.map(|_| ())));
                }
            }
            o.calls(6);
        } else {
            let rct = rf::signcrypt_seal::<C::R>(&rpk, &msg, st.s, &entropy_bytes(&seed));
            assert!(rct.v[prefix.len()..].iter().enumerate().all(|(i, b)| *b == want(prefix.len() + i)), "the crafted masked payload does not have its pattern");
            let ct = match with_env(vec![seed], None, || pk.sign_crypt(ls, &msg)) {
                Ok(c) => c,
                Err(pn) => {
                    o.expect(&key("seal"), false, "returns", &pn);
                    return;
                }
            };
            let same = pt(&ct.u) == rf::enc(&rct.u) && ct.v == rct.v && pt(&ct.w) == rf::enc(&rct.w);
            all &= same;
            o.expect(&key("bit-identical-to-reference"), same, "identical (u, v, w)", "differs");
            let made_by_ref = SignCryptCiphertext::<C> { u: pt_from::<PkP<C>>(&rf::enc(&rct.u)).unwrap(), v: rct.v.clone(), w: pt_from::<SgP<C>>(&rf::enc(&rct.w)).unwrap(), scheme: ls };
            let shares = sk.split_with_rng(2, 3, rand_chacha::ChaCha20Rng::from_seed([7u8; 32])).unwrap();
            for (what, c) in [("library-made", &ct), ("reference-made", &made_by_ref)] {
                let r = guard(|| {
                    let valid = bool::from(c.is_valid());
                    let whole = Option::<Vec<u8>>::from(c.decrypt(&sk));
                    let by_key = Option::<Vec<u8>>::from(sk.sign_decryption_key::<&[u8]>(c).decrypt(c));
                    let ds: Vec<SignDecryptionShare<C>> = shares.iter().take(2).map(|s| c.create_decryption_share(s).unwrap()).collect();
                    let by_shares = Option::<Vec<u8>>::from(c.decrypt_with_shares(&ds));
                    let bare: Option<Vec<u8>> = via_bare(c).ok().and_then(|b: SignCryptCiphertext<C>| Option::<Vec<u8>>::from(b.decrypt(&sk)));
                    let json: Option<Vec<u8>> = via_json(c).ok().and_then(|b: SignCryptCiphertext<C>| Option::<Vec<u8>>::from(b.decrypt(&sk)));
                    (valid, [whole, by_key, by_shares, bare, json])
                });
                let ok = matches!(&r, Ok((true, outs)) if outs.iter().all(|m| m.as_ref() == Some(&msg)));
                all &= ok;
                o.expect(&key(&format!("{}-opens", what)), ok, "valid; the message on every route (whole key, decryption key, 2 of 3 shares, after BARE, after JSON)", &format!("{:?}", r.map(|(v, outs)| (v, outs.map(|m| m.map(|m| m.len()))))));
            }
            let ropen = rf::signcrypt_open::<C::R>(&rct.u, &ct.v, &rct.w, st.s, &rsk);
            all &= ropen.as_ref() == Some(&msg);
            o.expect(&key("reference-opens"), ropen.as_ref() == Some(&msg), "the message", &format!("{:?}", ropen.map(|m| m.len())));
            o.calls(12);
        }
        o.outcome(if all { "chosen-mask:opens" } else { "chosen-mask:fails" });
    }
}

pub fn models(prop: &'static str, seed: u64) -> Vec<Box<dyn DynModel>> {
    vec![bounded(MMask::<Bls12381G1Impl> { prop, seed, _c: PhantomData }, 1), bounded(MMask::<Bls12381G2Impl> { prop, seed, _c: PhantomData }, 1)]
}
