//! C01 - every honestly produced signature verifies (all schemes, both groups), is deterministic,
//! and still verifies after key / public key / signature were carried through any encoding.
use crate::common::*;
use crate::engine::*;
use crate::refmodel::{self as rf, RefSuite, Scheme, SCHEMES};
use blsful::*;
use serde::{Deserialize, Serialize};
use std::marker::PhantomData;

/// how the secret key travels: directly, or wrapped in the curve tagged `SecretKeyEnum`
#[derive(Copy, Clone, Debug, PartialEq, Eq, Hash, Serialize, Deserialize)]
pub enum SkCodec {
    Plain(Codec),
    Enum(Codec),
}

#[derive(Clone, Debug, PartialEq, Eq, Hash, Serialize, Deserialize)]
pub struct St {
    k: usize,
    m: usize,
    s: Scheme,
    sk_c: SkCodec,
    pk_c: Codec,
    sig_c: Codec,
}

#[derive(Clone, Debug, PartialEq)]
pub enum Act {
    Sk(SkCodec),
    Pk(Codec),
    Sig(Codec),
}

pub struct M01<C: Suite> {
    keys: KeyAlpha,
    msgs: MsgAlpha,
    /// indices of keys / messages on which transports are explored
    tk: Vec<usize>,
    tm: Vec<usize>,
    /// messages from this index on belong to the dense band
    dense_from: usize,
    _c: PhantomData<C>,
}

impl<C: Suite> M01<C> {
    pub fn new(tier: Tier, seed: u64) -> Self {
        let keys = key_alphabet(seed, tier.thorough());
        let mut msgs = msg_alphabet(seed, tier.thorough());
        // the dense band of lengths (signed under the first and the fourth key only)
        let dense_from = msgs.msgs.len();
        for l in dense_lens() {
            let name = format!("msg(len={},content=shake,dense)", l);
            if !msgs.names.iter().any(|n| n.starts_with(&format!("msg(len={},content=shake", l))) {
                msgs.names.push(name);
                msgs.msgs.push(msg_of(seed, l, 3));
            }
        }
        let nk = keys.be.len();
        // transports on: first edge key, last edge key (r-1), one derived key; empty, 33-byte, 257-byte message
        let tk = vec![0, nk - 1, if tier.thorough() { 7 } else { 2 }];
        let pick = |name: &str| msgs.names.iter().position(|n| n.starts_with(name)).unwrap();
        let tm = vec![pick("msg(len=0,"), pick("msg(len=33,content=shake"), pick("msg(len=257,content=shake")];
        M01 {
            keys,
            msgs,
            dense_from,
            tk,
            tm,
            _c: PhantomData,
        }
    }
}

impl<C: Suite> M01<C> {
    /// alphabet message, or one of the structurally special messages built from the key's public key bytes
    fn message(&self, k: usize, m: usize) -> Vec<u8> {
        let n = self.msgs.msgs.len();
        if m < n {
            return self.msgs.msgs[m].clone();
        }
        let pk = Vec::<u8>::from(&sk_from_be::<C>(&self.keys.be[k]).unwrap().public_key());
        special_message(&pk, m - n)
    }
    fn message_name(&self, m: usize) -> String {
        let n = self.msgs.msgs.len();
        if m < n {
            self.msgs.names[m].clone()
        } else {
            SPECIAL_MESSAGES[m - n].to_string()
        }
    }
}

impl<C: Suite> Model for M01<C> {
    type State = St;
    type Action = Act;
    fn name(&self) -> String {
        format!("c01-sign-verify/{}", C::G)
    }
    fn init(&self) -> Vec<St> {
        let mut v = vec![];
        for k in 0..self.keys.be.len() {
            for m in 0..self.msgs.msgs.len() + SPECIAL_MESSAGES.len() {
                if m >= self.dense_from && m < self.msgs.msgs.len() && k != 0 && k != 3 {
                    continue;
                }
                for s in SCHEMES {
                    v.push(St {
                        k,
                        m,
                        s,
                        sk_c: SkCodec::Plain(Codec::None),
                        pk_c: Codec::None,
                        sig_c: Codec::None,
                    });
                }
            }
        }
        v
    }
    fn actions(&self, s: &St) -> Vec<Act> {
        // keys selected by a byte pattern of their public key: the public key (and nothing else) travels through every codec
        if self.keys.names[s.k].starts_with("sk with ") && !self.tk.contains(&s.k) {
            if s.m == self.tm[1] && s.pk_c == Codec::None && s.sig_c == Codec::None && s.sk_c == SkCodec::Plain(Codec::None) {
                return [Codec::Bytes, Codec::Bare, Codec::Json, Codec::JsonReader, Codec::JsonValue].into_iter().map(Act::Pk).collect();
            }
            return vec![];
        }
        // messages selected by a byte pattern of their SIGNATURE under the first derived key (position 3): that signature
        // (and nothing else) travels through every codec
        if s.k == 3 && s.m < self.msgs.names.len() && self.msgs.names[s.m].contains("content=pattern:") {
            if s.pk_c == Codec::None && s.sig_c == Codec::None && s.sk_c == SkCodec::Plain(Codec::None) {
                return [Codec::Bytes, Codec::Bare, Codec::Json, Codec::JsonReader, Codec::JsonValue].into_iter().map(Act::Sig).collect();
            }
            return vec![];
        }
        if !self.tk.contains(&s.k) || !self.tm.contains(&s.m) {
            return vec![];
        }
        let mut a = vec![];
        if s.sk_c == SkCodec::Plain(Codec::None) {
            for c in [Codec::Bytes, Codec::Bare, Codec::Json, Codec::JsonReader, Codec::JsonValue, Codec::Be, Codec::Le] {
                a.push(Act::Sk(SkCodec::Plain(c)));
                a.push(Act::Sk(SkCodec::Enum(c)));
            }
        }
        if s.pk_c == Codec::None {
            for c in [Codec::Bytes, Codec::Bare, Codec::Json, Codec::JsonReader, Codec::JsonValue] {
                a.push(Act::Pk(c));
            }
        }
        if s.sig_c == Codec::None {
            for c in [Codec::Bytes, Codec::Bare, Codec::Json, Codec::JsonReader, Codec::JsonValue] {
                a.push(Act::Sig(c));
            }
        }
        a
    }
    fn step(&self, s: &St, a: &Act) -> Option<St> {
        let mut n = s.clone();
        match a {
            Act::Sk(c) => n.sk_c = *c,
            Act::Pk(c) => n.pk_c = *c,
            Act::Sig(c) => n.sig_c = *c,
        }
        Some(n)
    }
    fn describe(&self, s: &St) -> String {
        format!(
            "{} {} {} {} transports(sk={:?},pk={:?},sig={:?}) -> sign, sign again, public_key, verify",
            C::G,
            s.s.name(),
            self.keys.names[s.k],
            self.message_name(s.m),
            s.sk_c,
            s.pk_c,
            s.sig_c
        )
    }
    fn required_outcomes(&self) -> Vec<String> {
        vec!["verify:accept".into(), "verify-other-msg:reject".into(), "ref-verify:accept".into()]
    }
    fn check(&self, st: &St, o: &mut Obs) {
        let g = C::G;
        let sn = st.s.name();
        let kb = &self.keys.be[st.k];
        let msg = &self.message(st.k, st.m);
        let devs = (st.sk_c != SkCodec::Plain(Codec::None)) as u8 + (st.pk_c != Codec::None) as u8 + (st.sig_c != Codec::None) as u8;
        o.nontrivial = true;
        let sk0 = match guard(|| sk_import_be::<C>(kb)) {
            Ok(Some(sk)) => sk,
            Ok(None) => {
                o.expect(&format!("C01:import-nonzero-key:{}", g), false, "Some", "None");
                return;
            }
            Err(p) => {
                o.expect(&format!("C01:import-nonzero-key:{}:panic", g), false, "Some", &p);
                return;
            }
        };
        o.calls(1);
        o.expect(&format!("C01:import-equals-field-element:{}", g), Some(&sk0) == sk_from_be::<C>(kb).as_ref(), "the scalar the bytes encode", "another scalar");
        let sk = match guard(|| match st.sk_c {
            SkCodec::Plain(c) => transport_sk::<C>(&sk0, c),
            SkCodec::Enum(c) => transport_sk_enum::<C>(&sk0, c),
        }) {
            Ok(Ok(sk)) => sk,
            Ok(Err(e)) => {
                o.expect(&format!("C01:transport-sk:{}:{:?}", g, st.sk_c), false, "Ok", &e);
                return;
            }
            Err(p) => {
                o.expect(&format!("C01:transport-sk:{}:{:?}:panic", g, st.sk_c), false, "Ok", &p);
                return;
            }
        };
        o.expect(&format!("C01:transport-sk-equal:{}:{:?}", g, st.sk_c), sk == sk0, "same key", "different key");
        let s1 = guard(|| sk.sign(lib_scheme(st.s), msg));
        let s2 = guard(|| sk.sign(lib_scheme(st.s), msg));
        o.calls(2);
        let (sig1, sig2) = match (s1, s2) {
            (Ok(Ok(a)), Ok(Ok(b))) => (a, b),
            (a, _) => {
                o.expect(
                    &format!("C01:sign-ok:{}:{}", g, sn),
                    false,
                    "Ok",
                    &format!("{:?}", a.map(|r| r.map(|_| ()).map_err(|e| e.to_string()))),
                );
                return;
            }
        };
        o.expect(&format!("C01:sign-deterministic:{}:{}", g, sn), sig1 == sig2, "equal", "differ");
        o.expect(&format!("C01:sign-scheme-label:{}:{}", g, sn), sig_scheme(&sig1) == st.s, sn, sig_scheme(&sig1).name());
        let pk0 = sk.public_key();
        o.calls(1);
        let pk = match guard(|| transport_pk::<C>(&pk0, st.pk_c)) {
            Ok(Ok(p)) => p,
            r => {
                o.expect(&format!("C01:transport-pk:{}:{:?}", g, st.pk_c), false, "Ok", &format!("{:?}", r.map(|x| x.map(|_| ()))));
                return;
            }
        };
        o.expect(&format!("C01:transport-pk-equal:{}:{:?}", g, st.pk_c), pk == pk0, "same", "different");
        let sig = match guard(|| transport_sig::<C>(&sig1, st.sig_c)) {
            Ok(Ok(p)) => p,
            r => {
                o.expect(&format!("C01:transport-sig:{}:{:?}", g, st.sig_c), false, "Ok", &format!("{:?}", r.map(|x| x.map(|_| ()))));
                return;
            }
        };
        o.expect(&format!("C01:transport-sig-equal:{}:{:?}", g, st.sig_c), sig == sig1, "same", "different");
        let v = guard(|| sig.verify(&pk, msg));
        o.calls(1);
        let ok = matches!(v, Ok(Ok(())));
        o.outcome(if ok { "verify:accept" } else { "verify:reject" });
        o.expect(
            &format!("C01:honest-verifies:{}:{}:dev{}", g, sn, devs),
            ok,
            "Ok",
            &format!("{:?}", v.map(|r| r.map_err(|e| e.to_string()))),
        );
        o.record("sig", &Vec::<u8>::from(&sig));
        if devs == 0 {
            // values moved by the constant time selection helpers are unchanged
            if let Ok(sig_b) = sk.sign(lib_scheme(st.s), b"the other slot") {
                expect_ct_move(o, "C01", &format!("Signature<{}>", g), &sig, &sig_b);
            }
            expect_ct_move(o, "C01", &format!("PublicKey<{}>", g), &pk, &PublicKey::<C>(pk.0 + pk.0));
        }
        // a different message must not verify (so that "accept" above is not vacuous)
        let mut other = msg.clone();
        other.push(0x01);
        let v2 = guard(|| sig.verify(&pk, &other));
        o.calls(1);
        let rej = matches!(v2, Ok(Err(_)));
        o.outcome(if rej { "verify-other-msg:reject" } else { "verify-other-msg:accept-or-panic" });
        o.expect(&format!("C01:other-msg-rejected:{}:{}", g, sn), rej, "Err", "Ok or panic");
        // independent reference on the same bytes (no transport and single transports)
        if devs <= 1 {
            let pkb = pt(&pk.0);
            let sgb = pt(sig.as_raw_value());
            let r = rf::verify::<C::R>(&pkb, st.s, msg, &sgb);
            o.outcome(if r { "ref-verify:accept" } else { "ref-verify:reject" });
            o.expect(&format!("C01:reference-accepts:{}:{}", g, sn), r, "accept", "reject");
            let _ = <C::R as RefSuite>::NAME;
        }
    }
}

pub fn models(tier: Tier, seed: u64) -> Vec<Box<dyn DynModel>> {
    let h = crate::props::hist::MHist::new("C01", tier, seed);
    let d = h.depth();
    vec![
        bounded(M01::<Bls12381G1Impl>::new(tier, seed), 3),
        bounded(M01::<Bls12381G2Impl>::new(tier, seed), 3),
        // operation histories over both groups: signing is deterministic whatever ran before on the same thread
        bounded(h, d),
    ]
    .into_iter()
    .chain(crate::props::tsurf::models("C01", tier, seed))
    .collect()
}

pub fn describe(tier: Tier, r: &mut Report) {
    let keys = key_alphabet(r.seed, tier.thorough());
    let msgs = msg_alphabet(r.seed, tier.thorough());
    r.rule = "states = (group, scheme, key, message) x transports of (sk, pk, sig); initial states are all untransported tuples, each action carries one artefact through one codec (deviation), depth 3 = all three transported; on 3 keys x 3 messages every combination of 6 sk codecs x 4 pk codecs x 4 sig codecs is reached. non-trivial = a state whose check signed twice, derived the key, verified and ran the negative control".into();
    r.deviation_bound_completed = "3 transports (all of sk, pk, sig) on the transport sub-alphabet; 0 elsewhere".into();
    r.alphabet.insert("keys".into(), serde_json::json!(keys.names));
    r.alphabet.insert("messages".into(), serde_json::json!(msgs.names));
    r.alphabet.insert("schemes".into(), serde_json::json!(["Basic", "MessageAugmentation", "ProofOfPossession"]));
    r.alphabet.insert("groups".into(), serde_json::json!(GROUPS));
    r.assumptions = vec![
        "keys and messages are alphabets (edge scalars, derived scalars, boundary lengths), not the full domains".into(),
        "reference verifier: bls12_381_plus arithmetic + scheme logic rewritten from the IETF draft".into(),
    ];
    r.not_covered = vec!["secret keys and messages outside the alphabets".into()];
}
