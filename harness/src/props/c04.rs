//! C04 - identity points and the zero key are never accepted or used.
use crate::common::*;
use crate::engine::*;
use crate::refmodel::{self as rf, Scheme, SCHEMES};
use blsful::*;
use serde::{Deserialize, Serialize};
use std::marker::PhantomData;

#[derive(Copy, Clone, Debug, PartialEq, Eq, Hash, Serialize, Deserialize)]
pub enum Entry {
    SigVerify,
    MultiVerify,
    ShareVerify,
    AggVerify { n: usize, pos: usize },
    MultiAccum,
    PopVerify,
    Pok,
    PokTs,
    ScValid,
    ScDecrypt,
    ScKeyDecrypt,
    ScDecryptShares,
    ScShareVerify,
    TlDecrypt,
    EgVerify,
    EgVerifyDecrypt,
    // zero scalar / identity recipient entry points
    Sign,
    PopProve,
    ShareSign,
    ImportSkBe,
    ImportSkLe,
    ImportSkTry,
    ImportEnumBe,
    ImportEnumLe,
    ImportEnumTry,
    ImportSecretBe,
    ImportSecretLe,
    ImportSecretTry,
    ImportChallengeBe,
    ImportChallengeLe,
    ImportChallengeTry,
    FinalizeX,
    FinalizeY,
    EncryptTimeLock,
    EncryptElGamal,
    EncryptElGamalProof,
}

impl Entry {
    fn args(&self) -> Vec<&'static str> {
        use Entry::*;
        match self {
            // "large" is not a substitution: the message / payload is 1 MiB + 1 byte long (the honest run with it must succeed)
            SigVerify | MultiVerify | ShareVerify => vec!["sig", "pk", "large"],
            AggVerify { .. } => vec!["pk_pos", "sig_id", "sig_rest", "all_pk"],
            MultiAccum => vec!["key_cancels", "sig_cancels"],
            PopVerify => vec!["pop", "pk"],
            Pok => vec!["u", "v", "pk", "y", "u_cancels", "u_forged"],
            PokTs => vec!["u", "v", "pk", "u_forged"],
            ScValid | ScDecrypt | ScKeyDecrypt | ScDecryptShares => vec!["u", "w", "large"],
            ScShareVerify => vec!["share", "pks", "w", "u"],
            TlDecrypt => vec!["sig", "u", "large"],
            EgVerify => vec!["pk", "c1", "c2", "mp", "bp", "ch"],
            EgVerifyDecrypt => vec!["sk", "c1", "c2", "mp", "bp", "ch"],
            EncryptTimeLock | EncryptElGamal | EncryptElGamalProof => vec!["pk"],
            // byte imports: the all-zero bytes, and the two non-zero 256 bit encodings of 0 mod r
            ImportSkBe | ImportSkLe | ImportSkTry | ImportEnumBe | ImportEnumLe | ImportEnumTry | ImportSecretBe | ImportSecretLe | ImportSecretTry | ImportChallengeBe
            | ImportChallengeLe | ImportChallengeTry => vec!["zero", "r", "2r"],
            _ => vec!["zero"],
        }
    }
    fn uses_scheme(&self) -> bool {
        use Entry::*;
        !matches!(
            self,
            PopVerify
                | EgVerify
                | EgVerifyDecrypt
                | PopProve
                | ImportSkBe
                | ImportSkLe
                | ImportSkTry
                | ImportEnumBe
                | ImportEnumLe
                | ImportEnumTry
                | ImportSecretBe
                | ImportSecretLe
                | ImportSecretTry
                | ImportChallengeBe
                | ImportChallengeLe
                | ImportChallengeTry
                | EncryptElGamal
                | EncryptElGamalProof
        )
    }
    fn label(&self) -> String {
        match self {
            Entry::AggVerify { .. } => "AggVerify".into(),
            e => format!("{:?}", e),
        }
    }
}

#[derive(Clone, Debug, PartialEq, Eq, Hash, Serialize, Deserialize)]
pub struct St {
    e: Entry,
    s: Scheme,
    /// sorted names of the arguments replaced by the identity point / zero scalar
    ids: Vec<String>,
}

#[derive(Clone, Debug, PartialEq)]
pub struct Act(String);

pub struct M04<C: Suite> {
    tier: Tier,
    seed: u64,
    sks: Vec<SecretKey<C>>,
    msg: Vec<u8>,
    _c: PhantomData<C>,
}

impl<C: Suite> M04<C> {
    pub fn new(tier: Tier, seed: u64) -> Self {
        let ka = key_alphabet(seed, true);
        let sks = (8..12).chain(0..8).map(|i| sk_from_be::<C>(&ka.be[i]).unwrap()).collect();
        M04 {
            tier,
            seed,
            sks,
            msg: msg_of(seed, 33, 3),
            _c: PhantomData,
        }
    }
    fn entries(&self) -> Vec<Entry> {
        use Entry::*;
        let mut v = vec![
            SigVerify, MultiVerify, ShareVerify, MultiAccum, PopVerify, Pok, PokTs, ScValid, ScDecrypt, ScKeyDecrypt, ScDecryptShares,
            ScShareVerify, TlDecrypt, EgVerify, EgVerifyDecrypt, Sign, PopProve, ShareSign, ImportSkBe, ImportSkLe, ImportSkTry,
            ImportEnumBe, ImportEnumLe, ImportEnumTry, ImportSecretBe, ImportSecretLe, ImportSecretTry, ImportChallengeBe,
            ImportChallengeLe, ImportChallengeTry, FinalizeX, FinalizeY, EncryptTimeLock, EncryptElGamal, EncryptElGamalProof,
        ];
        let nmax = if self.tier.thorough() { 8 } else { 4 };
        for n in 2..=nmax {
            for pos in 0..n {
                v.push(AggVerify { n, pos });
            }
        }
        v
    }
}

/// big endian bytes of 0, r or 2r (all congruent to zero modulo the group order)
fn zero_encoding(zero: bool, r: bool, two_r: bool) -> Option<[u8; 32]> {
    let rb: [u8; 32] = hex::decode("73eda753299d7d483339d80809a1d80553bda402fffe5bfeffffffff00000001").unwrap().try_into().unwrap();
    if zero {
        Some([0u8; 32])
    } else if r {
        Some(rb)
    } else if two_r {
        let mut v = rb;
        let mut c = 0u16;
        for b in v.iter_mut().rev() {
            let s = (*b as u16) * 2 + c;
            *b = s as u8;
            c = s >> 8;
        }
        Some(v)
    } else {
        None
    }
}

fn pok_msg<C: Suite>(s: Scheme, pk: &PublicKey<C>, msg: &[u8]) -> Vec<u8> {
    // the augmentation scheme's proofs only verify over pk || msg (known finding D5 of C10)
    if s == Scheme::Aug {
        let mut m = Vec::<u8>::from(pk);
        m.extend_from_slice(msg);
        m
    } else {
        msg.to_vec()
    }
}

impl<C: Suite> Model for M04<C> {
    type State = St;
    type Action = Act;
    fn name(&self) -> String {
        format!("c04-identity-zero/{}", C::G)
    }
    fn init(&self) -> Vec<St> {
        let mut v = vec![];
        for e in self.entries() {
            let schemes: Vec<Scheme> = if e.uses_scheme() { SCHEMES.to_vec() } else { vec![Scheme::Pop] };
            for s in schemes {
                if matches!(e, Entry::MultiAccum | Entry::ShareSign) && s == Scheme::Aug {
                    continue;
                }
                v.push(St { e, s, ids: vec![] });
            }
        }
        v
    }
    fn actions(&self, st: &St) -> Vec<Act> {
        let mut a = vec![];
        for arg in st.e.args() {
            if st.ids.iter().any(|x| x == arg) {
                continue;
            }
            // exclusive / dependent arguments of the aggregate entry
            if let Entry::AggVerify { .. } = st.e {
                let has = |n: &str| st.ids.iter().any(|x| x == n);
                let ok = match arg {
                    "sig_rest" => has("pk_pos") && !has("sig_id") && !has("all_pk"),
                    "sig_id" => !has("sig_rest"),
                    "all_pk" => !has("sig_rest"),
                    _ => true,
                };
                if !ok {
                    continue;
                }
            }
            if st.e == Entry::Pok && arg == "u_cancels" && (st.ids.iter().any(|x| x == "u") || !st.ids.iter().any(|x| x == "v")) {
                continue;
            }
            if st.e == Entry::Pok && arg == "u" && st.ids.iter().any(|x| x == "u_cancels") {
                continue;
            }
            // "u_forged": commitment = identity together with the proof value v = -(sig * y) that makes the equation hold
            if arg == "u_forged" && !st.ids.is_empty() {
                continue;
            }
            if st.ids.iter().any(|x| x == "u_forged") {
                continue;
            }
            // the three zero encodings are alternatives, not combinable
            if ["zero", "r", "2r"].contains(&arg) && !st.ids.is_empty() {
                continue;
            }
            a.push(Act(arg.to_string()));
        }
        a
    }
    fn step(&self, st: &St, a: &Act) -> Option<St> {
        let mut n = st.clone();
        n.ids.push(a.0.clone());
        n.ids.sort();
        Some(n)
    }
    fn describe(&self, st: &St) -> String {
        format!("{} {:?} under {}: identity/zero substituted for {:?}", C::G, st.e, st.s.name(), st.ids)
    }
    fn required_outcomes(&self) -> Vec<String> {
        vec!["honest:accepted".into(), "substituted:rejected".into(), "rejected-although-bare-equation-holds".into()]
    }
    fn check(&self, st: &St, o: &mut Obs) {
        use Entry::*;
        let g = C::G;
        let is = |n: &str| st.ids.iter().any(|x| x == n);
        let honest = st.ids.iter().all(|x| x == "large");
        let s = st.s;
        let ls = lib_scheme(s);
        let sk = &self.sks[0];
        let sk2 = &self.sks[1];
        let pk = sk.public_key();
        let big;
        let msg = if is("large") {
            big = msg_of(self.seed, (1 << 20) + 1, 3);
            &big
        } else {
            &self.msg
        };
        let id_s = SgP::<C>::identity();
        let id_p = PkP::<C>::identity();
        let zero = Sc::<C>::ZERO;
        o.nontrivial = true;
        let ent = entropy_stream(self.seed, "c04", 8);
        // returns Ok(accepted?) or Err(panic)
        let r: Result<bool, String> = with_env(ent, Some(CLOCK0), || -> bool {
            match st.e {
                SigVerify | MultiVerify | ShareVerify => {
                    let sig = if is("sig") { id_s } else { *sk.sign(ls, msg).unwrap().as_raw_value() };
                    let p = if is("pk") { id_p } else { pk.0 };
                    match st.e {
                        SigVerify => mk_sig::<C>(s, sig).verify(&PublicKey(p), msg).is_ok(),
                        MultiVerify => mk_multi_sig::<C>(s, sig).verify(MultiPublicKey(p), msg).is_ok(),
                        _ => mk_pk_share::<C>(1, &p).verify(&mk_sig_share::<C>(s, 1, &sig), msg).is_ok(),
                    }
                }
                AggVerify { n, pos } => {
                    let mut pairs = vec![];
                    let mut sigs = vec![];
                    for i in 0..n {
                        let m = if s == Scheme::Basic { vec![i as u8; 5] } else { vec![7u8; 5] };
                        sigs.push(self.sks[i].sign(ls, &m).unwrap());
                        pairs.push((self.sks[i].public_key(), m));
                    }
                    let mut sig = AggregateSignature::<C>::from_signatures(&sigs).unwrap();
                    let _ = &mut sig;
                    if is("sig_rest") {
                        let mut acc = id_s;
                        for (i, sg) in sigs.iter().enumerate() {
                            if i != pos {
                                acc += *sg.as_raw_value();
                            }
                        }
                        sig = mk_agg_sig::<C>(s, acc);
                    }
                    if is("sig_id") {
                        sig = mk_agg_sig::<C>(s, id_s);
                    }
                    if is("pk_pos") {
                        pairs[pos].0 = PublicKey(id_p);
                    }
                    if is("all_pk") {
                        for p in pairs.iter_mut() {
                            p.0 = PublicKey(id_p);
                        }
                    }
                    sig.verify(&pairs).is_ok()
                }
                MultiAccum => {
                    let s1 = sk.sign(ls, msg).unwrap();
                    let s2 = sk2.sign(ls, msg).unwrap();
                    let keys = if is("key_cancels") { vec![pk, PublicKey(-pk.0)] } else { vec![pk, sk2.public_key()] };
                    let sigs = if is("sig_cancels") { vec![s1, mk_sig::<C>(s, -*s1.as_raw_value())] } else { vec![s1, s2] };
                    let mpk = MultiPublicKey::<C>::from_public_keys(&keys);
                    match MultiSignature::<C>::from_signatures(&sigs) {
                        Ok(ms) => ms.verify(mpk, msg).is_ok(),
                        Err(_) => false,
                    }
                }
                PopVerify => {
                    let pop = if is("pop") { ProofOfPossession::<C>(id_s) } else { sk.proof_of_possession().unwrap() };
                    let p = if is("pk") { PublicKey(id_p) } else { pk };
                    pop.verify(p).is_ok()
                }
                Pok => {
                    let m = pok_msg::<C>(s, &pk, msg);
                    let sig = sk.sign(ls, msg).unwrap();
                    let (c, x) = ProofCommitment::<C>::generate(&m, sig).unwrap();
                    let y = ProofCommitmentChallenge::<C>::from_hash(b"challenge");
                    let pok = c.finalize(x, y, sig).unwrap();
                    let (mut u, mut v) = match pok {
                        ProofOfKnowledge::Basic { u, v } | ProofOfKnowledge::MessageAugmentation { u, v } | ProofOfKnowledge::ProofOfPossession { u, v } => (u, v),
                    };
                    let mut yv = y.0;
                    if is("u") {
                        u = id_s;
                    }
                    if is("v") {
                        v = id_s;
                    }
                    if is("y") {
                        yv = zero;
                    }
                    if is("u_forged") {
                        u = id_s;
                        v = -(*sig.as_raw_value() * yv);
                    }
                    if is("u_cancels") {
                        // u = -H(m)*y makes e(v,g) * e(u + H(m) y, pk) trivially 1 when v is the identity
                        let dst: &[u8] = match s {
                            Scheme::Basic => <C as BlsSignatureBasic>::DST,
                            Scheme::Aug => <C as BlsSignatureMessageAugmentation>::DST,
                            Scheme::Pop => <C as BlsSignaturePop>::SIG_DST,
                        };
                        u = -(<C as HashToPoint>::hash_to_point(&m, dst) * yv);
                    }
                    let p = if is("pk") { PublicKey(id_p) } else { pk };
                    let pok = match s {
                        Scheme::Basic => ProofOfKnowledge::<C>::Basic { u, v },
                        Scheme::Aug => ProofOfKnowledge::<C>::MessageAugmentation { u, v },
                        Scheme::Pop => ProofOfKnowledge::<C>::ProofOfPossession { u, v },
                    };
                    pok.verify(p, &m, ProofCommitmentChallenge(yv)).is_ok()
                }
                PokTs => {
                    let m = pok_msg::<C>(s, &pk, msg);
                    let sig = sk.sign(ls, msg).unwrap();
                    let mut p = ProofOfKnowledgeTimestamp::<C>::generate(&m, sig).unwrap();
                    let (mut u, mut v) = match p.proof {
                        ProofOfKnowledge::Basic { u, v } | ProofOfKnowledge::MessageAugmentation { u, v } | ProofOfKnowledge::ProofOfPossession { u, v } => (u, v),
                    };
                    if is("u") {
                        u = id_s;
                    }
                    if is("v") {
                        v = id_s;
                    }
                    if is("u_forged") {
                        u = id_s;
                        v = -(*sig.as_raw_value() * <C as BlsSignatureProof>::compute_y(id_s, p.timestamp));
                    }
                    p.proof = match s {
                        Scheme::Basic => ProofOfKnowledge::<C>::Basic { u, v },
                        Scheme::Aug => ProofOfKnowledge::<C>::MessageAugmentation { u, v },
                        Scheme::Pop => ProofOfKnowledge::<C>::ProofOfPossession { u, v },
                    };
                    let pkk = if is("pk") { PublicKey(id_p) } else { pk };
                    p.verify(pkk, &m, Some(5000)).is_ok() || p.verify(pkk, &m, None).is_ok()
                }
                ScValid | ScDecrypt | ScKeyDecrypt | ScDecryptShares | ScShareVerify => {
                    let mut ct = pk.sign_crypt(ls, msg);
                    let shares = sk.split_with_rng(2, 3, rand_chacha::ChaCha20Rng::from_seed([5u8; 32])).unwrap();
                    let dshares: Vec<SignDecryptionShare<C>> = shares.iter().map(|sh| ct.create_decryption_share(sh).unwrap()).collect();
                    let key = sk.sign_decryption_key::<&[u8]>(&ct);
                    if is("u") {
                        ct.u = id_p;
                    }
                    if is("w") {
                        ct.w = id_s;
                    }
                    match st.e {
                        ScValid => bool::from(ct.is_valid()),
                        ScDecrypt => Option::<Vec<u8>>::from(ct.decrypt(sk)).is_some(),
                        ScKeyDecrypt => Option::<Vec<u8>>::from(key.decrypt(&ct)).is_some(),
                        ScDecryptShares => Option::<Vec<u8>>::from(ct.decrypt_with_shares(&dshares[..2])).is_some(),
                        _ => {
                            let pks = if is("pks") { mk_pk_share::<C>(1, &id_p) } else { shares[0].public_key().unwrap() };
                            let dsh = if is("share") { SignDecryptionShare::<C>(mk_pk_share::<C>(1, &id_p).0) } else { dshares[0].clone() };
                            dsh.verify(&pks, &ct).is_ok()
                        }
                    }
                }
                TlDecrypt => {
                    let mut ct = pk.encrypt_time_lock(ls, msg, b"id").unwrap();
                    let sig = if is("sig") { mk_sig::<C>(s, id_s) } else { sk.sign(ls, b"id").unwrap() };
                    if is("u") {
                        ct.u = id_p;
                    }
                    Option::<Vec<u8>>::from(ct.decrypt(&sig)).is_some()
                }
                EgVerify | EgVerifyDecrypt => {
                    let mut p = pk.encrypt_key_el_gamal_with_proof(sk2).unwrap();
                    if is("c1") {
                        p.ciphertext.c1 = id_p;
                    }
                    if is("c2") {
                        p.ciphertext.c2 = id_p;
                    }
                    if is("mp") {
                        p.message_proof = zero;
                    }
                    if is("bp") {
                        p.blinder_proof = zero;
                    }
                    if is("ch") {
                        p.challenge = zero;
                    }
                    if st.e == EgVerify {
                        p.verify(if is("pk") { PublicKey(id_p) } else { pk }).is_ok()
                    } else {
                        let k = if is("sk") { SecretKey::<C>(zero) } else { sk.clone() };
                        p.verify_and_decrypt(&k).is_ok()
                    }
                }
                Sign => {
                    let k = if is("zero") { SecretKey::<C>(zero) } else { sk.clone() };
                    k.sign(ls, msg).is_ok()
                }
                PopProve => {
                    let k = if is("zero") { SecretKey::<C>(zero) } else { sk.clone() };
                    k.proof_of_possession().is_ok()
                }
                ShareSign => {
                    let shares = sk.split_with_rng(2, 3, rand_chacha::ChaCha20Rng::from_seed([5u8; 32])).unwrap();
                    let mut sh = shares[0].clone();
                    if is("zero") {
                        // keep the identifier, zero the value
                        let mut b = Vec::<u8>::from(&sh);
                        for x in b.iter_mut().skip(1) {
                            *x = 0;
                        }
                        sh = SecretKeyShare::<C>::try_from(b.as_slice()).unwrap();
                    }
                    sh.sign(ls, msg).is_ok()
                }
                ImportSkBe | ImportSkLe | ImportSkTry | ImportSecretBe | ImportSecretLe | ImportSecretTry | ImportChallengeBe
                | ImportChallengeLe | ImportChallengeTry => {
                    let b: [u8; 32] = zero_encoding(is("zero"), is("r"), is("2r")).unwrap_or(sk.to_be_bytes());
                    let mut l = b;
                    l.reverse();
                    match st.e {
                        ImportSkBe => bool::from(SecretKey::<C>::from_be_bytes(&b).is_some()),
                        ImportSkLe => bool::from(SecretKey::<C>::from_le_bytes(&l).is_some()),
                        ImportSkTry => SecretKey::<C>::try_from(&b[..]).is_ok(),
                        ImportSecretBe => bool::from(ProofCommitmentSecret::<C>::from_be_bytes(&b).is_some()),
                        ImportSecretLe => bool::from(ProofCommitmentSecret::<C>::from_le_bytes(&l).is_some()),
                        ImportSecretTry => ProofCommitmentSecret::<C>::try_from(&b[..]).is_ok(),
                        ImportChallengeBe => bool::from(ProofCommitmentChallenge::<C>::from_be_bytes(&b).is_some()),
                        ImportChallengeLe => bool::from(ProofCommitmentChallenge::<C>::from_le_bytes(&l).is_some()),
                        _ => ProofCommitmentChallenge::<C>::try_from(&b[..]).is_ok(),
                    }
                }
                ImportEnumBe | ImportEnumLe | ImportEnumTry => {
                    let b: [u8; 32] = zero_encoding(is("zero"), is("r"), is("2r")).unwrap_or(sk.to_be_bytes());
                    let tag = if g == "G1" { 1u8 } else { 2u8 };
                    let mut be = vec![tag];
                    be.extend_from_slice(&b);
                    let mut le = vec![tag];
                    le.extend(b.iter().rev());
                    match st.e {
                        ImportEnumBe => bool::from(SecretKeyEnum::from_be_bytes(&be).is_some()),
                        ImportEnumLe => bool::from(SecretKeyEnum::from_le_bytes(&le).is_some()),
                        _ => SecretKeyEnum::try_from(be.as_slice()).is_ok(),
                    }
                }
                FinalizeX | FinalizeY => {
                    let sig = sk.sign(ls, msg).unwrap();
                    let (c, x) = ProofCommitment::<C>::generate(msg, sig).unwrap();
                    let y = ProofCommitmentChallenge::<C>::from_hash(b"challenge");
                    let x = if st.e == FinalizeX && is("zero") { ProofCommitmentSecret::<C>(zero) } else { x };
                    let y = if st.e == FinalizeY && is("zero") { ProofCommitmentChallenge::<C>(zero) } else { y };
                    c.finalize(x, y, sig).is_ok()
                }
                EncryptTimeLock => {
                    let p = if is("pk") { PublicKey::<C>(id_p) } else { pk };
                    p.encrypt_time_lock(ls, msg, b"id").is_ok()
                }
                EncryptElGamal => {
                    let p = if is("pk") { PublicKey::<C>(id_p) } else { pk };
                    p.encrypt_key_el_gamal(sk2).is_ok()
                }
                EncryptElGamalProof => {
                    let p = if is("pk") { PublicKey::<C>(id_p) } else { pk };
                    p.encrypt_key_el_gamal_with_proof(sk2).is_ok()
                }
            }
        });
        o.calls(1);
        let schemepart = if st.e.uses_scheme() { s.name() } else { "-" };
        match r {
            Err(p) => {
                o.outcome("panic");
                o.expect(&format!("C04:{}:{}:{}:{}:panic", st.e.label(), g, schemepart, st.ids.join("+")), false, "returns", &p);
            }
            Ok(acc) => {
                o.record("acc", &[acc as u8]);
                if honest {
                    o.outcome(if acc { "honest:accepted" } else { "honest:rejected" });
                    // vacuity: the honest run of this entry must succeed, else the rejections below prove nothing
                    o.expect(&format!("C04:{}:{}:{}:honest-run-fails", st.e.label(), g, schemepart), acc, "success", "failure");
                } else {
                    o.outcome(if acc { "substituted:accepted" } else { "substituted:rejected" });
                    o.expect(
                        &format!("C04:{}:{}:{}:{}", st.e.label(), g, schemepart, st.ids.join("+")),
                        !acc,
                        "Err / None / 0",
                        "accepted",
                    );
                }
            }
        }
        // where the bare pairing equation is trivially satisfied the guard (not the algebra) must reject
        if !honest {
            let holds = match st.e {
                SigVerify | MultiVerify | ShareVerify if is("sig") && is("pk") => {
                    let rid_s = <<C::R as rf::RefSuite>::Sig as bls12_381_plus::group::Group>::identity();
                    let rid_p = <<C::R as rf::RefSuite>::Pk as bls12_381_plus::group::Group>::identity();
                    let (m, dst) = match s {
                        Scheme::Aug => (rf::aug_msg::<C::R>(&rid_p, msg), rf::sig_dst::<C::R>(s)),
                        _ => (msg.clone(), rf::sig_dst::<C::R>(s)),
                    };
                    rf::bare_equation::<C::R>(&rid_p, &rid_s, &m, dst)
                }
                PopVerify if is("pop") && is("pk") => true,
                AggVerify { .. } if is("sig_rest") || (is("all_pk") && is("sig_id")) => true,
                MultiAccum if is("key_cancels") && is("sig_cancels") => true,
                Pok if is("v") && (is("pk") || is("u_cancels")) => true,
                Pok | PokTs if is("u_forged") => true,
                ScValid | ScDecrypt | ScKeyDecrypt | ScDecryptShares if is("u") && is("w") => true,
                _ => false,
            };
            if holds {
                o.outcome("rejected-although-bare-equation-holds");
            }
        }
    }
}

use rand_core::SeedableRng;

// ---- time-lock ciphertexts crafted for the identity signature ---------------------------------------------
//
// With the identity point as the decryption "signature" the pairing value is the unit of Gt whatever u is, so anybody
// can build (u, v, w) that is self-consistent for it: v = SHA-256(1_Gt) xor alpha, u = g^H(alpha || SHA-256(m)).
// Only the guard on the identity point stands between such a ciphertext and a returned message.

#[derive(Clone, Debug, PartialEq, Eq, Hash, Serialize, Deserialize)]
pub struct TlSt {
    s: Scheme,
    /// 0 = w frames a 20 byte message, 1 = w frames the empty message, 2 = w is empty, 3 = w unmasks to 12 bytes that all
    /// carry the continuation bit (no length prefix can be parsed), 4 = w unmasks to a single 0x80 byte
    shape: u8,
    /// the identity point as the signature (false: as the header u, with an honest signature)
    sig_identity: bool,
}

pub struct M04TL<C: Suite> {
    /// the property this instance reports under (C04; C13 runs the same states for its "nothing without the signature" clause)
    pub prop: &'static str,
    pub seed: u64,
    pub _c: PhantomData<C>,
}

impl<C: Suite> Model for M04TL<C> {
    type State = Option<TlSt>;
    type Action = TlSt;
    fn name(&self) -> String {
        format!("{}-timelock-crafted-for-identity/{}", self.prop.to_lowercase(), C::G)
    }
    fn init(&self) -> Vec<Option<TlSt>> {
        vec![None]
    }
    fn actions(&self, st: &Option<TlSt>) -> Vec<TlSt> {
        if st.is_some() {
            return vec![];
        }
        let mut v = vec![];
        for s in SCHEMES {
            for shape in 0..5u8 {
                for sig_identity in [true, false] {
                    v.push(TlSt { s, shape, sig_identity });
                }
            }
        }
        v
    }
    fn step(&self, _st: &Option<TlSt>, a: &TlSt) -> Option<Option<TlSt>> {
        Some(Some(a.clone()))
    }
    fn describe(&self, st: &Option<TlSt>) -> String {
        format!("{} time-lock ciphertext crafted for the unit pairing value {:?}: decrypt", C::G, st)
    }
    fn required_outcomes(&self) -> Vec<String> {
        vec!["crafted-for-identity:nothing".into()]
    }
    fn check(&self, st: &Option<TlSt>, o: &mut Obs) {
        use bls12_381_plus::group::Group as _;
        use sha2::Digest;
        let Some(st) = st else { return };
        o.nontrivial = true;
        let g = C::G;
        let alpha = rf::scalar_to_le(&rf::hash_to_scalar(&data32(self.seed, "c04-tl-alpha"), rf::SALT_TIMELOCK));
        let msg: Vec<u8> = match st.shape {
            0 => data(self.seed, "c04-tl-msg", 20),
            _ => vec![],
        };
        // what the opener will take as the message decides r
        let mut r_in = alpha.to_vec();
        r_in.extend_from_slice(&sha2::Sha256::digest(&msg));
        let r = rf::hash_to_scalar(&r_in, rf::SALT_TIMELOCK);
        let ru = <C::R as rf::RefSuite>::Pk::generator() * r;
        let plain: Vec<u8> = match st.shape {
            0 | 1 => rf::frame(&msg),
            2 => vec![],
            3 => vec![0xff; 12],
            _ => vec![0x80],
        };
        let w = rf::xor(&plain, &rf::shake128(&alpha, plain.len()));
        let unit = bls12_381_plus::Gt::IDENTITY;
        let v: [u8; 32] = rf::xor(&alpha, &sha2::Sha256::digest(unit.to_bytes().as_ref())).try_into().unwrap();
        let sk = SecretKey::<C>::from_hash(b"c04 time lock");
        let (u, sig) = if st.sig_identity {
            (pt_from::<PkP<C>>(&rf::enc(&ru)).unwrap(), mk_sig::<C>(st.s, SgP::<C>::identity()))
        } else {
            (PkP::<C>::identity(), sk.sign(lib_scheme(st.s), b"id").unwrap())
        };
        let ct = TimeCryptCiphertext::<C> { u, v, w: w.clone(), scheme: lib_scheme(st.s) };
        let d = guard(|| Option::<Vec<u8>>::from(ct.decrypt(&sig)));
        let t = guard(|| Option::<Vec<u8>>::from(<C as BlsTimeCrypt>::unseal(u, &v, &w, *sig.as_raw_value(), 1u8.into())));
        o.calls(2);
        let which = if st.sig_identity { "identity-signature" } else { "identity-header" };
        for (entry, r) in [("TimeCryptCiphertext::decrypt", &d), ("BlsTimeCrypt::unseal", &t)] {
            let nothing = matches!(r, Ok(None));
            o.outcome(if nothing { "crafted-for-identity:nothing" } else { "crafted-for-identity:something" });
            o.expect(
                &format!("{}:timelock-crafted-for-{}:{}:{}:{}:shape{}", self.prop, which, entry, g, st.s.name(), st.shape),
                nothing,
                "nothing",
                &match r {
                    Ok(Some(m)) => format!("a message of {} bytes", m.len()),
                    Ok(None) => "nothing".into(),
                    Err(p) => format!("PANIC {}", p),
                },
            );
        }
    }
}

// ---- identity keys far into long aggregate lists --------------------------------------------------------------
//
// The subset lattice above covers every position of lists up to 8 entries. An implementation that evaluates a long list
// in windows can lose the guard for entries behind the first window, so the identity key is also placed at and around
// the window sizes 2^k one would choose, in lists one entry longer.

#[derive(Clone, Debug, PartialEq, Eq, Hash, Serialize, Deserialize)]
pub struct LongSt {
    s: Scheme,
    n: usize,
    /// position of the identity key (None: the honest list, which must verify)
    pos: Option<usize>,
}

pub struct M04Long<C: Suite> {
    tier: Tier,
    sigs: std::sync::Mutex<std::collections::HashMap<Scheme, Vec<SgP<C>>>>,
    _c: PhantomData<C>,
}

impl<C: Suite> Model for M04Long<C> {
    type State = Option<LongSt>;
    type Action = LongSt;
    fn name(&self) -> String {
        format!("c04-identity-key-far-into-a-long-list/{}", C::G)
    }
    fn init(&self) -> Vec<Option<LongSt>> {
        vec![None]
    }
    fn actions(&self, st: &Option<LongSt>) -> Vec<LongSt> {
        if st.is_some() {
            return vec![];
        }
        let thorough = self.tier.thorough();
        let ns: &[usize] = if thorough { &[65, 129, 257, 513, 1025, 2049, 2100, 4097, 8193] } else { &[257, 2049, 4097] };
        let mut v = vec![];
        for s in SCHEMES {
            for &n in ns {
                v.push(LongSt { s, n, pos: None });
                let mut ps = vec![0, n - 1];
                let mut k = 32;
                while k < n {
                    if thorough {
                        ps.extend([k - 1, k, k + 1, n / 2, n - 2]);
                    } else if k * 8 >= n {
                        // quick: the three largest powers of two below n, and the entry behind the largest
                        ps.push(k);
                        if k * 2 >= n {
                            ps.push(k + 1);
                        }
                    }
                    k *= 2;
                }
                ps.sort();
                ps.dedup();
                for p in ps.into_iter().filter(|p| *p < n) {
                    v.push(LongSt { s, n, pos: Some(p) });
                }
            }
        }
        v
    }
    fn step(&self, _st: &Option<LongSt>, a: &LongSt) -> Option<Option<LongSt>> {
        Some(Some(a.clone()))
    }
    fn describe(&self, st: &Option<LongSt>) -> String {
        format!("{} aggregate verify over a long list, identity key at {:?}", C::G, st)
    }
    fn required_outcomes(&self) -> Vec<String> {
        vec!["long-list:honest-accepted".into(), "long-list:identity-key-rejected".into()]
    }
    fn check(&self, st: &Option<LongSt>, o: &mut Obs) {
        let Some(st) = st else { return };
        o.nontrivial = true;
        let sks: Vec<SecretKey<C>> = (0..4).map(|i| SecretKey::<C>::from_hash(format!("c04 long list signer {}", i))).collect();
        let msg = |i: usize| format!("c04 long list message {}", i).into_bytes();
        let ls = lib_scheme(st.s);
        // signatures of the honest list, made once per scheme (entry i: signer i mod 4, message i)
        let sigs = {
            let mut cache = self.sigs.lock().unwrap();
            let e = cache.entry(st.s).or_insert_with(Vec::new);
            while e.len() < st.n {
                let i = e.len();
                e.push(*sks[i % 4].sign(ls, &msg(i)).unwrap().as_raw_value());
            }
            e[..st.n].to_vec()
        };
        let mut acc = SgP::<C>::identity();
        let mut list: Vec<(PublicKey<C>, Vec<u8>)> = Vec::with_capacity(st.n);
        for i in 0..st.n {
            if Some(i) == st.pos {
                // the identity key's entry contributes the unit to the product whatever its message is, so the sum of
                // the other signatures satisfies the bare equation: only the guard can reject
                list.push((PublicKey(PkP::<C>::identity()), msg(i)));
            } else {
                acc += sigs[i];
                list.push((sks[i % 4].public_key(), msg(i)));
            }
        }
        let r = guard(|| mk_agg_sig::<C>(st.s, acc).verify(&list).is_ok());
        o.calls(1);
        match st.pos {
            None => {
                o.outcome("long-list:honest-accepted");
                o.expect(&format!("C04:long-list:{}:{}:honest:n{}", C::G, st.s.name(), st.n), matches!(r, Ok(true)), "accepted", &format!("{:?}", r));
            }
            Some(p) => {
                o.outcome(if matches!(r, Ok(false)) { "long-list:identity-key-rejected" } else { "long-list:identity-key-accepted" });
                o.expect(&format!("C04:long-list:{}:{}:identity-key:n{}", C::G, st.s.name(), st.n), matches!(r, Ok(false)), "rejected", &format!("position {} of {}: {:?}", p, st.n, r));
            }
        }
    }
}

pub fn models(tier: Tier, seed: u64) -> Vec<Box<dyn DynModel>> {
    vec![
        bounded(M04::<Bls12381G1Impl>::new(tier, seed), 6),
        bounded(M04::<Bls12381G2Impl>::new(tier, seed), 6),
    ]
    .into_iter()
    .chain([bounded(M04TL::<Bls12381G1Impl> { prop: "C04", seed, _c: PhantomData }, 1), bounded(M04TL::<Bls12381G2Impl> { prop: "C04", seed, _c: PhantomData }, 1)])
    .chain([bounded(M04Long::<Bls12381G1Impl> { tier, sigs: Default::default(), _c: PhantomData }, 1), bounded(M04Long::<Bls12381G2Impl> { tier, sigs: Default::default(), _c: PhantomData }, 1)])
    .chain(crate::props::tsurf::models("C04", tier, seed))
    .collect()
}

pub fn describe(tier: Tier, r: &mut Report) {
    r.rule = "initial states = every verifying / decrypting / signing / importing / encrypting entry point x scheme with honest arguments (must succeed); an action substitutes the identity point (or the zero scalar) for one more point-typed (scalar-typed) argument, so the reachable states are the full subset lattice of each entry point's arguments (alone, and together with every other one, which includes the trivially satisfied equations); aggregates: every length 2..N and every position. Every non-empty substitution must be rejected".into();
    r.deviation_bound_completed = "all arguments substituted (full lattice)".into();
    r.alphabet.insert("aggregate_lengths".into(), serde_json::json!(if tier.thorough() { "2..=8" } else { "2..=4" }));
    r.assumptions = vec!["sign_crypt (no Result) is outside the property by its own wording".into(), "cases counted under 'rejected-although-bare-equation-holds' are those where the pairing equation is trivially satisfied, so only the guard can have rejected".into()];
}
