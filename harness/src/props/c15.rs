//! C15 - every value survives every encoding unchanged.
use crate::common::*;
use crate::engine::*;
use crate::registry::*;
use serde::{Deserialize, Serialize};

#[derive(Clone, Debug, PartialEq, Eq, Hash, Serialize, Deserialize)]
pub struct St {
    ty: usize,
    val: usize,
    /// representation chain: encode as c1, decode, encode as c2, decode, ...
    chain: Vec<Codec>,
}

pub struct M15 {
    entries: Vec<Box<dyn TyDyn + Send + Sync>>,
    full: bool,
}

impl M15 {
    pub fn new(tier: Tier, seed: u64) -> Self {
        M15 { entries: all_entries(seed, tier.thorough()), full: tier.thorough() }
    }
}

impl Model for M15 {
    type State = St;
    type Action = Codec;
    fn name(&self) -> String {
        "c15-roundtrip".into()
    }
    fn init(&self) -> Vec<St> {
        let mut v = vec![];
        for (t, e) in self.entries.iter().enumerate() {
            for i in 0..e.nvalues() {
                v.push(St { ty: t, val: i, chain: vec![] });
            }
        }
        v
    }
    fn actions(&self, st: &St) -> Vec<Codec> {
        let e = &self.entries[st.ty];
        // chains of length 3 only on a few values per type (first, middle, last) unless thorough
        if st.chain.len() >= 2 {
            let n = e.nvalues();
            if !(st.val == 0 || st.val == n / 2 || st.val + 1 == n) || (!self.full && st.val != 0) {
                return vec![];
            }
        }
        if st.chain.len() >= 1 && e.nvalues() > 40 && !(st.val < 4 || st.val + 4 >= e.nvalues() || st.val % 16 == 0) {
            // the 255-identifier value sets: all codecs once for every identifier, chains for a spread
            return vec![];
        }
        e.codecs()
    }
    fn step(&self, st: &St, a: &Codec) -> Option<St> {
        let mut n = st.clone();
        n.chain.push(*a);
        Some(n)
    }
    fn describe(&self, st: &St) -> String {
        let e = &self.entries[st.ty];
        format!("{} value '{}' through {:?}", e.name(), e.label(st.val), st.chain)
    }
    fn required_outcomes(&self) -> Vec<String> {
        vec!["roundtrip:equal".into(), "length:fixed".into()]
    }
    fn check(&self, st: &St, o: &mut Obs) {
        let e = &self.entries[st.ty];
        let tn = e.name();
        if st.chain.is_empty() {
            // root: every codec encodes deterministically; fixed-size types have one length per (type, group)
            o.nontrivial = true;
            // a copy made with Clone is the same value (every field carried over)
            let cl = e.clone_is_equal(st.val);
            o.expect(&format!("C15:clone-equals-original:{}", tn), cl == Ok(true), "equal value, equal encoding", &format!("{:?}", cl));
            for c in e.codecs() {
                let a = e.encode(st.val, c);
                let b = e.encode(st.val, c);
                o.calls(2);
                match (&a, &b) {
                    (Ok(a), Ok(b)) => {
                        o.expect(&format!("C15:encode-deterministic:{}:{:?}", tn, c), a == b, "equal", "differs");
                        o.record("enc", a);
                        if e.fixed() && !matches!(c, Codec::Json | Codec::JsonReader | Codec::JsonValue) {
                            let first = e.encode(0, c).map(|x| x.len()).unwrap_or(0);
                            o.expect(&format!("C15:fixed-length:{}:{:?}", tn, c), a.len() == first, &format!("{} bytes", first), &format!("{} bytes", a.len()));
                            o.outcome("length:fixed");
                        }
                    }
                    _ => o.expect(&format!("C15:encode:{}:{:?}", tn, c), false, "Ok", &format!("{:?}", a.as_ref().err())),
                }
            }
            return;
        }
        o.nontrivial = true;
        // walk the chain
        let mut bytes = match e.encode(st.val, st.chain[0]) {
            Ok(b) => b,
            Err(er) => {
                o.expect(&format!("C15:encode:{}:{:?}", tn, st.chain[0]), false, "Ok", &er);
                return;
            }
        };
        o.calls(1);
        for (k, c) in st.chain.iter().enumerate() {
            let dec = e.decode(*c, &bytes);
            o.calls(1);
            let v = match dec {
                Err(p) => {
                    o.expect(&format!("C15:decode-panics:{}:{:?}", tn, c), false, "returns", &p);
                    return;
                }
                Ok(Err(er)) => {
                    o.outcome("roundtrip:decode-error");
                    o.expect(&format!("C15:decode-own-encoding:{}:{:?}", tn, c), false, "Ok", &er);
                    return;
                }
                Ok(Ok(v)) => v,
            };
            let eq = v.equals(st.val);
            o.outcome(if eq { "roundtrip:equal" } else { "roundtrip:differs" });
            o.expect(&format!("C15:decode-encode-identity:{}:{:?}", tn, c), eq, "value equal to the original", "a different value");
            // encode(decode(x)) == x for the same codec
            match v.encode(*c) {
                Ok(re) => o.expect(&format!("C15:reencode-identical:{}:{:?}", tn, c), re == bytes, "identical bytes", "different bytes"),
                Err(er) => o.expect(&format!("C15:reencode:{}:{:?}", tn, c), false, "Ok", &er),
            }
            o.calls(1);
            if k + 1 < st.chain.len() {
                let next = st.chain[k + 1];
                // the value reached through the transport encodes like the original does
                let direct = e.encode(st.val, next);
                match (v.encode(next), direct) {
                    (Ok(a), Ok(b)) => {
                        o.expect(&format!("C15:transported-equals-direct:{}:{:?}->{:?}", tn, c, next), a == b, "identical bytes", "different bytes");
                        bytes = a;
                    }
                    (a, _) => {
                        o.expect(&format!("C15:encode:{}:{:?}", tn, next), false, "Ok", &format!("{:?}", a.err()));
                        return;
                    }
                }
                o.calls(2);
            }
        }
    }
}

pub struct MRegistry {
    seed: u64,
}
#[derive(Clone, Debug, PartialEq, Eq, Hash, Serialize, Deserialize)]
pub struct RSt(usize);
impl Model for MRegistry {
    type State = RSt;
    type Action = ();
    fn name(&self) -> String {
        "c15-registry-completeness".into()
    }
    fn init(&self) -> Vec<RSt> {
        vec![RSt(0)]
    }
    fn actions(&self, _s: &RSt) -> Vec<()> {
        vec![]
    }
    fn step(&self, _s: &RSt, _a: &()) -> Option<RSt> {
        None
    }
    fn check(&self, _s: &RSt, o: &mut Obs) {
        let entries = all_entries(self.seed, false);
        let gaps = completeness_gaps(&entries);
        let mut names: Vec<String> = entries.iter().map(|e| e.name().split('<').next().unwrap().to_string()).collect();
        names.sort();
        names.dedup();
        o.note(format!("{} data types registered", names.len()));
        // a type exported by the library that the registry does not know is a coverage gap of the machinery
        if !gaps.is_empty() {
            panic!("registry gap: exported types not registered: {:?}", gaps);
        }
    }
}

pub fn models(tier: Tier, seed: u64) -> Vec<Box<dyn DynModel>> {
    let mut v: Vec<Box<dyn DynModel>> = vec![bounded(M15::new(tier, seed), if tier.thorough() { 3 } else { 3 }), bounded(MRegistry { seed }, 0)];
    v.extend(crate::props::tsurf::models("C15", tier, seed));
    v
}

pub fn describe(tier: Tier, r: &mut Report) {
    r.rule = "states = (type, group, value, representation chain); initial states are all values of all 28 registered data types in both groups (identity points, scalars 1 / 128 / r-1, empty / 5 / 33 byte (thorough: 64 KiB) payloads, all scheme variants, share identifiers); an action appends one codec (TryFrom<&[u8]>, the three container conversions, serde_bare, serde_json, big / little endian for scalar types): encode, decode, compare with the original, re-encode, and compare the value reached through the transport with the direct encoding. A self-check parses /repo/src for exported types and fails the machinery if one is missing from the registry".into();
    r.deviation_bound_completed = "chains of 3 codecs (on first / middle / last value per type), 2 elsewhere".into();
    r.alphabet.insert("share_identifiers".into(), serde_json::json!(if tier.thorough() { "every identifier 1..=255" } else { "1, 2, 127, 128, 129, 254, 255" }));
}
