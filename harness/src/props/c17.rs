//! C17 - no input makes a decoding, verification or decryption call abort.
//!
//! The model below is explored inside child processes (one partition each, sequential, printing the
//! case before running it) in two build profiles: `release` and `checked` (release + debug
//! assertions + overflow checks for every crate). Unwinding panics are caught in the child and
//! reported as violations; a child that dies (abort, stack overflow) or exceeds the per-case
//! watchdog is turned into a violation naming its last case by the parent.
use crate::common::*;
use crate::engine::*;
use crate::refmodel::{self as rf, RefSuite, Scheme, SCHEMES};
use crate::registry::*;
use blsful::*;
use serde::{Deserialize, Serialize};
use sha2::{Digest, Sha256};

#[derive(Clone, Debug, PartialEq, Eq, Hash, Serialize, Deserialize)]
pub enum Mutn {
    Trunc(usize),
    Flip(usize),
    Ext(u8),
    /// JSON document level mutation #i
    Json(usize),
}

#[derive(Clone, Debug, PartialEq, Eq, Hash, Serialize, Deserialize)]
pub enum St {
    /// decode (then consume) value `val` of type `ty` encoded with `codec`, optionally mutated
    Decode { ty: usize, codec: Codec, val: usize, m: Option<Mutn> },
    /// zero test: 32 byte input whose bytes OR to `b`, through scalar import path (`ty`, `codec`)
    ByteOr { ty: usize, codec: Codec, b: u8, first: bool },
    /// empty slices / empty messages into entry point #`entry` of group `g`
    Empty { g: usize, entry: usize },
    /// timestamp proof with timestamp value #`ts` verified with timeout #`to` under the real clock
    Timestamp { g: usize, s: Scheme, ts: usize, to: usize },
    /// crafted / degenerate payloads
    Payload { g: usize, s: Scheme, kind: usize },
    /// every message taking verifying / opening entry point with a message (or identifier) of dense length #`len`
    MsgLen { g: usize, s: Scheme, len: usize },
}

pub const N_EMPTY: usize = 15;
pub const N_PAYLOAD: usize = 10 + 2 * FRAME_LENGTHS.len();
/// decrypted length prefixes announcing absurd lengths (LEB128 values)
pub const FRAME_LENGTHS: [u128; 9] = [1 << 62, 1 << 63, u64::MAX as u128, u64::MAX as u128 - 1, u64::MAX as u128 - 9, u64::MAX as u128 - 31, 1 << 64, (1 << 64) + 5, u128::MAX >> 2];
const TIMEOUTS: [Option<u64>; 6] = [None, Some(0), Some(1), Some(5), Some(1000), Some(u64::MAX)];

fn ts_values() -> Vec<u64> {
    let mut v: Vec<u64> = (0..64).map(|b| 1u64 << b).collect();
    v.extend([0, u64::MAX, u64::MAX - 1, 1_700_000_000_000, (1u64 << 63) + 1]);
    v
}

pub struct M17 {
    tier: Tier,
    entries: Vec<Box<dyn TyDyn + Send + Sync>>,
    c1: Ctx<Bls12381G1Impl>,
    c2: Ctx<Bls12381G2Impl>,
    /// JSON document mutations per (type, value)
    jm: std::collections::HashMap<(usize, usize), Vec<(String, String)>>,
}
unsafe impl Send for M17 {}
unsafe impl Sync for M17 {}

impl M17 {
    pub fn new(tier: Tier, seed: u64) -> Self {
        let entries = all_entries(seed, false);
        let mut jm = std::collections::HashMap::new();
        for (t, e) in entries.iter().enumerate() {
            for val in 0..e.nvalues().min(2) {
                if let Ok(enc) = e.encode(val, Codec::Json) {
                    if let Ok(txt) = String::from_utf8(enc) {
                        jm.insert((t, val), json_mutations(&txt));
                    }
                }
            }
        }
        M17 { tier, entries, c1: Ctx::new(seed), c2: Ctx::new(seed), jm }
    }
}

/// document level mutations of a JSON text
pub fn json_mutations(doc: &str) -> Vec<(String, String)> {
    use serde_json::Value;
    let mut out: Vec<(String, String)> = vec![];
    let Ok(root) = serde_json::from_str::<Value>(doc) else {
        return out;
    };
    // collect paths to every node
    fn paths(v: &Value, cur: Vec<String>, out: &mut Vec<Vec<String>>) {
        out.push(cur.clone());
        match v {
            Value::Array(a) => {
                for (i, x) in a.iter().enumerate() {
                    let mut c = cur.clone();
                    c.push(i.to_string());
                    paths(x, c, out);
                }
            }
            Value::Object(m) => {
                for (k, x) in m {
                    let mut c = cur.clone();
                    c.push(k.clone());
                    paths(x, c, out);
                }
            }
            _ => {}
        }
    }
    fn get_mut<'a>(v: &'a mut Value, path: &[String]) -> Option<&'a mut Value> {
        let mut cur = v;
        for p in path {
            cur = match cur {
                Value::Array(a) => a.get_mut(p.parse::<usize>().ok()?)?,
                Value::Object(m) => m.get_mut(p)?,
                _ => return None,
            };
        }
        Some(cur)
    }
    let mut ps = vec![];
    paths(&root, vec![], &mut ps);
    // arrays of numbers (serde_bare style byte lists in JSON, e.g. Vec<u8>) can be long: only the first 3 elements
    for path in ps.iter().filter(|p| p.last().map(|l| l.parse::<usize>().map(|i| i < 3).unwrap_or(true)).unwrap_or(true)) {
        let here = {
            let mut r = root.clone();
            get_mut(&mut r, path).cloned()
        };
        let Some(node) = here else { continue };
        let pl = path.join("/");
        let mut set = |label: &str, nv: Value| {
            let mut r = root.clone();
            if let Some(slot) = get_mut(&mut r, path) {
                *slot = nv;
                out.push((format!("{}@{}", label, pl), r.to_string()));
            }
        };
        for (l, v) in [("null", Value::Null), ("empty-object", serde_json::json!({})), ("empty-array", serde_json::json!([])), ("true", Value::Bool(true))] {
            set(l, v);
        }
        match &node {
            Value::String(s) => {
                let n = s.len();
                set("string-empty", Value::String(String::new()));
                if n >= 2 {
                    set("string-short", Value::String(s[..n - 2].to_string()));
                    set("string-odd", Value::String(s[..n - 1].to_string()));
                    set("string-non-hex", Value::String(format!("zz{}", &s[2..])));
                    set("string-non-ascii", Value::String(format!("\u{e9}{}", &s[2..])));
                    set("string-upper", Value::String(s.to_uppercase()));
                }
                // same byte length, a multi byte character at every offset (short strings) or at both ends and the middle:
                // code that indexes or splits the string by byte offsets meets a character boundary problem
                if s.is_ascii() {
                    let offs: Vec<usize> = if n <= 24 { (0..n).collect() } else { vec![0, 1, 2, 3, n / 2, n / 2 + 1, n - 5, n - 4, n - 3, n - 2] };
                    for i in offs {
                        for (w, ch) in [(2usize, "\u{e9}"), (3, "\u{20ac}"), (4, "\u{1f511}")] {
                            if i + w <= n {
                                set(&format!("string-multibyte{}-at-{}", w, if n <= 24 { i.to_string() } else { format!("{}of{}", i, n) }), Value::String(format!("{}{}{}", &s[..i], ch, &s[i + w..])));
                            }
                        }
                    }
                }
                set("string-long", Value::String(format!("{}00", s)));
                set("string-very-long", Value::String(s.repeat(50)));
                set("string-0x", Value::String(format!("0x{}", s)));
                set("number-for-string", serde_json::json!(7));
            }
            Value::Number(_) => {
                for (l, v) in [("number-256", serde_json::json!(256)), ("number-neg", serde_json::json!(-1)), ("number-huge", serde_json::json!(1e99)), ("number-float", serde_json::json!(1.5)), ("number-u64max", serde_json::json!(u64::MAX)), ("string-for-number", serde_json::json!("1"))] {
                    set(l, v);
                }
            }
            Value::Object(m) => {
                for k in m.keys() {
                    let mut m2 = m.clone();
                    m2.remove(k);
                    set(&format!("field-removed-{}", k), Value::Object(m2));
                    let mut m3 = m.clone();
                    let v = m3.remove(k).unwrap();
                    m3.insert("Nope".into(), v);
                    set(&format!("field-renamed-{}", k), Value::Object(m3));
                }
                let mut m4 = m.clone();
                m4.insert("unknown_field".into(), serde_json::json!(1));
                set("field-unknown-added", Value::Object(m4));
            }
            Value::Array(a) => {
                let mut a2 = a.clone();
                a2.pop();
                set("array-shorter", Value::Array(a2));
                let mut a3 = a.clone();
                a3.push(serde_json::json!(0));
                set("array-longer", Value::Array(a3));
            }
            _ => {}
        }
    }
    // text level: duplicated field, deep nesting, escapes
    if let Some(pos) = doc.find("\":") {
        if let Some(start) = doc[..pos].rfind('"') {
            let key = &doc[start..pos + 2];
            out.push(("duplicate-first-field".into(), doc.replacen(key, &format!("{}null,{}", key, key), 1)));
        }
    }
    out.push(("nesting-200".into(), format!("{}{}{}", "[".repeat(200), doc, "]".repeat(200))));
    out.push(("nesting-100000".into(), format!("{}{}", "[".repeat(100_000), "]".repeat(100_000))));
    if let Some(pos) = doc.find('"') {
        // first string starts with an escape sequence
        let mut d = doc.to_string();
        d.insert_str(pos + 1, "\\u0061");
        out.push(("escaped-prefix".into(), d));
    }
    out.push(("empty-document".into(), String::new()));
    out.push(("whitespace".into(), "  ".into()));
    out.push(("bare-string".into(), "\"00\"".into()));
    out.push(("bare-number".into(), "0".into()));
    out
}

fn empty_entry<C: Suite>(x: &Ctx<C>, entry: usize) {
    let e: &[u8] = &[];
    match entry {
        0 => {
            let _ = Signature::<C>::from_shares(&[]);
        }
        1 => {
            let _ = PublicKey::<C>::from_shares(&[]);
        }
        2 => {
            let _ = SecretKey::<C>::combine(&[]);
        }
        3 => {
            let _ = AggregateSignature::<C>::from_signatures(&[] as &[Signature<C>]);
            let _ = AggregateSignature::<C>::from_signatures(&[x.sigs[0]]);
        }
        4 => {
            let _ = MultiSignature::<C>::from_signatures(&[] as &[Signature<C>]);
            let _ = MultiSignature::<C>::from_signatures(&[x.sigs[2]]);
        }
        5 => {
            let k = MultiPublicKey::<C>::from_public_keys(&[] as &[PublicKey<C>]);
            let _ = MultiSignature::<C>::from_signatures([x.sigs[2], x.sigs[2]]).map(|m| m.verify(k, &x.msg));
        }
        6 => {
            for s in SCHEMES {
                let a = mk_agg_sig::<C>(s, *x.sigs[s.idx()].as_raw_value());
                let _ = a.verify::<Vec<u8>>(&[]);
                let _ = a.verify(&[(x.pk, e)]);
            }
        }
        7 => {
            let _ = Option::<Vec<u8>>::from(x.sc.decrypt_with_shares(&[] as &[SignDecryptionShare<C>]));
        }
        8 => {
            let _ = SignCryptDecryptionKey::<C>::from_shares(&[]);
        }
        9 => {
            let _ = ElGamalDecryptionKey::<C>::from_shares(&[]);
        }
        10 => {
            for s in SCHEMES {
                let sig = x.sk.sign(lib_scheme(s), e).unwrap();
                let _ = sig.verify(&x.pk, e);
                let _ = x.sigs[s.idx()].verify(&x.pk, e);
                for sh in &x.shares {
                    let _ = sh.sign(lib_scheme(s), e).map(|p| x.pk_shares[0].verify(&p, e));
                }
            }
        }
        11 => {
            for s in SCHEMES {
                let ct = x.pk.sign_crypt(lib_scheme(s), e);
                let _ = ct.is_valid();
                let _ = Option::<Vec<u8>>::from(ct.decrypt(&x.sk));
                let ds: Vec<_> = x.shares.iter().map(|sh| ct.create_decryption_share(sh).unwrap()).collect();
                let _ = Option::<Vec<u8>>::from(ct.decrypt_with_shares(&ds));
            }
        }
        12 => {
            for s in SCHEMES {
                for (m, id) in [(e, e), (e, &b"id"[..]), (&b"m"[..], e)] {
                    if let Ok(ct) = x.pk.encrypt_time_lock(lib_scheme(s), m, id) {
                        let _ = x.sk.sign(lib_scheme(s), id).map(|sig| Option::<Vec<u8>>::from(ct.decrypt(&sig)));
                    }
                }
            }
        }
        13 => {
            let k = SecretKey::<C>::from_hash(e);
            let _ = k.public_key();
            let _ = ProofCommitmentChallenge::<C>::from_hash(e);
            let _ = SecretKeyEnum::from_hash(Bls12381::G1, e);
        }
        _ => {
            for s in SCHEMES {
                let sig = x.sk.sign(lib_scheme(s), e).unwrap();
                if let Ok((c, sec)) = ProofCommitment::<C>::generate(e, sig) {
                    let _ = c.finalize(sec, x.challenge, sig).map(|p| p.verify(x.pk, e, x.challenge));
                }
                let _ = ProofOfKnowledgeTimestamp::<C>::generate(e, sig).map(|p| p.verify(x.pk, e, Some(10)));
            }
        }
    }
}

/// crafted and degenerate payloads; returns a short description of what was run
fn payload_case<C: Suite>(x: &Ctx<C>, s: Scheme, kind: usize) -> String {
    let ls = lib_scheme(s);
    let rsk = rf::scalar_from_be(&x.sk.to_be_bytes()).unwrap();
    let rpk = rf::sk_to_pk::<C::R>(&rsk);
    let to_lib_pk = |p: &<C::R as RefSuite>::Pk| pt_from::<PkP<C>>(&rf::enc(p)).unwrap();
    let to_lib_sig = |p: &<C::R as RefSuite>::Sig| pt_from::<SgP<C>>(&rf::enc(p)).unwrap();
    // kinds >= 10: signcryption (even) / time lock (odd) whose decrypted framing announces FRAME_LENGTHS[i]
    let (kind, frame_len) = if kind >= 10 { (if (kind - 10) % 2 == 0 { 2 } else { 5 }, FRAME_LENGTHS[(kind - 10) / 2]) } else { (kind, 1u128 << 62) };
    match kind {
        // signcryption: valid ciphertexts with a payload of 0 and 1 byte; the 1 byte one crafted so that the
        // first keystream byte is zero
        0 | 1 | 2 => {
            let vlen = if kind == 0 { 0 } else { 1 };
            let mut found = None;
            for i in 0..20000u32 {
                let r = rf::hash_to_scalar(&i.to_le_bytes(), b"c17-craft");
                let ks = rf::shake128(&rf::enc(&(rpk * r)), 1);
                if kind != 1 || ks[0] == 0 {
                    found = Some(r);
                    break;
                }
            }
            let r = found.expect("no r with zero keystream byte found");
            let u = <C::R as RefSuite>::Pk::generator() * r;
            let v: Vec<u8> = if kind == 2 {
                // plaintext framing that announces an absurd length
                let mut f = rf::leb128(frame_len);
                f.resize(40, 0);
                rf::xor(&f, &rf::shake128(&rf::enc(&(rpk * r)), 40))
            } else {
                vec![0x5a; vlen]
            };
            let mut t = rf::enc(&u);
            t.extend_from_slice(&v);
            let w = <C::R as RefSuite>::hash_to_sig(&t, rf::sig_dst::<C::R>(s)) * r;
            let ct = SignCryptCiphertext::<C> { u: to_lib_pk(&u), v, w: to_lib_sig(&w), scheme: ls };
            let valid = bool::from(ct.is_valid());
            let d = Option::<Vec<u8>>::from(ct.decrypt(&x.sk));
            let d2 = Option::<Vec<u8>>::from(x.sk.sign_decryption_key::<&[u8]>(&ct).decrypt(&ct));
            let ds: Vec<_> = x.shares.iter().map(|sh| ct.create_decryption_share(sh).unwrap()).collect();
            let d3 = Option::<Vec<u8>>::from(ct.decrypt_with_shares(&ds));
            format!("signcrypt crafted kind {} valid={} decrypt={:?}/{:?}/{:?}", kind, valid, d.map(|m| m.len()), d2.map(|m| m.len()), d3.map(|m| m.len()))
        }
        // time lock: w of 0 and 1 byte (crafted zero keystream byte), and a framing announcing 2^62 bytes
        3 | 4 | 5 => {
            let sig = x.sk.sign(ls, &x.id).unwrap();
            let rsig = <C::R as RefSuite>::sig_from(&pt(sig.as_raw_value())).unwrap();
            let u = <C::R as RefSuite>::Pk::generator() * rf::RScalar::from(5u64);
            let k = <C::R as RefSuite>::pairing_product(&[(rsig, u)]);
            let kh = Sha256::digest(k.to_bytes().as_ref());
            let mut alpha = [0u8; 32];
            for i in 0..20000u32 {
                alpha[..4].copy_from_slice(&i.to_le_bytes());
                if kind != 4 || rf::shake128(&alpha, 1)[0] == 0 {
                    break;
                }
            }
            let v: [u8; 32] = rf::xor(&alpha, &kh).try_into().unwrap();
            let w: Vec<u8> = match kind {
                3 => vec![],
                4 => vec![0x33],
                _ => {
                    let mut f = rf::leb128(frame_len);
                    f.resize(40, 0);
                    rf::xor(&f, &rf::shake128(&alpha, 40))
                }
            };
            let ct = TimeCryptCiphertext::<C> { u: to_lib_pk(&u), v, w, scheme: ls };
            let d = Option::<Vec<u8>>::from(ct.decrypt(&sig));
            format!("timelock crafted kind {} decrypt={:?}", kind, d.map(|m| m.len()))
        }
        // serde_bare length prefixes announcing far more data than present
        6 | 7 => {
            let mut b = if kind == 6 { Vec::<u8>::from(&x.sc) } else { Vec::<u8>::from(&x.tl) };
            let off = if kind == 6 { pt(&x.sc.u).len() } else { pt(&x.tl.u).len() + 32 };
            // replace the one byte length prefix by a 9 byte varint of 2^62
            let mut big = vec![0x80u8; 8];
            big.push(0x40);
            b.splice(off..off + 1, big);
            let r = if kind == 6 { SignCryptCiphertext::<C>::try_from(b.as_slice()).is_ok() } else { TimeCryptCiphertext::<C>::try_from(b.as_slice()).is_ok() };
            format!("bare length prefix 2^62: decoded={}", r)
        }
        8 => {
            // JSON byte array with one element far out of range and a very long v
            let doc = serde_json::to_string(&x.sc).unwrap();
            let r1 = serde_json::from_str::<SignCryptCiphertext<C>>(&doc.replacen("\"v\":[", "\"v\":[99999999999,", 1)).is_ok();
            format!("json v element out of range: decoded={}", r1)
        }
        _ => {
            // default values of every defaultable type fed to their consumers
            let ct = SignCryptCiphertext::<C>::default();
            let _ = ct.is_valid();
            let _ = Option::<Vec<u8>>::from(ct.decrypt(&x.sk));
            let tl = TimeCryptCiphertext::<C>::default();
            let _ = Option::<Vec<u8>>::from(tl.decrypt(&Signature::<C>::default()));
            let _ = Signature::<C>::default().verify(&PublicKey::<C>::default(), b"");
            let _ = ProofOfKnowledge::<C>::default().verify(PublicKey::<C>::default(), b"", ProofCommitmentChallenge::<C>::default());
            let _ = ProofOfKnowledgeTimestamp::<C>::default().verify(PublicKey::<C>::default(), b"", Some(1));
            let _ = ElGamalProof::<C>::default().verify(PublicKey::<C>::default());
            let _ = SignatureShare::<C>::default().verify(&x.pk_shares[0], b"");
            let _ = SecretKey::<C>::default().sign(ls, b"");
            "defaults consumed".into()
        }
    }
}

impl M17 {
    fn muts(&self, ty: usize, codec: Codec, val: usize) -> Vec<Mutn> {
        let e = &self.entries[ty];
        let Ok(enc) = e.encode(val, codec) else {
            return vec![];
        };
        let mut a = vec![];
        let containers = matches!(codec, Codec::VecOwned | Codec::VecRef | Codec::BoxSlice | Codec::JsonReader | Codec::JsonValue);
        for l in 0..enc.len() {
            if containers && !(l == 0 || l + 1 == enc.len() || l == enc.len() / 2) {
                continue;
            }
            a.push(Mutn::Trunc(l));
        }
        a.push(Mutn::Ext(0));
        a.push(Mutn::Ext(0xFF));
        if containers {
            return a;
        }
        for i in 0..enc.len() * 8 {
            if self.tier.thorough() || i % 8 == (i / 8) % 8 {
                a.push(Mutn::Flip(i));
            }
        }
        if codec == Codec::Json {
            for i in 0..self.jm.get(&(ty, val)).map(|v| v.len()).unwrap_or(0) {
                a.push(Mutn::Json(i));
            }
        }
        a
    }
}

impl Model for M17 {
    type State = St;
    type Action = Mutn;
    fn name(&self) -> String {
        "c17-no-abort".into()
    }
    fn init(&self) -> Vec<St> {
        let mut v = vec![];
        for (t, e) in self.entries.iter().enumerate() {
            for c in e.codecs() {
                for val in 0..e.nvalues() {
                    v.push(St::Decode { ty: t, codec: c, val, m: None });
                }
                if e.scalars_of(0).len() == 1 && matches!(c, Codec::Bytes | Codec::Be | Codec::Le) {
                    for b in 0..=255u8 {
                        v.push(St::ByteOr { ty: t, codec: c, b, first: false });
                        if b % 16 == 0 || b == 0x7f || b == 0x81 {
                            v.push(St::ByteOr { ty: t, codec: c, b, first: true });
                        }
                    }
                }
            }
        }
        for g in 0..2 {
            for entry in 0..N_EMPTY {
                v.push(St::Empty { g, entry });
            }
            for s in SCHEMES {
                for ts in 0..ts_values().len() {
                    for to in 0..TIMEOUTS.len() {
                        v.push(St::Timestamp { g, s, ts, to });
                    }
                }
                for kind in 0..N_PAYLOAD {
                    v.push(St::Payload { g, s, kind });
                }
                for len in 0..dense_lens().len() {
                    v.push(St::MsgLen { g, s, len });
                }
            }
        }
        v
    }
    fn actions(&self, st: &St) -> Vec<Mutn> {
        match st {
            // mutations on the first value of every type (and the second when it is a different variant)
            St::Decode { ty, codec, val, m: None } if *val <= 1 => self.muts(*ty, *codec, *val),
            _ => vec![],
        }
    }
    fn step(&self, st: &St, a: &Mutn) -> Option<St> {
        match st {
            St::Decode { ty, codec, val, m: None } => Some(St::Decode { ty: *ty, codec: *codec, val: *val, m: Some(a.clone()) }),
            _ => None,
        }
    }
    fn describe(&self, st: &St) -> String {
        match st {
            St::Decode { ty, codec, val, m } => {
                let e = &self.entries[*ty];
                format!("decode {} value '{}' via {:?}, mutation {:?}; every consuming method on whatever decodes", e.name(), e.label(*val), codec, m)
            }
            St::ByteOr { ty, codec, b, first } => format!("{} via {:?}: 32 bytes that OR to {:#04x} ({} byte set)", self.entries[*ty].name(), codec, b, if *first { "first" } else { "last" }),
            other => format!("{:?}", other),
        }
    }
    fn required_outcomes(&self) -> Vec<String> {
        vec![]
    }
    fn check(&self, st: &St, o: &mut Obs) {
        o.nontrivial = true;
        let profile = if cfg!(debug_assertions) { "checked" } else { "release" };
        match st {
            St::Decode { ty, codec, val, m } => {
                let e = &self.entries[*ty];
                let tn = e.name();
                let Ok(enc) = e.encode(*val, *codec) else {
                    o.expect(&format!("C17:encode:{}:{:?}", tn, codec), false, "Ok", "Err");
                    return;
                };
                let mut input = enc.clone();
                let mut cls = "valid".to_string();
                match m {
                    None => {}
                    Some(Mutn::Trunc(l)) => {
                        input.truncate(*l);
                        cls = if *l == 0 { "empty".into() } else { "truncated".into() };
                    }
                    Some(Mutn::Flip(i)) => {
                        input[i / 8] ^= 0x80 >> (i % 8);
                        cls = "bit-flip".into();
                    }
                    Some(Mutn::Ext(b)) => {
                        input.push(*b);
                        cls = "extended".into();
                    }
                    Some(Mutn::Json(i)) => {
                        let (l, d) = &self.jm[&(*ty, *val)][*i];
                        cls = format!("json:{}", l.split('@').next().unwrap());
                        input = d.clone().into_bytes();
                    }
                }
                let dec = e.decode(*codec, &input);
                o.calls(1);
                match dec {
                    Err(p) => {
                        o.outcome("decode:PANIC");
                        o.expect(&format!("C17:panic:decode:{}:{:?}:{}:{}", tn, codec, cls, profile), false, "returns", &p);
                    }
                    Ok(Err(_)) => o.outcome("decode:err"),
                    Ok(Ok(v)) => {
                        o.outcome("decode:ok");
                        o.calls(1);
                        if let Err(p) = v.consume() {
                            o.outcome("consume:PANIC");
                            o.expect(&format!("C17:panic:consume:{}:{:?}:{}:{}", tn, codec, cls, profile), false, "returns", &p);
                        } else {
                            o.outcome("consume:returned");
                        }
                        for c in e.codecs() {
                            if let Err(p) = v.encode(c) {
                                if p.contains(" @ ") {
                                    o.expect(&format!("C17:panic:reencode:{}:{:?}:{}", tn, c, profile), false, "returns", &p);
                                }
                            }
                        }
                    }
                }
            }
            St::ByteOr { ty, codec, b, first } => {
                let e = &self.entries[*ty];
                let mut input = vec![0u8; 32];
                if *first {
                    input[0] = *b;
                } else {
                    input[31] = *b;
                }
                if e.name() == "SecretKeyEnum" {
                    input.insert(0, 1);
                }
                let dec = e.decode(*codec, &input);
                o.calls(1);
                match dec {
                    Err(p) => {
                        o.outcome("byte-or:PANIC");
                        o.expect(&format!("C17:panic:zero-test:{}:{:?}:{}", e.name(), codec, profile), false, "returns", &p);
                    }
                    Ok(r) => {
                        o.outcome(if r.is_ok() { "byte-or:some" } else { "byte-or:none" });
                        // only the all-zero input may be refused as zero (values below r are all valid scalars)
                        o.expect(&format!("C17:zero-test-decision:{}:{:?}", e.name(), codec), r.is_ok() == (*b != 0), if *b != 0 { "accepted (non-zero scalar below r)" } else { "refused (zero)" }, if r.is_ok() { "accepted" } else { "refused" });
                    }
                }
            }
            St::Empty { g, entry } => {
                let r = if *g == 0 { guard(|| empty_entry(&self.c1, *entry)) } else { guard(|| empty_entry(&self.c2, *entry)) };
                o.calls(1);
                o.outcome(if r.is_ok() { "empty:returned" } else { "empty:PANIC" });
                if let Err(p) = r {
                    o.expect(&format!("C17:panic:empty-input:entry{}:{}:{}", entry, GROUPS[*g], profile), false, "returns", &p);
                }
            }
            St::Timestamp { g, s, ts, to } => {
                fn run<C: Suite>(x: &Ctx<C>, s: Scheme, ts: u64, to: Option<u64>) -> Result<(), String> {
                    guard(|| {
                        let mut p = ProofOfKnowledgeTimestamp::<C>::generate(&x.msg, x.sigs[s.idx()]).unwrap();
                        p.timestamp = ts;
                        let _ = p.verify(x.pk, &x.msg, to);
                    })
                }
                let tsv = ts_values()[*ts];
                let r = if *g == 0 { run(&self.c1, *s, tsv, TIMEOUTS[*to]) } else { run(&self.c2, *s, tsv, TIMEOUTS[*to]) };
                o.calls(2);
                o.outcome(if r.is_ok() { "timestamp:returned" } else { "timestamp:PANIC" });
                if let Err(p) = r {
                    o.expect(&format!("C17:panic:timestamp-verify:{}:{}:{}", GROUPS[*g], s.name(), profile), false, "returns", &p);
                }
            }
            St::MsgLen { g, s, len } => {
                fn run<C: Suite>(x: &Ctx<C>, s: Scheme, len: usize) -> Result<(), String> {
                    let msg = vec![0x5au8; len];
                    guard(|| {
                        let ls = lib_scheme(s);
                        // an honest signature over this message and one over another message, through every verifying entry
                        let honest = x.sk.sign(ls, &msg);
                        for sig in [honest.ok(), Some(x.sigs[s.idx()])].into_iter().flatten() {
                            let _ = sig.verify(&x.pk, &msg);
                            let raw = *sig.as_raw_value();
                            let _ = mk_multi_sig::<C>(s, raw).verify(MultiPublicKey::<C>(x.pk.0), &msg);
                            let _ = mk_pk_share::<C>(1, &x.pk.0).verify(&mk_sig_share::<C>(s, 1, &raw), &msg);
                            let _ = mk_agg_sig::<C>(s, raw + raw).verify(&[(x.pk, msg.clone()), (x.pk, x.msg.clone())]);
                            let _ = ProofOfKnowledgeTimestamp::<C>::generate(&msg, sig).map(|p| p.verify(x.pk, &msg, None));
                            if let Ok((c, sec)) = ProofCommitment::<C>::generate(&msg, sig) {
                                let _ = c.finalize(sec, x.challenge, sig).map(|p| p.verify(x.pk, &msg, x.challenge));
                            }
                            // the message as time-lock identifier and as sealed payload
                            if let Ok(ct) = x.pk.encrypt_time_lock(ls, b"payload", &msg) {
                                let _ = Option::<Vec<u8>>::from(ct.decrypt(&sig));
                            }
                            if let Ok(ct) = x.pk.encrypt_time_lock(ls, &msg, b"id") {
                                let _ = Option::<Vec<u8>>::from(ct.decrypt(&sig));
                            }
                        }
                        let ct = x.pk.sign_crypt(ls, &msg);
                        let _ = bool::from(ct.is_valid());
                        let _ = Option::<Vec<u8>>::from(ct.decrypt(&x.sk));
                    })
                }
                let l = dense_lens()[*len];
                let r = if *g == 0 { run(&self.c1, *s, l) } else { run(&self.c2, *s, l) };
                o.calls(20);
                o.outcome(if r.is_ok() { "message-length:returned" } else { "message-length:PANIC" });
                if let Err(p) = r {
                    let band = if l <= 1100 { "<=1100".to_string() } else { format!("{}", l) };
                    o.expect(&format!("C17:panic:message-length:{}:{}:len{}:{}", GROUPS[*g], s.name(), band, profile), false, "returns", &p);
                }
            }
            St::Payload { g, s, kind } => {
                let r = if *g == 0 { guard(|| payload_case(&self.c1, *s, *kind)) } else { guard(|| payload_case(&self.c2, *s, *kind)) };
                o.calls(1);
                match r {
                    Ok(d) => {
                        o.outcome("payload:returned");
                        o.note(d);
                    }
                    Err(p) => {
                        o.outcome("payload:PANIC");
                        o.expect(&format!("C17:panic:crafted-payload:kind{}:{}:{}:{}", kind, GROUPS[*g], s.name(), profile), false, "returns", &p);
                    }
                }
            }
        }
    }
}

// ---------------------------------------------------------------------------------------------------
// parent / child orchestration

const NPARTS: usize = 16;
const WATCHDOG_MS: u64 = 20_000;

/// child: `blsful-mc child c17 <tier> <seed> <part> <nparts> <result file>`
pub fn child(args: &[String]) -> i32 {
    let tier = if args[0] == "thorough" { Tier::Thorough } else { Tier::Quick };
    let seed: u64 = args[1].parse().unwrap_or(1);
    let part: usize = args[2].parse().unwrap_or(0);
    let nparts: usize = args[3].parse().unwrap_or(1);
    let out = &args[4];
    // watchdog: a case that runs longer than the limit ends the process with status 3
    std::thread::spawn(|| loop {
        std::thread::sleep(std::time::Duration::from_millis(500));
        let st = CASE_STARTED_MS.load(std::sync::atomic::Ordering::SeqCst);
        if st != 0 && now_ms().saturating_sub(st) > WATCHDOG_MS {
            println!("WATCHDOG");
            std::process::exit(3);
        }
    });
    // building the honest values already exercises the library (signing, sealing, importing edge keys):
    // a panic there is reported by the parent as a violation, not as a machinery failure
    let m = match guard(|| M17::new(tier, seed)) {
        Ok(m) => m,
        Err(p) => {
            println!("CONSTRUCT-PANIC {}", p.replace('\n', " "));
            return 4;
        }
    };
    let ex = explore_opts(&m, 1, Opts { part, nparts, progress: true });
    if std::fs::write(out, serde_json::to_vec(&ex).unwrap()).is_err() {
        return 2;
    }
    0
}

pub struct Parent {
    tier: Tier,
    seed: u64,
}

fn bin_for(profile: &str) -> std::path::PathBuf {
    let me = std::env::current_exe().unwrap_or_default();
    let dir = me.parent().and_then(|p| p.parent()).map(|p| p.to_path_buf()).unwrap_or_default();
    dir.join(profile).join("blsful-mc")
}

impl DynModel for Parent {
    fn name(&self) -> String {
        "c17-no-abort".into()
    }
    fn explore_into(&self, r: &mut Report) {
        let m = M17::new(self.tier, self.seed);
        let scratch = std::path::PathBuf::from(format!("{}/.target/c17", crate::engine::lane()));
        let _ = std::fs::create_dir_all(&scratch);
        for profile in ["release", "checked"] {
            let bin = bin_for(profile);
            if !bin.exists() {
                r.machinery(format!("binary for profile {} not found at {:?} (run.sh builds it)", profile, bin));
                continue;
            }
            let t0 = std::time::Instant::now();
            let mut kids = vec![];
            for part in 0..NPARTS {
                let res = scratch.join(format!("{}-{}.json", profile, part));
                let log = scratch.join(format!("{}-{}.log", profile, part));
                let _ = std::fs::remove_file(&res);
                let lf = std::fs::File::create(&log).expect("log file");
                let child = std::process::Command::new(&bin)
                    .args(["child", "c17", self.tier.name(), &self.seed.to_string(), &part.to_string(), &NPARTS.to_string(), res.to_str().unwrap()])
                    .env("RAYON_NUM_THREADS", "1")
                    .stdout(lf)
                    .stderr(std::process::Stdio::null())
                    .spawn();
                kids.push((part, res, log, child));
            }
            let mut merged = ModelStats { model: format!("c17-no-abort/{}", profile), depth_bound: 1, ..Default::default() };
            for (part, res, log, child) in kids {
                let status = match child {
                    Ok(mut c) => c.wait().ok(),
                    Err(e) => {
                        r.machinery(format!("cannot spawn child: {}", e));
                        continue;
                    }
                };
                let code = status.and_then(|s| s.code());
                if code == Some(0) {
                    match std::fs::read(&res).ok().and_then(|b| serde_json::from_slice::<Exploration>(&b).ok()) {
                        Some(ex) => {
                            merged.states += ex.stats.states;
                            merged.transitions += ex.stats.transitions;
                            merged.evaluations += ex.stats.evaluations;
                            merged.distinct_nontrivial += ex.stats.distinct_nontrivial;
                            merged.max_depth = merged.max_depth.max(ex.stats.max_depth);
                            merged.determinism_rechecked += ex.stats.determinism_rechecked;
                            for (k, v) in ex.stats.outcome_histogram {
                                *merged.outcome_histogram.entry(k).or_insert(0) += v;
                            }
                            if part == 0 || part == NPARTS / 2 || part + 1 == NPARTS {
                                merged.samples.extend(ex.stats.samples.into_iter().take(3));
                            }
                            for n in ex.stats.notes {
                                if merged.notes.len() < 12 {
                                    merged.notes.push(n);
                                }
                            }
                            for mut v in ex.violations {
                                v.model = "c17-no-abort".into();
                                r.violations.push(v);
                            }
                            // nondeterminism self-check messages from the child (the timestamp states use the real
                            // clock but only record that they returned)
                            for e in ex.machinery_errors {
                                r.machinery(format!("child {} ({}): {}", part, profile, e));
                            }
                        }
                        None => r.machinery(format!("child {} ({}) wrote no readable result", part, profile)),
                    }
                } else {
                    // dead child: the last CASE line names the input that killed it
                    let txt = std::fs::read_to_string(&log).unwrap_or_default();
                    let last = txt.lines().rev().find(|l| l.starts_with("CASE ")).map(|l| l[5..].to_string());
                    let how = if txt.lines().any(|l| l == "WATCHDOG") { "exceeded the 20 s watchdog (loop?)" } else { "process died (abort / stack overflow / signal)" };
                    match last.as_ref().and_then(|j| serde_json::from_str::<St>(j).ok()) {
                        Some(st) => {
                            let cls = match &st {
                                St::Decode { ty, codec, m: mu, .. } => format!("decode:{}:{:?}:{}", m17_type(&m, *ty), codec, match mu { None => "valid".to_string(), Some(Mutn::Json(_)) => "json".to_string(), Some(x) => format!("{:?}", x).split('(').next().unwrap().to_string() }),
                                other => format!("{:?}", other).split(' ').next().unwrap().to_string(),
                            };
                            r.violations.push(FoundViolation {
                                model: "c17-no-abort".into(),
                                state_json: last.clone().unwrap(),
                                describe: m.describe(&st),
                                depth: 1,
                                v: Violation { key: format!("C17:abort:{}:{}", cls, profile), expected: "returns".into(), observed: format!("{} (exit {:?})", how, code) },
                            });
                        }
                        None => {
                            if let Some(l) = txt.lines().find(|l| l.starts_with("CONSTRUCT-PANIC ")) {
                                r.violations.push(FoundViolation {
                                    model: "c17-no-abort".into(),
                                    state_json: "null".into(),
                                    describe: "building the honest values (edge keys imported from bytes, signatures, ciphertexts of empty / short payloads, shares)".into(),
                                    depth: 0,
                                    v: Violation { key: format!("C17:panic:honest-construction:{}", profile), expected: "returns".into(), observed: l[16..].to_string() },
                                });
                            } else {
                                r.machinery(format!("child {} ({}) died (exit {:?}) before its first case", part, profile, code));
                            }
                        }
                    }
                }
            }
            merged.wall_s = t0.elapsed().as_secs_f64();
            eprintln!(
                "[C17] profile {}: states={} transitions={} evaluations={} ({:.1}s) outcomes={:?}",
                profile, merged.states, merged.transitions, merged.evaluations, merged.wall_s, merged.outcome_histogram
            );
            // vacuity: both decodable and undecodable mutants, consumers ran
            for need in ["decode:ok", "decode:err", "consume:returned", "byte-or:some", "byte-or:none", "payload:returned", "timestamp:returned", "empty:returned"] {
                if merged.outcome_histogram.get(need).copied().unwrap_or(0) == 0 && !r.violations.iter().any(|v| v.model == "c17-no-abort") {
                    r.machinery(format!("vacuity guard: outcome '{}' never observed in profile {}", need, profile));
                }
            }
            r.models.push(merged);
        }
        fn m17_type(m: &M17, ty: usize) -> String {
            m.entries.get(ty).map(|e| e.name()).unwrap_or_default()
        }
    }
    fn replay(&self, state_json: &str) -> Result<(Vec<Violation>, bool), String> {
        replay_state(&M17::new(self.tier, self.seed), state_json)
    }
}

// ---- every visitor method a serde format may call ----------------------------------------------------------------
//
// serde_json and serde_bare call a fixed subset of the Visitor methods. Any other serde format a caller picks (CBOR,
// MessagePack, bincode, a config crate, ...) answers the same hints with other methods: byte strings for tuples,
// sequences for strings, integers of another width. States: (type, human readable flag, scripted answers); an action
// appends one answer; a script is extended only while the type asked for more answers than scripted.

#[derive(Clone, Debug, PartialEq, Eq, Hash, Serialize, Deserialize)]
pub struct PSt {
    ty: usize,
    hr: bool,
    script: Vec<crate::probe::Ans>,
}

pub struct M17Probe {
    depth: usize,
    entries: Vec<Box<dyn TyDyn + Send + Sync>>,
    alphabet: Vec<crate::probe::Ans>,
}

impl Model for M17Probe {
    type State = PSt;
    type Action = crate::probe::Ans;
    fn name(&self) -> String {
        "c17-every-visitor-method-of-a-foreign-serde-format".into()
    }
    fn init(&self) -> Vec<PSt> {
        (0..self.entries.len()).flat_map(|ty| [false, true].map(|hr| PSt { ty, hr, script: vec![] })).collect()
    }
    fn actions(&self, st: &PSt) -> Vec<crate::probe::Ans> {
        if st.script.len() >= self.depth {
            return vec![];
        }
        // extend only while the decoder asks beyond the script (a panic counts as not asking)
        match self.entries[st.ty].probe(&st.script, st.hr) {
            // third and later answers come from the reduced alphabet (one length per array size and its neighbours)
            Ok((_, asked)) if asked > st.script.len() => if st.script.len() >= 2 { crate::probe::alphabet_small() } else { self.alphabet.clone() },
            _ => vec![],
        }
    }
    fn step(&self, st: &PSt, a: &crate::probe::Ans) -> Option<PSt> {
        let mut n = st.clone();
        n.script.push(*a);
        Some(n)
    }
    fn describe(&self, st: &PSt) -> String {
        format!("{} decoded from a {} document of a foreign serde format that answers the type's hints with {:?} (then small integers)", self.entries[st.ty].name(), if st.hr { "human readable" } else { "binary" }, st.script)
    }
    fn required_outcomes(&self) -> Vec<String> {
        vec!["probe:error".into(), "probe:value".into()]
    }
    fn check(&self, st: &PSt, o: &mut Obs) {
        o.nontrivial = true;
        let e = &self.entries[st.ty];
        let r = e.probe(&st.script, st.hr);
        // and once more: the verdict for a document does not depend on earlier documents
        let r2 = e.probe(&st.script, st.hr);
        o.calls(2);
        let kind = st.script.last().map(|a| format!("{:?}", a).split('(').next().unwrap_or("").to_string()).unwrap_or("empty-script".into());
        match (&r, &r2) {
            (Ok((ok, _)), Ok((ok2, _))) => {
                o.outcome(if *ok { "probe:value" } else { "probe:error" });
                o.expect(&format!("C17:foreign-format:{}:{}:repeatable", e.name(), kind), ok == ok2, "the same verdict twice", "differs");
            }
            (Err(p), _) | (_, Err(p)) => {
                o.outcome("probe:panic");
                o.expect(&format!("C17:foreign-format:{}:{}:panic", e.name(), kind), false, "a value or an error", p);
            }
        }
    }
}

pub fn models(tier: Tier, seed: u64) -> Vec<Box<dyn DynModel>> {
    let mut v: Vec<Box<dyn DynModel>> = vec![Box::new(Parent { tier, seed })];
    v.push(bounded(M17Probe { depth: if tier.thorough() { 3 } else { 2 }, entries: all_entries(seed, false), alphabet: crate::probe::alphabet() }, if tier.thorough() { 3 } else { 2 }));
    // every message pattern over short aggregate lists (in process, panics are caught; both profiles run it: the
    // second profile pass is driven by this property's own parent for the decoder model only)
    v.extend(crate::props::aggx::models("C17", tier, seed));
    v
}

pub fn describe(tier: Tier, r: &mut Report) {
    r.rule = "initial states = every value of every registered type under every codec (decode + every consuming method on the valid value), the 256 byte-OR values of the zero test through every scalar import path, empty slices / messages into 15 groups of entry points, 69 timestamps (every single bit, 0, MAX, ...) x 6 timeouts under the real clock, and 10 crafted payload cases (0 / 1 byte payloads with a zero first keystream byte built with the reference sealers, framings and serde_bare length prefixes announcing 2^62 bytes, default values); one action mutates the valid encoding: every truncation, bit flips, one byte extension, and for JSON the document level mutations (every node := null / {} / [] / true; strings short / long / odd / non-hex / non-ASCII / very long / 0x-prefixed; numbers 256 / -1 / 1e99 / 1.5 / u64::MAX; fields removed / renamed / unknown / duplicated; nesting 200 and 100000; escapes). Whatever decodes is fed to every consuming method of its type. Executed in 16 child processes per build profile (release, checked = debug assertions + overflow checks in every crate) with a 20 s per-case watchdog".into();
    r.deviation_bound_completed = "1 mutation per encoding".into();
    r.alphabet.insert("bit_flips".into(), serde_json::json!(if tier.thorough() { "every bit" } else { "one bit per byte (bit index = byte index mod 8)" }));
    r.assumptions = vec!["'never loops' is bounded by the 20 s watchdog, not proved".into(), "conditional_select across mismatched variants (documented programmer-error panic) is not a decode/verify/decrypt path and is excluded".into()];
    r.not_covered = vec!["inputs with two or more independent mutations".into(), "allocation exhaustion".into()];
}
