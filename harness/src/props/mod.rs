use crate::engine::{DynModel, Report, Tier};

pub mod aggx;
pub mod fresh;
pub mod mask;
pub mod hist;
pub mod soak;
pub mod tsurf;

macro_rules! props {
    ($(($id:literal, $m:ident)),* $(,)?) => {
        $(pub mod $m;)*
        pub fn models(id: &str, tier: Tier, seed: u64) -> Option<Vec<Box<dyn DynModel>>> {
            Some(match id {
                $($id => {
                    let mut v = $m::models(tier, seed);
                    // histories from the initial state of the process, for the properties that have operations there
                    v.extend(fresh::models($id, tier, seed));
                    if ["C01", "C02", "C09"].contains(&$id) {
                        // long single histories: state whose capacity is counted in entries
                        v.extend(soak::models($id, tier));
                    }
                    v
                })*
                _ => return None,
            })
        }
        fn describe(id: &str, tier: Tier, r: &mut Report) {
            match id {
                $($id => $m::describe(tier, r),)*
                _ => {}
            }
            if ["C01", "C04", "C08", "C10", "C11", "C12", "C13", "C15"].contains(&id) {
                r.rule.push_str("; trait surface model: root -> one state per (family of provided trait functions, 4 keys, 5 messages (thorough 8), 3 schemes, variant), each calling the trait functions directly (not through the structs) and comparing values and verdicts with the reference model under the entropy and clock seams");
            }
            if ["C01", "C02", "C09"].contains(&id) {
                r.rule.push_str("; soak: one operation kind over 4200 (thorough 66 000) distinct inputs on one thread, then the early inputs again with own / other / forged counterparts");
            }
            if fresh::MFresh::applicable(id) {
                r.rule.push_str("; fresh-process histories: every sequence of at most two operations (48 kinds x 2 groups: sign / verify / proofs / aggregate / shares / seal / open / decode, consumers fed with reference-made artefacts) run in its own newly started process, the last one - an operation of this property - judged against the reference value or the verdict the property fixes");
            }
            if ["C03", "C05", "C06"].contains(&id) {
                r.rule.push_str("; collision-list model: every list of length 2..3 (thorough 4) over the pair alphabet {sk=1, sk=r-1, derived key} x {01ff, 01fe, empty}: aggregate bytes and decision against the reference (C03, C06), the same point under every other label (C05)");
            }
        }
    };
}

props!(("C01", c01), ("C02", c02), ("C03", c03), ("C04", c04), ("C05", c05), ("C06", c06), ("C07", c07), ("C08", c08), ("C09", c09), ("C10", c10), ("C11", c11), ("C12", c12), ("C13", c13), ("C14", c14), ("C15", c15), ("C16", c16), ("C17", c17), ("C18", c18), ("C19", c19), ("C20", c20));

pub fn run(id: &str, tier: Tier, seed: u64, r: &mut Report) -> bool {
    // building the models already calls the library on honest inputs; a panic there is reported, not a crash
    let ms = match crate::engine::guard(|| models(id, tier, seed)) {
        Ok(Some(ms)) => ms,
        Ok(None) => return false,
        Err(p) => {
            describe(id, tier, r);
            r.machinery(format!("building the honest values for the models of {} panicked: {} (the library failed on an honest input outside this property's own cases, or the harness is wrong)", id, p));
            return true;
        }
    };
    describe(id, tier, r);
    for m in ms {
        m.explore_into(r);
    }
    true
}

pub fn child(args: &[String]) -> i32 {
    match args.first().map(|s| s.as_str()) {
        Some("c17") => c17::child(&args[1..]),
        Some("c20") => c20::child(&args[1..]),
        Some("fresh") => fresh::child(&args[1..]),
        _ => 2,
    }
}

/// `replay <file>`: re-execute the recorded state twice without the explorer
pub fn replay(path: &str) -> i32 {
    let txt = match std::fs::read_to_string(path) {
        Ok(t) => t,
        Err(e) => {
            eprintln!("cannot read {}: {}", path, e);
            return 2;
        }
    };
    let doc: serde_json::Value = match serde_json::from_str(&txt) {
        Ok(d) => d,
        Err(e) => {
            eprintln!("bad replay file: {}", e);
            return 2;
        }
    };
    let id = doc["property"].as_str().unwrap_or("");
    let model = doc["model"].as_str().unwrap_or("");
    // a violation seen only by the checked-profile binary is replayed by that binary
    let model = match model.strip_suffix(crate::engine::CHECKED_SUFFIX) {
        Some(m) if !cfg!(debug_assertions) => {
            let bin = std::env::current_exe().ok().and_then(|p| p.parent().and_then(|d| d.parent()).map(|d| d.join("checked").join("blsful-mc")));
            return match bin.map(|b| std::process::Command::new(b).arg("replay").arg(path).status()) {
                Some(Ok(s)) => s.code().unwrap_or(2),
                _ => {
                    eprintln!("cannot run the checked-profile binary for the replay of {}", m);
                    2
                }
            };
        }
        Some(m) => m,
        None => model,
    };
    let seed = doc["seed"].as_u64().unwrap_or(1);
    let tier = if doc["tier"].as_str() == Some("thorough") { Tier::Thorough } else { Tier::Quick };
    let state = doc["state"].to_string();
    let Some(ms) = models(id, tier, seed) else {
        eprintln!("unknown property {}", id);
        return 2;
    };
    for m in ms {
        if m.name() == model {
            return match m.replay(&state) {
                Ok((viol, same)) => {
                    if !same {
                        eprintln!("MACHINERY-ERROR replay is not deterministic (two runs differ)");
                        return 2;
                    }
                    if viol.is_empty() {
                        println!("REPLAY property={} model={} verdict=holds (2 identical runs)", id, model);
                        0
                    } else {
                        for v in &viol {
                            println!(
                                "REPLAY property={} model={} verdict=violation key={} expected={} observed={}",
                                id, model, v.key, v.expected, v.observed
                            );
                        }
                        println!("VIOLATION property={} replay={}", id, path);
                        1
                    }
                }
                Err(e) => {
                    eprintln!("replay failed: {}", e);
                    2
                }
            };
        }
    }
    eprintln!("model {} not found for {}", model, id);
    2
}
