//! Long single histories ("soak"): one operation kind applied to N distinct inputs on one thread, then the early
//! inputs again. A bounded-depth history cannot reach state whose capacity is counted in entries (a cache with 256 or
//! 1024 slots, a table that is evicted round robin); a long run of distinct inputs fills such state, and the verdicts
//! for the early inputs afterwards must be what they were. N = 4200 (thorough 66 000) exceeds 4096 (65 536).
use crate::common::*;
use crate::engine::*;
use crate::refmodel::{self as rf, RefSuite, Scheme, SCHEMES};
use blsful::*;
use serde::{Deserialize, Serialize};
use std::marker::PhantomData;

#[derive(Copy, Clone, Debug, PartialEq, Eq, Hash, Serialize, Deserialize)]
pub enum Kind {
    /// N distinct keys: prove possession, verify; afterwards own / other / forged proofs for early keys
    Pop,
    /// one key, N distinct messages: sign, verify; afterwards early signatures against their own and other messages
    SignVerify(Scheme),
    /// the producing side alone, past 2^16 operations on one thread (sampled results verified)
    ProducePop,
    ProduceSign(Scheme),
}

pub struct MSoak<C: Suite> {
    prop: &'static str,
    /// distinct inputs that are produced AND verified
    n: usize,
    /// operations of the producing side alone (sign / prove), verified only at sampled positions: beyond 2^16
    n_produce: usize,
    _c: PhantomData<C>,
}

impl<C: Suite> MSoak<C> {
    pub fn new(prop: &'static str, tier: Tier) -> Self {
        MSoak { prop, n: if tier.thorough() { 66_000 } else { 4200 }, n_produce: if tier.thorough() { 140_000 } else if cfg!(debug_assertions) || prop == "C02" { 4_200 } else { 70_000 } /* the long producer run belongs to the release pass of C01 (signatures) and C09 (proofs); the checked pass and C02, whose subject is the verifier, repeat the short one */, _c: PhantomData }
    }
    fn kinds(&self) -> Vec<Kind> {
        match self.prop {
            "C09" => vec![Kind::Pop, Kind::ProducePop],
            "C01" | "C02" => SCHEMES.iter().flat_map(|s| [Kind::SignVerify(*s), Kind::ProduceSign(*s)]).collect(),
            _ => vec![],
        }
    }
}

impl<C: Suite> Model for MSoak<C> {
    type State = Option<Kind>;
    type Action = Kind;
    fn name(&self) -> String {
        format!("{}-soak/{}", self.prop.to_lowercase(), C::G)
    }
    fn init(&self) -> Vec<Option<Kind>> {
        vec![None]
    }
    fn actions(&self, st: &Option<Kind>) -> Vec<Kind> {
        if st.is_some() {
            vec![]
        } else {
            self.kinds()
        }
    }
    fn step(&self, _s: &Option<Kind>, a: &Kind) -> Option<Option<Kind>> {
        Some(Some(*a))
    }
    fn describe(&self, st: &Option<Kind>) -> String {
        format!("{} soak {:?}: {} distinct inputs on one thread, then the early inputs again", C::G, st, self.n)
    }
    fn required_outcomes(&self) -> Vec<String> {
        vec!["soak:verdicts-unchanged".into()]
    }
    fn check(&self, st: &Option<Kind>, o: &mut Obs) {
        let Some(kind) = st else { return };
        o.nontrivial = true;
        let (p, g, n) = (self.prop, C::G, self.n);
        let n_produce = self.n_produce;
        let before = o.violations_len();
        let r = guard(|| -> Vec<(String, bool, String)> {
            let mut bad: Vec<(String, bool, String)> = vec![];
            let mut chk = |what: &str, ok: bool, detail: String| {
                if !ok {
                    bad.push((what.to_string(), ok, detail));
                }
            };
            match kind {
                Kind::Pop => {
                    let sks: Vec<SecretKey<C>> = (0..n).map(|i| SecretKey::<C>::from_hash(format!("soak-key-{}", i))).collect();
                    let pks: Vec<PublicKey<C>> = sks.iter().map(|k| k.public_key()).collect();
                    let mut pops = vec![];
                    for (i, k) in sks.iter().enumerate() {
                        let pr = k.proof_of_possession().expect("prove");
                        chk("first-pass-own-proof", pr.verify(pks[i]).is_ok(), format!("key #{}", i));
                        pops.push(pr);
                    }
                    // second pass over early, middle and late keys
                    for j in (0..n).step_by(97).chain([1, 2, 255, 256, 1023, 1024, 4095, 4096.min(n - 2)]) {
                        let j = j.min(n - 2);
                        chk("own-proof-after-soak", pops[j].verify(pks[j]).is_ok(), format!("key #{}", j));
                        chk("other-key-after-soak", pops[j].verify(pks[j + 1]).is_err(), format!("proof #{} for key #{}", j, j + 1));
                        // this key's scalar times the hash of ANOTHER key's bytes (the key met `n - 1 - j` keys later)
                        let other = Vec::<u8>::from(&pks[n - 1 - j.min(n - 1)]);
                        if other != Vec::<u8>::from(&pks[j]) {
                            let rsk = rf::scalar_from_be(&sks[j].to_be_bytes()).unwrap();
                            let forged = <C::R as RefSuite>::hash_to_sig(&other, <C::R as RefSuite>::DST_POP) * rsk;
                            let f = ProofOfPossession::<C>(pt_from::<SgP<C>>(&rf::enc(&forged)).unwrap());
                            chk("proof-over-another-keys-bytes-after-soak", f.verify(pks[j]).is_err(), format!("key #{}", j));
                        }
                        // and the reference agrees on the genuine one
                        chk("reference-accepts-own-proof", rf::pop_verify::<C::R>(&Vec::<u8>::from(&pks[j]), &Vec::<u8>::from(&pops[j])), format!("key #{}", j));
                    }
                }
                Kind::ProducePop => {
                    // producing side alone, past 2^16 operations on this thread: every proof is produced, sampled ones verified
                    let sample = |i: usize| i % 4999 == 0 || [255usize, 256, 1023, 1024, 4095, 4096, 32767, 32768, 65534, 65535, 65536, 65537].contains(&i);
                    for i in 0..n_produce {
                        let k = SecretKey::<C>::from_hash(format!("soak-producer-{}", i));
                        match k.proof_of_possession() {
                            Ok(pr) => {
                                if sample(i) {
                                    chk("produced-proof-verifies", pr.verify(k.public_key()).is_ok(), format!("operation #{}", i));
                                }
                            }
                            Err(e) => chk("proof-of-possession-produced", false, format!("operation #{}: {}", i, e)),
                        }
                    }
                }
                Kind::SignVerify(s) => {
                    let s = *s;
                    let sk = SecretKey::<C>::from_hash(b"soak signer");
                    let pk = sk.public_key();
                    let rsk = rf::scalar_from_be(&sk.to_be_bytes()).unwrap();
                    let msg = |i: usize| format!("soak message {}", i).into_bytes();
                    let mut sigs = vec![];
                    for i in 0..n {
                        let sg = sk.sign(lib_scheme(s), &msg(i)).expect("sign");
                        chk("first-pass-verify", sg.verify(&pk, msg(i)).is_ok(), format!("message #{}", i));
                        sigs.push(sg);
                    }
                    for j in (0..n).step_by(97).chain([1, 2, 255, 256, 1023, 1024, 4095, 4096.min(n - 2)]) {
                        let j = j.min(n - 2);
                        chk("own-message-after-soak", sigs[j].verify(&pk, msg(j)).is_ok(), format!("message #{}", j));
                        chk("other-message-after-soak", sigs[j].verify(&pk, msg(j + 1)).is_err(), format!("signature #{} for message #{}", j, j + 1));
                        chk("signature-bytes-after-soak", pt(sk.sign(lib_scheme(s), &msg(j)).expect("sign").as_raw_value()) == rf::enc(&rf::sign::<C::R>(&rsk, s, &msg(j))), format!("message #{}", j));
                    }
                }
                Kind::ProduceSign(s) => {
                    let s = *s;
                    let sk = SecretKey::<C>::from_hash(b"soak signer");
                    let pk = sk.public_key();
                    let rsk = rf::scalar_from_be(&sk.to_be_bytes()).unwrap();
                    // producing side alone, past 2^16 operations on this thread
                    let sample = |i: usize| i % 4999 == 0 || [255usize, 256, 1023, 1024, 4095, 4096, 32767, 32768, 65534, 65535, 65536, 65537].contains(&i);
                    for i in 0..n_produce {
                        let m = format!("soak producer message {}", i).into_bytes();
                        match sk.sign(lib_scheme(s), &m) {
                            Ok(sg) => {
                                if sample(i) {
                                    chk("produced-signature-verifies", sg.verify(&pk, &m).is_ok(), format!("operation #{}", i));
                                    chk("produced-signature-bytes", pt(sg.as_raw_value()) == rf::enc(&rf::sign::<C::R>(&rsk, s, &m)), format!("operation #{}", i));
                                }
                            }
                            Err(e) => chk("signature-produced", false, format!("operation #{}: {}", i, e)),
                        }
                    }
                }
            }
            bad
        });
        o.calls(3 * n as u64);
        match r {
            Err(pn) => o.expect(&format!("{}:soak:{:?}:{}:panic", p, kind, g), false, "returns", &pn),
            Ok(bad) => {
                for (what, _, detail) in bad.iter().take(8) {
                    o.expect(&format!("{}:soak:{:?}:{}:{}", p, kind, g, what), false, "the verdict a first call gives", detail);
                }
            }
        }
        o.outcome(if o.violations_len() == before { "soak:verdicts-unchanged" } else { "soak:verdicts-changed" });
    }
}

/// two models explored as one (disjoint union of their state spaces)
pub struct Both<A: Model, B: Model>(pub A, pub B);

#[derive(Clone, Debug, PartialEq, Eq, Hash, Serialize, Deserialize)]
#[serde(bound = "")]
pub enum Either<X: Clone + Eq + std::hash::Hash + std::fmt::Debug + Serialize + serde::de::DeserializeOwned, Y: Clone + Eq + std::hash::Hash + std::fmt::Debug + Serialize + serde::de::DeserializeOwned> {
    L(X),
    R(Y),
}

impl<A: Model, B: Model<Action = A::Action>> Model for Both<A, B> {
    type State = Either<A::State, B::State>;
    type Action = A::Action;
    fn name(&self) -> String {
        let (a, b) = (self.0.name(), self.1.name());
        match (a.rsplit_once('/'), b.rsplit_once('/')) {
            (Some((p, x)), Some((q, y))) if p == q => format!("{}/{}+{}", p, x, y),
            _ => format!("{}+{}", a, b),
        }
    }
    fn init(&self) -> Vec<Self::State> {
        self.0.init().into_iter().map(Either::L).chain(self.1.init().into_iter().map(Either::R)).collect()
    }
    fn actions(&self, s: &Self::State) -> Vec<Self::Action> {
        match s {
            Either::L(x) => self.0.actions(x),
            Either::R(y) => self.1.actions(y),
        }
    }
    fn step(&self, s: &Self::State, a: &Self::Action) -> Option<Self::State> {
        match s {
            Either::L(x) => self.0.step(x, a).map(Either::L),
            Either::R(y) => self.1.step(y, a).map(Either::R),
        }
    }
    fn check(&self, s: &Self::State, o: &mut Obs) {
        match s {
            Either::L(x) => self.0.check(x, o),
            Either::R(y) => self.1.check(y, o),
        }
    }
    fn describe(&self, s: &Self::State) -> String {
        match s {
            Either::L(x) => self.0.describe(x),
            Either::R(y) => self.1.describe(y),
        }
    }
    fn required_outcomes(&self) -> Vec<String> {
        let mut v = self.0.required_outcomes();
        v.extend(self.1.required_outcomes());
        v.sort();
        v.dedup();
        v
    }
}

pub fn models(prop: &'static str, tier: Tier) -> Vec<Box<dyn DynModel>> {
    vec![bounded(Both(MSoak::<Bls12381G1Impl>::new(prop, tier), MSoak::<Bls12381G2Impl>::new(prop, tier)), 1)]
}
