//! C06 - aggregate verification: complete, exact, distinct messages enforced in Basic only.
use crate::common::*;
use crate::engine::*;
use crate::refmodel::{self as rf, Scheme, SCHEMES};
use blsful::*;
use serde::{Deserialize, Serialize};
use std::marker::PhantomData;

#[derive(Copy, Clone, Debug, PartialEq, Eq, Hash, Serialize, Deserialize)]
pub enum Pat {
    Distinct,
    DupPair,
    AllEqual,
    /// messages of the first and the last signer are equal (a non adjacent repeat)
    DupFirstLast,
    /// the last pair is the first pair again: same signer, same message, its signature aggregated twice
    RepeatFirstPair,
    /// the second pair is the first pair again
    RepeatFirstPairAdjacent,
}
pub const PATS: [Pat; 6] = [Pat::Distinct, Pat::DupPair, Pat::AllEqual, Pat::DupFirstLast, Pat::RepeatFirstPair, Pat::RepeatFirstPairAdjacent];

#[derive(Copy, Clone, Debug, PartialEq, Eq, Hash, Serialize, Deserialize)]
pub enum Edit {
    /// k-th permutation (lexicographic) of the list
    Perm(usize),
    Reverse,
    Rotate,
    Swap01,
    Swap0Last,
    AlterMsg(usize),
    AlterKey(usize),
    Drop(usize),
    ReAdd(usize),
    AddForeign,
    SwapMsgs(usize, usize),
    /// a pair (identity public key, fresh message) inserted at this position
    InsertIdentityPair(usize),
}

#[derive(Clone, Debug, PartialEq, Eq, Hash, Serialize, Deserialize)]
pub enum St {
    List { s: Scheme, n: usize, pat: Pat, edit: Option<Edit> },
    /// from_signatures on a sequence of signatures with these scheme labels
    From(Vec<Scheme>),
}

#[derive(Clone, Debug, PartialEq)]
pub enum Act {
    Edit(Edit),
    Append(Scheme),
}

pub struct M06<C: Suite> {
    tier: Tier,
    ns: Vec<usize>,
    sks: Vec<SecretKey<C>>,
    pks: Vec<PublicKey<C>>,
    /// sigs[scheme][i][0 = over own message, 1 = over message 0]
    sigs: Vec<Vec<[Signature<C>; 2]>>,
    _c: PhantomData<C>,
}

const NMAX: usize = 64;

fn own_msg(i: usize) -> Vec<u8> {
    format!("aggregate message #{}", i).into_bytes()
}

fn nth_perm(n: usize, mut k: usize) -> Vec<usize> {
    let mut items: Vec<usize> = (0..n).collect();
    let mut out = vec![];
    let mut f: Vec<usize> = vec![1; n + 1];
    for i in 1..=n {
        f[i] = f[i - 1] * i;
    }
    for i in (0..n).rev() {
        let idx = k / f[i];
        k %= f[i];
        out.push(items.remove(idx));
    }
    out
}

impl<C: Suite> M06<C> {
    pub fn new(tier: Tier, _seed: u64) -> Self {
        // beyond 64 signers: the block sizes of batched pairing code (64, 128) and the 7 / 8 bit boundaries
        let ns: Vec<usize> = if tier.thorough() { (2..=NMAX).chain([65, 127, 128, 129, 255, 256, 257]).collect() } else { vec![2, 3, 4, 5, 8, 16, 17, 63, 64, 65, 128, 129, 257] };
        let nk = ns.iter().max().unwrap() + 1;
        let sks: Vec<SecretKey<C>> = (0..nk).map(|i| SecretKey::<C>::from_hash(format!("c06-key-{}", i))).collect();
        let pks = sks.iter().map(|s| s.public_key()).collect();
        let mut sigs = vec![];
        for s in SCHEMES {
            let mut row = vec![];
            for (i, sk) in sks.iter().enumerate() {
                row.push([sk.sign(lib_scheme(s), &own_msg(i)).unwrap(), sk.sign(lib_scheme(s), &own_msg(0)).unwrap()]);
            }
            sigs.push(row);
        }
        M06 {
            tier,
            ns,
            sks,
            pks,
            sigs,
            _c: PhantomData,
        }
    }
    /// signer of list position i (the repeat patterns use signer 0 twice)
    fn signer(pat: Pat, n: usize, i: usize) -> usize {
        match pat {
            Pat::RepeatFirstPair if i == n - 1 => 0,
            Pat::RepeatFirstPairAdjacent if i == 1 => 0,
            _ => i,
        }
    }
    fn msg_at(pat: Pat, n: usize, i: usize) -> Vec<u8> {
        match pat {
            Pat::Distinct => own_msg(i),
            Pat::DupPair => own_msg(if i <= 1 { 0 } else { i }),
            Pat::AllEqual => own_msg(0),
            Pat::DupFirstLast => own_msg(if i == n - 1 { 0 } else { i }),
            Pat::RepeatFirstPair | Pat::RepeatFirstPairAdjacent => own_msg(Self::signer(pat, n, i)),
        }
    }
    fn sig_at(&self, s: Scheme, pat: Pat, n: usize, i: usize) -> Signature<C> {
        let k = Self::signer(pat, n, i);
        let over_msg0 = Self::msg_at(pat, n, i) == own_msg(0);
        self.sigs[s.idx()][k][if k == 0 { 0 } else { over_msg0 as usize }]
    }
    fn use_reference(&self, n: usize, edit: &Option<Edit>) -> bool {
        if n <= 8 {
            return true;
        }
        if n > NMAX {
            return matches!(edit, None) || matches!(edit, Some(Edit::Drop(i)) if *i == 0 || *i == n - 1);
        }
        match edit {
            None => true,
            Some(Edit::AlterMsg(i)) | Some(Edit::AlterKey(i)) | Some(Edit::Drop(i)) | Some(Edit::ReAdd(i)) => *i == 0 || *i == n - 1,
            Some(Edit::SwapMsgs(i, _)) => *i == 0,
            Some(Edit::AddForeign) | Some(Edit::Reverse) | Some(Edit::InsertIdentityPair(_)) => true,
            _ => false,
        }
    }
}

impl<C: Suite> Model for M06<C> {
    type State = St;
    type Action = Act;
    fn name(&self) -> String {
        format!("c06-aggregate/{}{}", C::G, if self.tier.thorough() { "/n<=64" } else { "" })
    }
    fn init(&self) -> Vec<St> {
        let mut v = vec![St::From(vec![])];
        for s in SCHEMES {
            for &n in &self.ns {
                for pat in PATS {
                    if n < 3 && matches!(pat, Pat::DupFirstLast | Pat::RepeatFirstPair | Pat::RepeatFirstPairAdjacent) {
                        continue;
                    }
                    if n > NMAX && !matches!(pat, Pat::Distinct | Pat::AllEqual | Pat::DupPair) {
                        continue;
                    }
                    v.push(St::List { s, n, pat, edit: None });
                }
            }
        }
        v
    }
    fn actions(&self, st: &St) -> Vec<Act> {
        match st {
            St::From(l) => {
                if l.len() < 3 {
                    SCHEMES.iter().map(|s| Act::Append(*s)).collect()
                } else {
                    vec![]
                }
            }
            St::List { n, edit: None, .. } => {
                let n = *n;
                let mut a = vec![];
                if n <= 4 {
                    let f: usize = (1..=n).product();
                    for k in 1..f {
                        a.push(Act::Edit(Edit::Perm(k)));
                    }
                } else {
                    for e in [Edit::Reverse, Edit::Rotate, Edit::Swap01, Edit::Swap0Last] {
                        a.push(Act::Edit(e));
                    }
                }
                for i in 0..n {
                    // quick tier: every position up to n = 17, selected positions for the two large lists
                    if (!self.tier.thorough() || n > NMAX) && n > 17 && !(i < 2 || i == n / 2 || i + 2 >= n) {
                        continue;
                    }
                    a.push(Act::Edit(Edit::AlterMsg(i)));
                    a.push(Act::Edit(Edit::AlterKey(i)));
                    a.push(Act::Edit(Edit::Drop(i)));
                    a.push(Act::Edit(Edit::ReAdd(i)));
                }
                a.push(Act::Edit(Edit::AddForeign));
                for pos in [0, 1, n / 2, n - 1, n] {
                    a.push(Act::Edit(Edit::InsertIdentityPair(pos)));
                }
                if n <= 6 {
                    for i in 0..n {
                        for j in i + 1..n {
                            a.push(Act::Edit(Edit::SwapMsgs(i, j)));
                        }
                    }
                } else {
                    for i in 0..n - 1 {
                        if (!self.tier.thorough() || n > NMAX) && n > 17 && !(i < 2 || i + 3 >= n) {
                            continue;
                        }
                        a.push(Act::Edit(Edit::SwapMsgs(i, i + 1)));
                    }
                }
                a
            }
            _ => vec![],
        }
    }
    fn step(&self, st: &St, a: &Act) -> Option<St> {
        match (st, a) {
            (St::From(l), Act::Append(s)) => {
                let mut l = l.clone();
                l.push(*s);
                Some(St::From(l))
            }
            (St::List { s, n, pat, edit: None }, Act::Edit(e)) => Some(St::List { s: *s, n: *n, pat: *pat, edit: Some(*e) }),
            _ => None,
        }
    }
    fn describe(&self, st: &St) -> String {
        match st {
            St::From(l) => format!("{} AggregateSignature::from_signatures over schemes {:?}", C::G, l.iter().map(|s| s.name()).collect::<Vec<_>>()),
            St::List { s, n, pat, edit } => format!("{} {} n={} messages={:?} edit={:?}: aggregate of the honest list verified against the edited list", C::G, s.name(), n, pat, edit),
        }
    }
    fn required_outcomes(&self) -> Vec<String> {
        vec!["honest:accept".into(), "edited:reject".into(), "edited:accept".into(), "basic-duplicate:reject".into(), "from:ok".into(), "from:err".into()]
    }
    fn check(&self, st: &St, o: &mut Obs) {
        let g = C::G;
        o.nontrivial = true;
        match st {
            St::From(l) => {
                let sigs: Vec<Signature<C>> = l.iter().enumerate().map(|(i, s)| self.sigs[s.idx()][i][0]).collect();
                let r = guard(|| AggregateSignature::<C>::from_signatures(&sigs));
                o.calls(1);
                let want = l.len() >= 2 && l.iter().all(|s| *s == l[0]);
                let ok = matches!(r, Ok(Ok(_)));
                o.outcome(if ok { "from:ok" } else { "from:err" });
                let cls = if l.len() < 2 { "fewer-than-two" } else if want { "same-scheme" } else { "mixed-schemes" };
                o.expect(&format!("C06:from_signatures:{}:{}", g, cls), ok == want && r.is_ok(), if want { "Ok" } else { "Err" }, verdict(&r));
                if let Ok(Ok(a)) = &r {
                    // the aggregate is the point sum and carries the input scheme
                    let mut sum = SgP::<C>::identity();
                    for s in &sigs {
                        sum += *s.as_raw_value();
                    }
                    let same = *a == mk_agg_sig::<C>(l[0], sum);
                    o.expect(&format!("C06:from_signatures-is-sum:{}", g), same, "group sum with the inputs' scheme", "differs");
                }
            }
            St::List { s, n, pat, edit } => {
                let (s, n, pat) = (*s, *n, *pat);
                let sigs: Vec<Signature<C>> = (0..n).map(|i| self.sig_at(s, pat, n, i)).collect();
                let agg = match guard(|| AggregateSignature::<C>::from_signatures(&sigs)) {
                    Ok(Ok(a)) => a,
                    r => {
                        o.expect(&format!("C06:aggregate-honest-list:{}:{}", g, s.name()), false, "Ok", verdict(&r));
                        return;
                    }
                };
                // the aggregate is the plain group sum of its parts (repeated parts counted as often as they occur)
                {
                    let mut sum = SgP::<C>::identity();
                    for sg in &sigs {
                        sum += *sg.as_raw_value();
                    }
                    o.expect(&format!("C06:aggregate-is-sum:{}:{}:{:?}", g, s.name(), pat), agg == mk_agg_sig::<C>(s, sum), "group sum of all parts", "differs");
                }
                if edit.is_none() && n <= 5 {
                    expect_ct_move(o, "C06", &format!("AggregateSignature<{}>", g), &agg, &mk_agg_sig::<C>(s, *sigs[0].as_raw_value()));
                }
                let mut list: Vec<(PublicKey<C>, Vec<u8>)> = (0..n).map(|i| (self.pks[Self::signer(pat, n, i)], Self::msg_at(pat, n, i))).collect();
                let foreign = self.pks[self.pks.len() - 1];
                let mut cls = "honest".to_string();
                if let Some(e) = edit {
                    cls = format!("{:?}", e).split('(').next().unwrap().to_string();
                    match *e {
                        Edit::Perm(k) => {
                            let p = nth_perm(n, k);
                            list = p.iter().map(|i| list[*i].clone()).collect();
                        }
                        Edit::Reverse => list.reverse(),
                        Edit::Rotate => list.rotate_left(1),
                        Edit::Swap01 => list.swap(0, 1),
                        Edit::Swap0Last => list.swap(0, n - 1),
                        Edit::AlterMsg(i) => list[i].1[0] ^= 1,
                        Edit::AlterKey(i) => list[i].0 = foreign,
                        Edit::Drop(i) => {
                            list.remove(i);
                        }
                        Edit::ReAdd(i) => {
                            let p = list[i].clone();
                            list.push(p);
                        }
                        Edit::AddForeign => list.push((foreign, b"foreign".to_vec())),
                        Edit::InsertIdentityPair(pos) => list.insert(pos, (PublicKey(PkP::<C>::identity()), b"a message nobody signed".to_vec())),
                        Edit::SwapMsgs(i, j) => {
                            let t = list[i].1.clone();
                            list[i].1 = list[j].1.clone();
                            list[j].1 = t;
                        }
                    }
                }
                let v = guard(|| agg.verify(&list));
                o.calls(2);
                let acc = matches!(v, Ok(Ok(())));
                // the scheme traits' own aggregate_verify must take the same decision (all states of small lists,
                // the honest list and the end-position edits of large ones)
                if self.use_reference(n, edit) {
                    let sigp = Vec::<u8>::from(&agg);
                    let sigp = pt_from::<SgP<C>>(&sigp[1..]).expect("aggregate point");
                    let it = list.iter().map(|(p, m)| (p.0, m.clone()));
                    let tv = guard(|| match s {
                        Scheme::Basic => <C as BlsSignatureBasic>::aggregate_verify(it, sigp),
                        Scheme::Aug => <C as BlsSignatureMessageAugmentation>::aggregate_verify(it, sigp),
                        Scheme::Pop => <C as BlsSignaturePop>::aggregate_verify(it, sigp),
                    });
                    o.calls(1);
                    o.expect(&format!("C06:trait-aggregate_verify-agrees:{}:{}", g, s.name()), matches!(tv, Ok(Ok(()))) == acc && tv.is_ok(), verdict(&v), verdict(&tv));
                    // the same list as iterators of every shape (size hints exact, absent, partial)
                    if n <= 8 {
                        let raw: Vec<(PkP<C>, Vec<u8>)> = list.iter().map(|(p, m)| (p.0, m.clone())).collect();
                        for (shape, it) in iterator_shapes(&raw) {
                            let tv = guard(|| match s {
                                Scheme::Basic => <C as BlsSignatureBasic>::aggregate_verify(it, sigp),
                                Scheme::Aug => <C as BlsSignatureMessageAugmentation>::aggregate_verify(it, sigp),
                                Scheme::Pop => <C as BlsSignaturePop>::aggregate_verify(it, sigp),
                            });
                            o.calls(1);
                            o.expect(&format!("C06:trait-aggregate_verify-iterator-shape:{}:{}:{}", g, s.name(), shape), matches!(tv, Ok(Ok(()))) == acc && tv.is_ok(), verdict(&v), verdict(&tv));
                        }
                    }
                }
                o.record("acc", &[acc as u8]);
                let key = format!("C06:{}:{}:{:?}:{}", g, s.name(), pat, cls);
                if v.is_err() {
                    o.expect(&format!("{}:panic", key), false, "returns", verdict(&v));
                    return;
                }
                // decision table from the property text
                let dup_in_list = {
                    let mut d = false;
                    for i in 0..list.len() {
                        for j in 0..i {
                            d |= list[i].1 == list[j].1;
                        }
                    }
                    d
                };
                let perm = matches!(edit, None | Some(Edit::Perm(_)) | Some(Edit::Reverse) | Some(Edit::Rotate) | Some(Edit::Swap01) | Some(Edit::Swap0Last));
                if perm {
                    let want = !(s == Scheme::Basic && dup_in_list);
                    if edit.is_none() {
                        o.outcome(if acc { "honest:accept" } else { "honest:reject" });
                    }
                    if s == Scheme::Basic && dup_in_list {
                        o.outcome(if acc { "basic-duplicate:accept" } else { "basic-duplicate:reject" });
                    }
                    o.expect(&format!("{}:table", key), acc == want, if want { "accept (exact list, any order)" } else { "reject (repeated message in Basic)" }, verdict(&v));
                } else if pat == Pat::Distinct {
                    o.expect(&format!("{}:table", key), !acc, "reject (list differs from the signed one)", verdict(&v));
                }
                if edit.is_some() {
                    o.outcome(if acc { "edited:accept" } else { "edited:reject" });
                }
                if self.use_reference(n, edit) {
                    let pairs: Vec<(Vec<u8>, Vec<u8>)> = list.iter().map(|(p, m)| (Vec::<u8>::from(p), m.clone())).collect();
                    let r = rf::aggregate_verify::<C::R>(s, &pairs, &Vec::<u8>::from(&agg)[1..]);
                    o.expect(&format!("{}:vs-reference", key), acc == r, if r { "accept (reference CoreAggregateVerify accepts)" } else { "reject (reference rejects)" }, verdict(&v));
                    o.outcome("reference-compared");
                }
                let _ = &self.sks;
                let _ = self.tier;
            }
        }
    }
}

fn depth_of<C: Suite>(_m: &M06<C>, s: &St) -> usize {
    match s {
        St::From(l) => l.len(),
        St::List { edit, .. } => edit.is_some() as usize,
    }
}

pub fn models(tier: Tier, seed: u64) -> Vec<Box<dyn DynModel>> {
    // the small instance is also explored by stateright in the thorough tier (state counts must agree)
    let mut v = vec![
        bounded_cross(M06::<Bls12381G1Impl>::new(Tier::Quick, seed), 3, depth_of::<Bls12381G1Impl>),
        bounded_cross(M06::<Bls12381G2Impl>::new(Tier::Quick, seed), 3, depth_of::<Bls12381G2Impl>),
    ];
    if tier.thorough() {
        v.push(bounded(M06::<Bls12381G1Impl>::new(tier, seed), 3));
        v.push(bounded(M06::<Bls12381G2Impl>::new(tier, seed), 3));
    }
    v.extend(crate::props::aggx::models("C06", tier, seed));
    v
}

pub fn describe(tier: Tier, r: &mut Report) {
    r.rule = "list-edit machine: initial states = honest aggregate over (scheme, n, message pattern in {distinct, one duplicated pair, all equal}); one action edits the verification list (every permutation for n<=4, reverse/rotate/swaps above; alter message i, alter key i, drop i, re-add i for every i; add a foreign pair; swap the messages of signers i,j for all i<j when n<=6, adjacent above); from_signatures is a sequence machine over all scheme sequences of length <= 3. Decisions are compared with the reference CoreAggregateVerify + Basic's distinct-message rule and with the decision table of the property".into();
    r.deviation_bound_completed = "1 edit per list; sequences of length 3 for from_signatures".into();
    r.alphabet.insert("n".into(), serde_json::json!(if tier.thorough() { "every n in 2..=64 (reference on every state for n<=8, on the honest list and end-position edits above)" } else { "n in {2,3,4,5,8,16,17} with every edit position, n in {63,64} with edits at both ends and the middle; reference on every state for n<=8 and on the honest list and end-position edits above" }));
}
