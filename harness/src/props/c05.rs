//! C05 - schemes and purposes are domain separated.
use crate::common::*;
use crate::engine::*;
use crate::refmodel::{self as rf, RefSuite, Scheme, SCHEMES};
use blsful::*;
use serde::{Deserialize, Serialize};
use std::marker::PhantomData;

#[derive(Copy, Clone, Debug, PartialEq, Eq, Hash, Serialize, Deserialize)]
pub enum Kind {
    /// signature made under `a`, presented with label `b`
    Sig,
    /// signature under `a` over the compressed public key presented as a proof of possession
    SigAsPop,
    /// proof of possession presented as a signature labelled `b` over the public key bytes
    PopAsSig,
    /// interactive proof of knowledge made under `a`, relabelled `b`
    Pok,
    /// timestamp proof of knowledge made under `a`, relabelled `b`
    PokTs,
    /// signcryption ciphertext sealed under `a`, relabelled `b`
    SignCrypt,
    /// time lock: sealed under `a`, ciphertext label `b`, opened with a signature under `c`
    TimeLock,
    /// partial signature made under `a` (Basic / Pop), presented with label `b`, verified against the key share
    Share,
    /// the tag constants: single tag `i` (a.idx) or pair
    Tag(usize),
    TagPair(usize, usize),
}

#[derive(Clone, Debug, PartialEq, Eq, Hash, Serialize, Deserialize)]
pub struct St {
    kind: Kind,
    a: Scheme,
    b: Scheme,
    c: Scheme,
    k: usize,
    m: usize,
}

#[derive(Clone, Debug, PartialEq)]
pub enum Act {
    LabelB(Scheme),
    LabelC(Scheme),
    PairWith(usize),
}

pub struct M05<C: Suite> {
    seed: u64,
    sks: Vec<SecretKey<C>>,
    msgs: Vec<Vec<u8>>,
    _c: PhantomData<C>,
}

impl<C: Suite> M05<C> {
    pub fn new(_tier: Tier, seed: u64) -> Self {
        let ka = key_alphabet(seed, false);
        let sks = [3usize, 2].iter().map(|i| sk_from_be::<C>(&ka.be[*i]).unwrap()).collect();
        M05 {
            seed,
            sks,
            msgs: vec![vec![], msg_of(seed, 33, 3), msg_of(seed, 257, 3)],
            _c: PhantomData,
        }
    }
    fn tags() -> Vec<(&'static str, &'static [u8], Option<&'static [u8]>)> {
        vec![
            ("Basic::DST", <C as BlsSignatureBasic>::DST, Some(<C::R as RefSuite>::DST_NUL)),
            ("MessageAugmentation::DST", <C as BlsSignatureMessageAugmentation>::DST, Some(<C::R as RefSuite>::DST_AUG)),
            ("Pop::SIG_DST", <C as BlsSignaturePop>::SIG_DST, Some(<C::R as RefSuite>::DST_POP_SIG)),
            ("Pop::POP_DST", <C as BlsSignaturePop>::POP_DST, Some(<C::R as RefSuite>::DST_POP)),
            ("ElGamal::ENC_DST", <C as BlsElGamal>::ENC_DST, None),
        ]
    }
}

fn relabel_pok<C: Suite>(p: &ProofOfKnowledge<C>, b: Scheme) -> ProofOfKnowledge<C> {
    let (u, v) = match *p {
        ProofOfKnowledge::Basic { u, v } | ProofOfKnowledge::MessageAugmentation { u, v } | ProofOfKnowledge::ProofOfPossession { u, v } => (u, v),
    };
    match b {
        Scheme::Basic => ProofOfKnowledge::Basic { u, v },
        Scheme::Aug => ProofOfKnowledge::MessageAugmentation { u, v },
        Scheme::Pop => ProofOfKnowledge::ProofOfPossession { u, v },
    }
}

impl<C: Suite> Model for M05<C> {
    type State = St;
    type Action = Act;
    fn name(&self) -> String {
        format!("c05-domain-separation/{}", C::G)
    }
    fn init(&self) -> Vec<St> {
        let mut v = vec![];
        for kind in [Kind::Sig, Kind::SigAsPop, Kind::PopAsSig, Kind::Pok, Kind::PokTs, Kind::SignCrypt, Kind::TimeLock, Kind::Share] {
            for a in SCHEMES {
                if kind == Kind::Share && a == Scheme::Aug {
                    continue;
                }
                for k in 0..self.sks.len() {
                    for m in 0..self.msgs.len() {
                        if matches!(kind, Kind::SigAsPop | Kind::PopAsSig) && m > 0 {
                            continue;
                        }
                        v.push(St { kind, a, b: a, c: a, k, m });
                    }
                }
            }
        }
        for i in 0..Self::tags().len() {
            v.push(St { kind: Kind::Tag(i), a: Scheme::Basic, b: Scheme::Basic, c: Scheme::Basic, k: 0, m: 0 });
        }
        v
    }
    fn actions(&self, st: &St) -> Vec<Act> {
        let mut a = vec![];
        match st.kind {
            Kind::Sig | Kind::Pok | Kind::PokTs | Kind::SignCrypt | Kind::TimeLock | Kind::Share => {
                if st.b == st.a {
                    for b in SCHEMES {
                        if b != st.a {
                            a.push(Act::LabelB(b));
                        }
                    }
                }
                if st.kind == Kind::TimeLock && st.c == st.a {
                    for c in SCHEMES {
                        if c != st.a {
                            a.push(Act::LabelC(c));
                        }
                    }
                }
            }
            Kind::Tag(i) => {
                for j in i + 1..Self::tags().len() {
                    a.push(Act::PairWith(j));
                }
            }
            _ => {}
        }
        a
    }
    fn step(&self, st: &St, a: &Act) -> Option<St> {
        let mut n = st.clone();
        match a {
            Act::LabelB(b) => n.b = *b,
            Act::LabelC(c) => n.c = *c,
            Act::PairWith(j) => {
                if let Kind::Tag(i) = st.kind {
                    n.kind = Kind::TagPair(i, *j);
                }
            }
        }
        Some(n)
    }
    fn describe(&self, st: &St) -> String {
        format!("{} {:?} made-under={} label={} opened-with={} key#{} msg(len={})", C::G, st.kind, st.a.name(), st.b.name(), st.c.name(), st.k, self.msgs[st.m].len())
    }
    fn required_outcomes(&self) -> Vec<String> {
        vec!["diagonal:accept".into(), "mismatch:reject".into(), "tag:equals-draft".into(), "tagpair:distinct".into(), "cross-purpose:reject".into()]
    }
    fn check(&self, st: &St, o: &mut Obs) {
        let g = C::G;
        let sk = &self.sks[st.k];
        let pk = sk.public_key();
        let msg = &self.msgs[st.m];
        o.nontrivial = true;
        let diag = st.a == st.b && st.b == st.c;
        let key = format!("C05:{:?}:{}:{}->{}/{}", match st.kind { Kind::Tag(_) => Kind::Tag(0), Kind::TagPair(..) => Kind::TagPair(0, 0), k => k }, g, st.a.name(), st.b.name(), st.c.name());
        let ent = entropy_stream(self.seed, "c05", 4);
        let res: Result<Option<bool>, String> = with_env(ent, Some(CLOCK0), || match st.kind {
            Kind::Sig => {
                let sig = sk.sign(lib_scheme(st.a), msg).unwrap();
                Some(mk_sig::<C>(st.b, *sig.as_raw_value()).verify(&pk, msg).is_ok())
            }
            Kind::Share => {
                use rand_core::SeedableRng;
                let shares = sk.split_with_rng(2, 3, rand_chacha::ChaCha20Rng::from_seed([3u8; 32])).unwrap();
                let ps = shares[1].sign(lib_scheme(st.a), msg).unwrap();
                let pks = shares[1].public_key().unwrap();
                let raw = *ps.as_raw_value();
                let relabelled = match st.b {
                    Scheme::Basic => SignatureShare::<C>::Basic(raw),
                    Scheme::Aug => SignatureShare::<C>::MessageAugmentation(raw),
                    Scheme::Pop => SignatureShare::<C>::ProofOfPossession(raw),
                };
                // also through the byte form with the tag byte rewritten
                let mut bytes = Vec::<u8>::from(&ps);
                bytes[0] = st.b.idx() as u8;
                let parsed = SignatureShare::<C>::try_from(bytes.as_slice()).unwrap();
                let v1 = relabelled.verify(&pks, msg).is_ok();
                let v2 = pks.verify(&parsed, msg).is_ok();
                // all shares relabelled, then recombined: whatever comes out must not verify for the key and message
                // (and, presented honestly, must be the whole-key signature)
                let relabel = |x: &SignatureShare<C>| match st.b {
                    Scheme::Basic => SignatureShare::<C>::Basic(*x.as_raw_value()),
                    Scheme::Aug => SignatureShare::<C>::MessageAugmentation(*x.as_raw_value()),
                    Scheme::Pop => SignatureShare::<C>::ProofOfPossession(*x.as_raw_value()),
                };
                let all: Vec<SignatureShare<C>> = [0usize, 2].iter().map(|i| relabel(&shares[*i].sign(lib_scheme(st.a), msg).unwrap())).collect();
                let v3 = match Signature::<C>::from_shares(&all) {
                    Ok(sig) => sig.verify(&pk, msg).is_ok() || mk_sig::<C>(st.a, *sig.as_raw_value()).verify(&pk, msg).is_ok() && sig_scheme(&sig) != st.b,
                    Err(_) => false,
                };
                if diag {
                    Some(v1 && v2 && v3)
                } else {
                    Some(v1 || v2 || v3)
                }
            }
            Kind::SigAsPop => {
                let pkb = Vec::<u8>::from(&pk);
                let sig = sk.sign(lib_scheme(st.a), &pkb).unwrap();
                Some(ProofOfPossession::<C>(*sig.as_raw_value()).verify(pk).is_ok())
            }
            Kind::PopAsSig => {
                let pkb = Vec::<u8>::from(&pk);
                let pop = sk.proof_of_possession().unwrap();
                // honest control: the proof of possession itself verifies
                assert!(pop.verify(pk).is_ok(), "honest pop must verify");
                Some(mk_sig::<C>(st.a, pop.0).verify(&pk, &pkb).is_ok())
            }
            Kind::Pok => {
                let m = if st.a == Scheme::Aug { rf_aug(&pk, msg) } else { msg.clone() };
                let sig = sk.sign(lib_scheme(st.a), msg).unwrap();
                let (c, x) = ProofCommitment::<C>::generate(&m, sig).unwrap();
                let y = ProofCommitmentChallenge::<C>::from_hash(b"c05");
                let p = c.finalize(x, y, sig).unwrap();
                Some(relabel_pok(&p, st.b).verify(pk, &m, y).is_ok())
            }
            Kind::PokTs => {
                let m = if st.a == Scheme::Aug { rf_aug(&pk, msg) } else { msg.clone() };
                let sig = sk.sign(lib_scheme(st.a), msg).unwrap();
                let mut p = ProofOfKnowledgeTimestamp::<C>::generate(&m, sig).unwrap();
                p.proof = relabel_pok(&p.proof, st.b);
                Some(p.verify(pk, &m, Some(1000)).is_ok())
            }
            Kind::SignCrypt => {
                let mut ct = pk.sign_crypt(lib_scheme(st.a), msg);
                ct.scheme = lib_scheme(st.b);
                let v = bool::from(ct.is_valid());
                let d = Option::<Vec<u8>>::from(ct.decrypt(sk));
                let d2 = Option::<Vec<u8>>::from(sk.sign_decryption_key::<&[u8]>(&ct).decrypt(&ct));
                if diag {
                    Some(v && d.as_ref() == Some(msg) && d2.as_ref() == Some(msg))
                } else {
                    Some(v || d.is_some() || d2.is_some())
                }
            }
            Kind::TimeLock => {
                let mut ct = pk.encrypt_time_lock(lib_scheme(st.a), msg, b"identifier").unwrap();
                ct.scheme = lib_scheme(st.b);
                let sig = sk.sign(lib_scheme(st.c), b"identifier").unwrap();
                let d = Option::<Vec<u8>>::from(ct.decrypt(&sig));
                if diag {
                    Some(d.as_ref() == Some(msg))
                } else {
                    Some(d.is_some())
                }
            }
            Kind::Tag(_) | Kind::TagPair(..) => None,
        });
        o.calls(1);
        match (st.kind, res) {
            (Kind::Tag(i), _) => {
                let t = Self::tags();
                let (name, lib, want) = &t[i];
                if let Some(w) = want {
                    o.expect(&format!("C05:tag-equals-draft:{}:{}", g, name), lib == w, &String::from_utf8_lossy(w), &String::from_utf8_lossy(lib));
                    o.outcome(if lib == w { "tag:equals-draft" } else { "tag:differs-from-draft" });
                }
                o.record("tag", lib);
            }
            (Kind::TagPair(i, j), _) => {
                let t = Self::tags();
                let d = t[i].1 != t[j].1;
                o.expect(&format!("C05:tags-distinct:{}:{}:{}", g, t[i].0, t[j].0), d, "distinct", "equal");
                o.outcome(if d { "tagpair:distinct" } else { "tagpair:equal" });
                // and distinct from every tag of the other group assignment
            }
            (_, Err(p)) => {
                o.outcome("panic");
                o.expect(&format!("{}:panic", key), false, "returns", &p);
            }
            (Kind::SigAsPop | Kind::PopAsSig, Ok(Some(acc))) => {
                o.outcome(if acc { "cross-purpose:accept" } else { "cross-purpose:reject" });
                o.expect(&key, !acc, "reject", "accept");
            }
            (_, Ok(Some(acc))) => {
                if diag {
                    o.outcome(if acc { "diagonal:accept" } else { "diagonal:reject" });
                    o.expect(&format!("{}:diagonal", key), acc, "accept / decrypts", "rejects");
                } else {
                    o.outcome(if acc { "mismatch:accept" } else { "mismatch:reject" });
                    o.expect(&key, !acc, "reject / None", "accepted");
                }
            }
            _ => {}
        }
    }
}

fn rf_aug<C: Suite>(pk: &PublicKey<C>, msg: &[u8]) -> Vec<u8> {
    let mut m = Vec::<u8>::from(pk);
    m.extend_from_slice(msg);
    m
}

/// all ten tag constants (both assignments) are pairwise distinct
pub struct MTags;
#[derive(Clone, Debug, PartialEq, Eq, Hash, Serialize, Deserialize)]
pub enum TSt {
    One(usize),
    Pair(usize, usize),
}
fn all_tags() -> Vec<(String, Vec<u8>)> {
    let mut v = vec![];
    for (n, t, _) in M05::<Bls12381G1Impl>::tags() {
        v.push((format!("G1:{}", n), t.to_vec()));
    }
    for (n, t, _) in M05::<Bls12381G2Impl>::tags() {
        v.push((format!("G2:{}", n), t.to_vec()));
    }
    v
}
impl Model for MTags {
    type State = TSt;
    type Action = usize;
    fn name(&self) -> String {
        "c05-tag-table".into()
    }
    fn init(&self) -> Vec<TSt> {
        (0..all_tags().len()).map(TSt::One).collect()
    }
    fn actions(&self, s: &TSt) -> Vec<usize> {
        match s {
            TSt::One(i) => (i + 1..all_tags().len()).collect(),
            _ => vec![],
        }
    }
    fn step(&self, s: &TSt, a: &usize) -> Option<TSt> {
        match s {
            TSt::One(i) => Some(TSt::Pair(*i, *a)),
            _ => None,
        }
    }
    fn required_outcomes(&self) -> Vec<String> {
        vec!["distinct".into()]
    }
    fn check(&self, s: &TSt, o: &mut Obs) {
        let t = all_tags();
        o.nontrivial = true;
        match s {
            TSt::One(i) => {
                o.record("tag", &t[*i].1);
                o.expect(&format!("C05:tag-nonempty:{}", t[*i].0), !t[*i].1.is_empty(), "non-empty", "empty");
            }
            TSt::Pair(i, j) => {
                let d = t[*i].1 != t[*j].1;
                o.outcome(if d { "distinct" } else { "equal" });
                o.expect(&format!("C05:tags-distinct:{}:{}", t[*i].0, t[*j].0), d, "distinct", "equal");
            }
        }
    }
}

// ---- one foreign label inside a long list -------------------------------------------------------------------

#[derive(Copy, Clone, Debug, PartialEq, Eq, Hash, Serialize, Deserialize)]
pub struct LSt {
    a: Scheme,
    b: Scheme,
    n: usize,
    /// 0 = position 1, 1 = the middle, 2 = the last position
    pos: u8,
    aggregate: bool,
}

pub struct M05Lists<C: Suite> {
    /// sigs[scheme][i]: signer i over the common message (multi) - also used with distinct keys for the aggregate
    sigs: Vec<Vec<Signature<C>>>,
    _c: PhantomData<C>,
}

const LIST_NS: [usize; 7] = [3, 64, 65, 255, 1024, 1025, 1100];

impl<C: Suite> M05Lists<C> {
    pub fn new() -> Self {
        let n = *LIST_NS.iter().max().unwrap();
        let sks: Vec<SecretKey<C>> = (0..n).map(|i| SecretKey::<C>::from_hash(format!("c05-list-{}", i))).collect();
        let sigs = SCHEMES.iter().map(|s| sks.iter().map(|k| k.sign(lib_scheme(*s), b"c05 list message").unwrap()).collect()).collect();
        M05Lists { sigs, _c: PhantomData }
    }
}

impl<C: Suite> Model for M05Lists<C> {
    type State = Option<LSt>;
    type Action = LSt;
    fn name(&self) -> String {
        format!("c05-foreign-label-in-a-list/{}", C::G)
    }
    fn init(&self) -> Vec<Option<LSt>> {
        vec![None]
    }
    fn actions(&self, st: &Option<LSt>) -> Vec<LSt> {
        if st.is_some() {
            return vec![];
        }
        let mut v = vec![];
        for a in SCHEMES {
            for b in SCHEMES {
                if a == b {
                    continue;
                }
                for n in LIST_NS {
                    for pos in 0..3u8 {
                        for aggregate in [false, true] {
                            v.push(LSt { a, b, n, pos, aggregate });
                        }
                    }
                }
            }
        }
        v
    }
    fn step(&self, _s: &Option<LSt>, a: &LSt) -> Option<Option<LSt>> {
        Some(Some(*a))
    }
    fn describe(&self, st: &Option<LSt>) -> String {
        format!("{} list of signatures, one entry carrying another scheme label: {:?}", C::G, st)
    }
    fn required_outcomes(&self) -> Vec<String> {
        vec!["foreign-label:refused".into()]
    }
    fn check(&self, st: &Option<LSt>, o: &mut Obs) {
        let Some(st) = st else { return };
        o.nontrivial = true;
        let g = C::G;
        let mut list: Vec<Signature<C>> = self.sigs[st.a.idx()][..st.n].to_vec();
        let p = match st.pos {
            0 => 1,
            1 => st.n / 2,
            _ => st.n - 1,
        };
        list[p] = mk_sig::<C>(st.b, *list[p].as_raw_value());
        let r = guard(|| if st.aggregate { AggregateSignature::<C>::from_signatures(&list).map(|_| ()) } else { MultiSignature::<C>::from_signatures(&list).map(|_| ()) });
        o.calls(1);
        let refused = matches!(r, Ok(Err(_)));
        o.outcome(if refused { "foreign-label:refused" } else { "foreign-label:accepted" });
        let band = if st.n > 1024 { ">1024" } else if st.n > 64 { ">64" } else { "<=64" };
        o.expect(
            &format!("C05:{}-with-a-foreign-label:{}:{}-in-{}:n{}", if st.aggregate { "aggregate" } else { "multi-signature" }, g, st.b.name(), st.a.name(), band),
            refused,
            "Err (mixed schemes)",
            verdict(&r),
        );
    }
}

pub fn models(tier: Tier, seed: u64) -> Vec<Box<dyn DynModel>> {
    vec![
        bounded(M05::<Bls12381G1Impl>::new(tier, seed), 2),
        bounded(M05::<Bls12381G2Impl>::new(tier, seed), 2),
        bounded(MTags, 1),
        bounded(M05Lists::<Bls12381G1Impl>::new(), 1),
        bounded(M05Lists::<Bls12381G2Impl>::new(), 1),
    ]
    .into_iter()
    .chain(crate::props::aggx::models("C05", tier, seed))
    .collect()
}

pub fn describe(_tier: Tier, r: &mut Report) {
    let _ = rf::SCHEMES;
    r.rule = "initial states = artefacts made under scheme A and presented under A (must be accepted) for signatures, interactive and timestamp proofs of knowledge, signcryption and time-lock ciphertexts, x 2 keys x 3 messages; an action relabels the artefact (label B) or, for time lock, opens with a signature of scheme C, reaching all ordered pairs (27 triples for time lock); plus signature-as-PoP and PoP-as-signature for every scheme, and the table of all 10 tag constants (45 pairs distinct, 8 equal to the draft strings)".into();
    r.deviation_bound_completed = "2 (label and opening scheme both changed)".into();
    r.assumptions = vec!["for the augmentation scheme the proof of knowledge diagonal uses the pk||msg message form (C10 known finding)".into()];
}
