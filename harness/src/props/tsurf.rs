//! The trait level surface: every provided function of the public traits (`BlsSignatureCore`, `BlsSignatureBasic`,
//! `BlsSignatureMessageAugmentation`, `BlsSignaturePop`, `BlsSignCrypt`, `BlsTimeCrypt`, `BlsSignatureProof`,
//! `BlsSerde`) called directly - not through the structs that wrap them - and compared with the reference.
//!
//! One model, instantiated per property with that property's families of cases; a state is one case
//! (family, key, message, scheme, variant) and the explorer enumerates all of them.
use crate::common::*;
use crate::engine::*;
use crate::refmodel::{self as rf, RefSuite, Scheme, SCHEMES};
use blsful::inner_types::{Field, Group};
use blsful::vsss_rs::Share;
use blsful::*;
use serde::{Deserialize, Serialize};
use std::marker::PhantomData;

#[derive(Copy, Clone, Debug, PartialEq, Eq, Hash, Serialize, Deserialize)]
pub enum Fam {
    /// C01: the three trait `sign` functions, `core_sign`, `public_key`, `pk_bytes`
    Sign,
    /// C04: `core_aggregate_verify`
    CoreAggregate,
    /// C08: `core_combine_public_key_shares`
    CombinePk,
    /// C08: `core_partial_sign`, `core_combine_signature_shares`
    PartialSign,
    /// C10: commitment / proof / verify and their timestamp variants
    Pok,
    /// C11: `BlsSignCrypt::{seal, valid, unseal, decrypt, compute_v, compute_w}`
    SignCrypt,
    /// C12: `BlsSignCrypt::{verify_share, unseal_with_shares}`
    SignCryptShares,
    /// C13: `BlsTimeCrypt::{seal, unseal, compute_v, compute_w}`
    TimeCrypt,
    /// C15: `BlsSerde` functions
    Serde,
}

#[derive(Copy, Clone, Debug, PartialEq, Eq, Hash, Serialize, Deserialize)]
pub struct Case {
    fam: Fam,
    k: u8,
    m: u8,
    s: Scheme,
    /// family specific variant (order of shares, tamper kind, ...)
    v: u8,
}

pub struct MTS<C: Suite> {
    prop: &'static str,
    seed: u64,
    keys: Vec<[u8; 32]>,
    key_names: Vec<String>,
    msgs: Vec<Vec<u8>>,
    cases: Vec<Case>,
    _c: PhantomData<C>,
}

fn fams(prop: &str) -> Vec<Fam> {
    match prop {
        "C01" => vec![Fam::Sign],
        "C04" => vec![Fam::CoreAggregate],
        "C08" => vec![Fam::CombinePk, Fam::PartialSign],
        "C10" => vec![Fam::Pok],
        "C11" => vec![Fam::SignCrypt],
        "C12" => vec![Fam::SignCryptShares],
        "C13" => vec![Fam::TimeCrypt],
        "C15" => vec![Fam::Serde],
        _ => vec![],
    }
}

fn variants(f: Fam) -> u8 {
    match f {
        Fam::Sign => 1,
        Fam::CoreAggregate => 5,
        Fam::CombinePk => 3,
        Fam::PartialSign => 3,
        Fam::Pok => 1,
        Fam::SignCrypt => 1,
        Fam::SignCryptShares => 3,
        Fam::TimeCrypt => 1,
        Fam::Serde => 1,
    }
}

impl<C: Suite> MTS<C> {
    pub fn new(prop: &'static str, tier: Tier, seed: u64) -> Self {
        let ka = key_alphabet(seed, false);
        let nk = ka.be.len();
        let ki: Vec<usize> = if tier.thorough() { (0..nk).collect() } else { vec![0, nk - 1, nk - 2, 3.min(nk - 1)] };
        let mut ki2 = vec![];
        for i in ki {
            if !ki2.contains(&i) {
                ki2.push(i);
            }
        }
        let keys: Vec<[u8; 32]> = ki2.iter().map(|i| ka.be[*i]).collect();
        let key_names = ki2.iter().map(|i| ka.names[*i].clone()).collect();
        let mut msgs = vec![vec![], b"trait surface".to_vec(), data(seed, "tsurf-31", 31), data(seed, "tsurf-32", 32), data(seed, "tsurf-200", 200)];
        // pairs that collide under weak digests (same length; equal base-31 polynomial hash; equal byte sum and xor):
        // used one after the other in the histories
        msgs.extend([b"weak digest Aa".to_vec(), b"weak digest BB".to_vec(), b"weak digest ab".to_vec(), b"weak digest ba".to_vec()]);
        if tier.thorough() {
            msgs.push(data(seed, "tsurf-127", 127));
            msgs.push(data(seed, "tsurf-128", 128));
            msgs.push(data(seed, "tsurf-1000", 1000));
        }
        let mut cases = vec![];
        for f in fams(prop) {
            for k in 0..keys.len() as u8 {
                for m in 0..msgs.len() as u8 {
                    for s in SCHEMES {
                        for v in 0..variants(f) {
                            cases.push(Case { fam: f, k, m, s, v });
                        }
                    }
                }
            }
        }
        MTS { prop, seed, keys, key_names, msgs, cases, _c: PhantomData }
    }
}

fn lib_dst<C: Suite>(s: Scheme) -> &'static [u8] {
    match s {
        Scheme::Basic => <C as BlsSignatureBasic>::DST,
        Scheme::Aug => <C as BlsSignatureMessageAugmentation>::DST,
        Scheme::Pop => <C as BlsSignaturePop>::SIG_DST,
    }
}
fn lsc<C: Suite>(s: &rf::RScalar) -> Sc<C> {
    sc_from_be::<C>(&rf::scalar_to_be(s))
}
fn rsc<C: Suite>(s: &Sc<C>) -> rf::RScalar {
    rf::scalar_from_be(&sc_to_be::<C>(s)).expect("canonical scalar")
}
fn lpk<C: Suite>(p: &<C::R as RefSuite>::Pk) -> PkP<C> {
    pt_from::<PkP<C>>(&rf::enc(p)).expect("reference point decodes")
}
fn lsg<C: Suite>(p: &<C::R as RefSuite>::Sig) -> SgP<C> {
    pt_from::<SgP<C>>(&rf::enc(p)).expect("reference point decodes")
}

/// wrappers that serialize through the `BlsSerde` functions
struct WSc<'a, C: Suite>(&'a Sc<C>);
impl<C: Suite> Serialize for WSc<'_, C> {
    fn serialize<S: serde::Serializer>(&self, s: S) -> Result<S::Ok, S::Error> {
        <C as BlsSerde>::serialize_scalar(self.0, s)
    }
}
struct WPk<'a, C: Suite>(&'a PkP<C>);
impl<C: Suite> Serialize for WPk<'_, C> {
    fn serialize<S: serde::Serializer>(&self, s: S) -> Result<S::Ok, S::Error> {
        <C as BlsSerde>::serialize_public_key(self.0, s)
    }
}
struct WSg<'a, C: Suite>(&'a SgP<C>);
impl<C: Suite> Serialize for WSg<'_, C> {
    fn serialize<S: serde::Serializer>(&self, s: S) -> Result<S::Ok, S::Error> {
        <C as BlsSerde>::serialize_signature(self.0, s)
    }
}
struct WSkS<'a, C: Suite>(&'a <C as Pairing>::SecretKeyShare);
impl<C: Suite> Serialize for WSkS<'_, C> {
    fn serialize<S: serde::Serializer>(&self, s: S) -> Result<S::Ok, S::Error> {
        <C as BlsSerde>::serialize_scalar_share(self.0, s)
    }
}
struct WPkS<'a, C: Suite>(&'a <C as Pairing>::PublicKeyShare);
impl<C: Suite> Serialize for WPkS<'_, C> {
    fn serialize<S: serde::Serializer>(&self, s: S) -> Result<S::Ok, S::Error> {
        <C as BlsSerde>::serialize_public_key_share(self.0, s)
    }
}
struct RSc<C: Suite>(Sc<C>);
impl<'de, C: Suite> Deserialize<'de> for RSc<C> {
    fn deserialize<D: serde::Deserializer<'de>>(d: D) -> Result<Self, D::Error> {
        <C as BlsSerde>::deserialize_scalar(d).map(RSc)
    }
}
struct RPk<C: Suite>(PkP<C>);
impl<'de, C: Suite> Deserialize<'de> for RPk<C> {
    fn deserialize<D: serde::Deserializer<'de>>(d: D) -> Result<Self, D::Error> {
        <C as BlsSerde>::deserialize_public_key(d).map(RPk)
    }
}
struct RSg<C: Suite>(SgP<C>);
impl<'de, C: Suite> Deserialize<'de> for RSg<C> {
    fn deserialize<D: serde::Deserializer<'de>>(d: D) -> Result<Self, D::Error> {
        <C as BlsSerde>::deserialize_signature(d).map(RSg)
    }
}
struct RSkS<C: Suite>(<C as Pairing>::SecretKeyShare);
impl<'de, C: Suite> Deserialize<'de> for RSkS<C> {
    fn deserialize<D: serde::Deserializer<'de>>(d: D) -> Result<Self, D::Error> {
        <C as BlsSerde>::deserialize_scalar_share(d).map(RSkS)
    }
}
struct RPkS<C: Suite>(<C as Pairing>::PublicKeyShare);
impl<'de, C: Suite> Deserialize<'de> for RPkS<C> {
    fn deserialize<D: serde::Deserializer<'de>>(d: D) -> Result<Self, D::Error> {
        <C as BlsSerde>::deserialize_public_key_share(d).map(RPkS)
    }
}

impl<C: Suite> MTS<C> {
    /// honest 2-of-3 and 3-of-5 splittings under pinned entropy (variant picks the shape and the order)
    fn shares(&self, c: &Case) -> Option<(usize, Vec<SecretKeyShare<C>>)> {
        let sk = sk_from_be::<C>(&self.keys[c.k as usize])?;
        let (t, n) = if c.m % 2 == 0 { (2, 3) } else { (3, 5) };
        let r = with_env(entropy_stream(self.seed, &format!("tsurf-split-{}-{}", c.k, c.m), 8), None, || sk.split(t, n)).ok()?.ok()?;
        Some((t, r))
    }
    /// `t` shares in the order the variant asks for: ascending, descending, last-t rotated
    fn pick<T: Clone>(all: &[T], t: usize, v: u8) -> Vec<T> {
        match v {
            0 => all[..t].to_vec(),
            1 => all[..t].iter().rev().cloned().collect(),
            _ => {
                let mut x: Vec<T> = all[all.len() - t..].to_vec();
                x.rotate_left(1);
                x
            }
        }
    }
}

impl<C: Suite> Model for MTS<C> {
    type State = Option<Case>;
    type Action = Case;
    fn name(&self) -> String {
        format!("{}-trait-surface/{}", self.prop.to_lowercase(), C::G)
    }
    fn init(&self) -> Vec<Option<Case>> {
        vec![None]
    }
    fn actions(&self, s: &Option<Case>) -> Vec<Case> {
        if s.is_some() {
            vec![]
        } else {
            self.cases.clone()
        }
    }
    fn step(&self, _s: &Option<Case>, a: &Case) -> Option<Option<Case>> {
        Some(Some(*a))
    }
    fn describe(&self, s: &Option<Case>) -> String {
        match s {
            None => "root".into(),
            Some(c) => format!(
                "{} trait level {:?} key {} message of {} bytes scheme {} variant {}",
                C::G,
                c.fam,
                self.key_names[c.k as usize],
                self.msgs[c.m as usize].len(),
                c.s.name(),
                c.v
            ),
        }
    }
    fn required_outcomes(&self) -> Vec<String> {
        vec!["trait-surface:as-reference".into()]
    }
    fn check(&self, st: &Option<Case>, o: &mut Obs) {
        let Some(c) = st else { return };
        o.nontrivial = true;
        let p = self.prop;
        let g = C::G;
        let kb = &self.keys[c.k as usize];
        let msg = &self.msgs[c.m as usize];
        let rsk = rf::scalar_from_be(kb).unwrap();
        let sk: Sc<C> = sc_from_be::<C>(kb);
        let rpk = rf::sk_to_pk::<C::R>(&rsk);
        let pk: PkP<C> = lpk::<C>(&rpk);
        let dst = lib_dst::<C>(c.s);
        let rdst = rf::sig_dst::<C::R>(c.s);
        let sn = c.s.name();
        let before = o.violations_len();
        match c.fam {
            Fam::Sign => {
                let want = rf::enc(&rf::sign::<C::R>(&rsk, c.s, msg));
                let r = guard(|| match c.s {
                    Scheme::Basic => <C as BlsSignatureBasic>::sign(&sk, msg),
                    Scheme::Aug => <C as BlsSignatureMessageAugmentation>::sign(&sk, msg),
                    Scheme::Pop => <C as BlsSignaturePop>::sign(&sk, msg),
                });
                o.expect(&format!("{}:trait-sign:{}:{}", p, g, sn), matches!(&r, Ok(Ok(s)) if pt(s) == want), "the reference signature", verdict(&r));
                let r = guard(|| <C as BlsSignatureCore>::core_sign(&sk, msg, dst));
                let want = rf::enc(&rf::core_sign::<C::R>(&rsk, msg, rdst));
                o.expect(&format!("{}:trait-core_sign:{}:{}", p, g, sn), matches!(&r, Ok(Ok(s)) if pt(s) == want), "H(m)*sk", verdict(&r));
                let r = guard(|| <C as BlsSignatureCore>::public_key(&sk));
                o.expect(&format!("{}:trait-public_key:{}", p, g), matches!(&r, Ok(x) if pt(x) == rf::enc(&rpk)), "G*sk", "differs");
                for hint in [0usize, 1, msg.len(), 1 << 16] {
                    let r = guard(|| <C as BlsSignatureMessageAugmentation>::pk_bytes(pk, hint));
                    o.expect(&format!("{}:trait-pk_bytes:{}", p, g), matches!(&r, Ok(x) if *x == rf::enc(&rpk)), "the compressed public key", "differs");
                }
                // concatenation boundary: the signature verifies for (msg, dst); it must not verify for the pair with the
                // first three bytes of the tag moved to the end of the message (msg || dst is the same byte string)
                {
                    let sig = lsg::<C>(&rf::core_sign::<C::R>(&rsk, msg, rdst));
                    let a = guard(|| <C as BlsSignatureCore>::core_verify(pk, sig, msg, dst));
                    let mut shifted = msg.clone();
                    shifted.extend_from_slice(&dst[..3]);
                    let b = guard(|| <C as BlsSignatureCore>::core_verify(pk, sig, &shifted, &dst[3..]));
                    o.expect(&format!("{}:trait-core_verify:{}:{}", p, g, sn), matches!(a, Ok(Ok(()))), "accept", verdict(&a));
                    o.expect(&format!("{}:trait-core_verify-shifted-message-tag-boundary:{}:{}", p, g, sn), matches!(b, Ok(Err(_))), "reject", verdict(&b));
                }
                // a zero key is refused by every signing entry
                let z = Sc::<C>::ZERO;
                let r = guard(|| <C as BlsSignatureCore>::core_sign(&z, msg, dst));
                o.expect(&format!("{}:trait-core_sign-zero-key:{}", p, g), matches!(&r, Ok(Err(_))), "Err", verdict(&r));
                o.calls(8);
            }
            Fam::CoreAggregate => {
                // n = 1..3 signers (this key, its double, its triple), distinct messages; variant = tamper
                let n = 1 + (c.m as usize % 3);
                let mut pairs = vec![];
                let mut agg = <C::R as RefSuite>::Sig::identity();
                for i in 0..n {
                    let ski = rsk * rf::RScalar::from(i as u64 + 1);
                    let mut mi = msg.clone();
                    mi.push(i as u8);
                    agg += rf::core_sign::<C::R>(&ski, &mi, rdst);
                    pairs.push((lpk::<C>(&rf::sk_to_pk::<C::R>(&ski)), mi));
                }
                let mut sig = lsg::<C>(&agg);
                let mut expect_ok = true;
                match c.v {
                    0 => {}
                    1 => {
                        // messages swapped between the first and the last signer
                        if n >= 2 {
                            let a = pairs[0].1.clone();
                            pairs[0].1 = pairs[n - 1].1.clone();
                            pairs[n - 1].1 = a;
                            expect_ok = false;
                        }
                    }
                    2 => {
                        pairs.pop();
                        expect_ok = false;
                    }
                    3 => {
                        sig = SgP::<C>::identity();
                        expect_ok = false;
                    }
                    _ => {
                        // last public key replaced by the identity
                        pairs[n - 1].0 = PkP::<C>::identity();
                        expect_ok = false;
                    }
                }
                if pairs.is_empty() {
                    // zero pairs: nothing was signed, the aggregate must not verify
                }
                let r = guard(|| <C as BlsSignatureCore>::core_aggregate_verify(pairs.iter().map(|(a, b)| (*a, b.as_slice())), sig, dst));
                o.calls(1);
                let acc = matches!(r, Ok(Ok(())));
                for (shape, it) in iterator_shapes(&pairs) {
                    let r2 = guard(|| <C as BlsSignatureCore>::core_aggregate_verify(it, sig, dst));
                    o.expect(&format!("{}:trait-core_aggregate_verify-iterator-shape:{}:{}", p, g, shape), matches!(r2, Ok(Ok(()))) == acc && r2.is_ok(), verdict(&r), verdict(&r2));
                }
                o.expect(
                    &format!("{}:trait-core_aggregate_verify:{}:{}:n{}:tamper{}", p, g, sn, n, c.v),
                    acc == expect_ok && r.is_ok(),
                    if expect_ok { "accept" } else { "reject" },
                    verdict(&r),
                );
            }
            Fam::CombinePk | Fam::PartialSign | Fam::SignCryptShares => {
                let Some((t, shares)) = self.shares(c) else {
                    o.expect(&format!("{}:trait-split:{}", p, g), false, "a splitting", "split failed");
                    return;
                };
                let chosen = Self::pick(&shares, t, c.v);
                match c.fam {
                    Fam::CombinePk => {
                        let pks: Vec<_> = chosen.iter().map(|s| <C as BlsSignatureCore>::public_key_share(&s.0)).collect();
                        o.expect(&format!("{}:trait-public_key_share:{}", p, g), pks.iter().all(|x| x.is_ok()), "Ok", "Err");
                        let pks: Vec<_> = pks.into_iter().flatten().collect();
                        for (s, ps) in chosen.iter().zip(pks.iter()) {
                            let want = rpk_of_share::<C>(&s.0);
                            o.expect(
                                &format!("{}:trait-public_key_share-value:{}", p, g),
                                ps.identifier() == s.0.identifier() && want.map(|w| rf::enc(&w)) == ps.as_group_element::<PkP<C>>().ok().map(|x| pt(&x)),
                                "G * share, same identifier",
                                "differs",
                            );
                        }
                        let r = guard(|| <C as BlsSignatureCore>::core_combine_public_key_shares(&pks));
                        o.expect(&format!("{}:trait-core_combine_public_key_shares:{}:order{}", p, g, c.v), matches!(&r, Ok(Ok(x)) if pt(x) == rf::enc(&rpk)), "the public key of the split secret", verdict(&r));
                        // one share fewer never gives the key
                        let r = guard(|| <C as BlsSignatureCore>::core_combine_public_key_shares(&pks[..t - 1]));
                        o.expect(&format!("{}:trait-core_combine_public_key_shares-below-threshold:{}", p, g), !matches!(&r, Ok(Ok(x)) if pt(x) == rf::enc(&rpk)), "not the key", "the key");
                        o.calls(2 + t as u64);
                    }
                    Fam::PartialSign => {
                        let mut sigs = vec![];
                        for s in &chosen {
                            let r = guard(|| <C as BlsSignatureCore>::core_partial_sign(&s.0, msg, dst));
                            let want = rsc_of_share::<C>(&s.0).map(|x| rf::enc(&rf::core_sign::<C::R>(&x, msg, rdst)));
                            let ok = matches!(&r, Ok(Ok(x)) if x.identifier() == s.0.identifier() && x.as_group_element::<SgP<C>>().ok().map(|y| pt(&y)) == want);
                            o.expect(&format!("{}:trait-core_partial_sign:{}:{}", p, g, sn), ok, "H(m) * share with the share's identifier", verdict(&r));
                            if let Ok(Ok(x)) = r {
                                sigs.push(x);
                            }
                        }
                        let want = rf::enc(&rf::core_sign::<C::R>(&rsk, msg, rdst));
                        let r = guard(|| <C as BlsSignatureCore>::core_combine_signature_shares(&sigs));
                        o.expect(&format!("{}:trait-core_combine_signature_shares:{}:{}:order{}", p, g, sn, c.v), matches!(&r, Ok(Ok(x)) if pt(x) == want), "the signature of the split key", verdict(&r));
                        if sigs.len() == t {
                            let r = guard(|| <C as BlsSignatureCore>::core_combine_signature_shares(&sigs[..t - 1]));
                            o.expect(&format!("{}:trait-core_combine_signature_shares-below-threshold:{}", p, g), !matches!(&r, Ok(Ok(x)) if pt(x) == want), "not the signature", "the signature");
                        }
                        // the scheme level partial_sign functions agree with the core one
                        for s in &chosen {
                            let a = guard(|| <C as BlsSignatureBasic>::partial_sign(&s.0, msg));
                            let b = guard(|| <C as BlsSignatureCore>::core_partial_sign(&s.0, msg, <C as BlsSignatureBasic>::DST));
                            o.expect(&format!("{}:trait-basic-partial_sign:{}", p, g), matches!((&a, &b), (Ok(Ok(x)), Ok(Ok(y))) if x == y), "core_partial_sign under the Basic tag", "differs");
                            let a = guard(|| <C as BlsSignaturePop>::partial_sign(&s.0, msg));
                            let b = guard(|| <C as BlsSignatureCore>::core_partial_sign(&s.0, msg, <C as BlsSignaturePop>::SIG_DST));
                            o.expect(&format!("{}:trait-pop-partial_sign:{}", p, g), matches!((&a, &b), (Ok(Ok(x)), Ok(Ok(y))) if x == y), "core_partial_sign under the PoP signature tag", "differs");
                        }
                        o.calls(2 + 5 * t as u64);
                        // caller-supplied tags: every byte of the tag is bound, also trailing / leading whitespace, NUL, a
                        // tag that is a prefix or an extension of a standard one, the longest tag (255 bytes)
                        if c.v == 0 {
                            let std = rdst.to_vec();
                            let mut tags: Vec<(&str, Vec<u8>)> = vec![
                                ("trailing-newline", [b"VERIF-APP-V01-CS01-with-BLS12381_XMD:SHA-256_SSWU_RO_".as_slice(), b"\n"].concat()),
                                ("trailing-space", b"VERIF-APP-V01-CS01-with-BLS12381_XMD:SHA-256_SSWU_RO_ ".to_vec()),
                                ("trailing-crlf", b"VERIF-APP-V01-CS01-with-BLS12381_XMD:SHA-256_SSWU_RO_\r\n".to_vec()),
                                ("trailing-tab", b"VERIF-APP-V01\t".to_vec()),
                                ("trailing-nul", b"VERIF-APP-V01\0".to_vec()),
                                ("leading-space", b" VERIF-APP-V01".to_vec()),
                                ("standard-plus-space", [std.as_slice(), b" "].concat()),
                                ("standard-minus-last-byte", std[..std.len() - 1].to_vec()),
                                ("standard-lowercase", std.to_ascii_lowercase()),
                                ("255-bytes", vec![b'T'; 255]),
                                ("one-byte", b"T".to_vec()),
                            ];
                            tags.push(("whitespace-only", b" \n".to_vec()));
                            let trimmed = |t: &[u8]| -> Vec<u8> { String::from_utf8_lossy(t).trim().as_bytes().to_vec() };
                            for (tn, tag) in &tags {
                                for s in chosen.iter().take(2) {
                                    let Some(x) = rsc_of_share::<C>(&s.0) else { continue };
                                    let want = rf::enc(&rf::core_sign::<C::R>(&x, msg, tag));
                                    let r = guard(|| <C as BlsSignatureCore>::core_partial_sign(&s.0, msg, tag));
                                    let ok = matches!(&r, Ok(Ok(y)) if y.identifier() == s.0.identifier() && y.as_group_element::<SgP<C>>().ok().map(|z| pt(&z)) == Some(want.clone()));
                                    o.expect(&format!("{}:trait-core_partial_sign-custom-tag:{}:{}", p, g, tn), ok, "H(m, tag) * share under exactly this tag", verdict(&r));
                                    // the share verifier accepts the reference-made partial signature under this tag, and refuses
                                    // it under the tag with its surrounding whitespace removed
                                    let Ok(Ok(pks)) = guard(|| <C as BlsSignatureCore>::public_key_share(&s.0)) else { continue };
                                    let mut ss = <C as Pairing>::SignatureShare::empty_share_with_capacity(want.len());
                                    *ss.identifier_mut() = s.0.identifier();
                                    if ss.value_mut(&want).is_err() {
                                        continue;
                                    }
                                    let r = guard(|| <C as BlsSignatureCore>::core_signature_share_verify(pks, ss, msg, tag));
                                    o.expect(&format!("{}:trait-core_signature_share_verify-custom-tag:{}:{}", p, g, tn), matches!(&r, Ok(Ok(()))), "accept", verdict(&r));
                                    let other = trimmed(tag);
                                    if other != *tag && !other.is_empty() {
                                        let r = guard(|| <C as BlsSignatureCore>::core_signature_share_verify(pks, ss, msg, &other));
                                        o.expect(&format!("{}:trait-core_signature_share_verify-trimmed-tag:{}:{}", p, g, tn), matches!(&r, Ok(Err(_))), "reject", verdict(&r));
                                    }
                                    o.calls(3);
                                }
                            }
                        }
                    }
                    _ => {
                        let ent = data32(self.seed, &format!("tsurf-sc-{}-{}-{}", c.k, c.m, sn));
                        let ct = rf::signcrypt_seal::<C::R>(&rpk, msg, c.s, &ent);
                        let (u, w) = (lpk::<C>(&ct.u), lsg::<C>(&ct.w));
                        // decryption shares = u * share_i, as the struct level computes them
                        let mut ds = vec![];
                        for s in &chosen {
                            let Some(x) = rsc_of_share::<C>(&s.0) else { continue };
                            let d = ct.u * x;
                            let pks = rf::sk_to_pk::<C::R>(&x);
                            let r = guard(|| <C as BlsSignCrypt>::verify_share(lpk::<C>(&d), lpk::<C>(&pks), u, &ct.v, w, dst));
                            o.expect(&format!("{}:trait-verify_share:{}:{}", p, g, sn), matches!(&r, Ok(ch) if bool::from(*ch)), "accept", "reject or panic");
                            // against the whole key instead of the key share: reject
                            let r = guard(|| <C as BlsSignCrypt>::verify_share(lpk::<C>(&d), pk, u, &ct.v, w, dst));
                            o.expect(&format!("{}:trait-verify_share-other-key:{}:{}", p, g, sn), matches!(&r, Ok(ch) if !bool::from(*ch)), "reject", "accept or panic");
                            // under another scheme's tag: reject
                            let od = lib_dst::<C>(SCHEMES[(c.s.idx() + 1) % 3]);
                            let r = guard(|| <C as BlsSignCrypt>::verify_share(lpk::<C>(&d), lpk::<C>(&pks), u, &ct.v, w, od));
                            o.expect(&format!("{}:trait-verify_share-other-tag:{}:{}", p, g, sn), matches!(&r, Ok(ch) if !bool::from(*ch)), "reject", "accept or panic");
                            ds.push(raw_pk_share::<C>(s.0.identifier(), &rf::enc(&d)));
                        }
                        let r = guard(|| <C as BlsSignCrypt>::unseal_with_shares(u, &ct.v, w, &ds, dst));
                        let got: Option<Vec<u8>> = r.clone().ok().and_then(|x| Option::from(x));
                        o.expect(&format!("{}:trait-unseal_with_shares:{}:{}:order{}", p, g, sn, c.v), got.as_deref() == Some(msg.as_slice()), "the message", "something else");
                        let r = guard(|| <C as BlsSignCrypt>::unseal_with_shares(u, &ct.v, w, &ds[..t - 1], dst));
                        let got: Option<Vec<u8>> = r.ok().and_then(|x| Option::from(x));
                        if msg.len() >= 8 {
                            o.expect(&format!("{}:trait-unseal_with_shares-below-threshold:{}:{}", p, g, sn), got.as_deref() != Some(msg.as_slice()), "not the message", "the message");
                        }
                        o.calls(2 + 3 * t as u64);
                    }
                }
            }
            Fam::Pok => {
                let rsig = rf::core_sign::<C::R>(&rsk, msg, rdst);
                let sig = lsg::<C>(&rsig);
                let ent = entropy_stream(self.seed, &format!("tsurf-pok-{}-{}", c.k, c.m), 4);
                let r = with_env(ent.clone(), None, || <C as BlsSignatureProof>::generate_commitment(msg, dst));
                let Ok(Ok((u, x))) = r else {
                    o.expect(&format!("{}:trait-generate_commitment:{}", p, g), false, "Ok", "Err or panic");
                    return;
                };
                let ru = <C::R as RefSuite>::hash_to_sig(msg, rdst) * rsc::<C>(&x);
                o.expect(&format!("{}:trait-generate_commitment:{}:{}", p, g, sn), pt(&u) == rf::enc(&ru) && !bool::from(x.is_zero()), "u = H(m) * x, x != 0", "differs");
                // challenge from the timestamp, pinned clock
                let t0 = CLOCK0 + c.k as u64;
                let r = with_env(vec![], Some(t0), || <C as BlsSignatureProof>::generate_timestamp_based_y(u));
                let ry = rf::pok_y::<C::R>(&ru, t0);
                o.expect(&format!("{}:trait-generate_timestamp_based_y:{}", p, g), matches!(&r, Ok((y, t)) if *t == t0 && rsc::<C>(y) == ry), "(H(u || t), t) at the clock's time", "differs");
                let y = lsc::<C>(&ry);
                o.expect(&format!("{}:trait-compute_y:{}", p, g), <C as BlsSignatureProof>::compute_y(u, t0) == y, "H(u || t)", "differs");
                let r = guard(|| <C as BlsSignatureProof>::generate_proof(u, x, y, sig));
                let (wu, wv) = rf::pok_prove::<C::R>(&rsig, msg, c.s, &rsc::<C>(&x), &ry);
                o.expect(&format!("{}:trait-generate_proof:{}:{}", p, g, sn), matches!(&r, Ok(Ok((a, b))) if pt(a) == rf::enc(&wu) && pt(b) == rf::enc(&wv)), "(u, -(sig * (x + y)))", verdict(&r));
                let v = lsg::<C>(&wv);
                let r = guard(|| <C as BlsSignatureProof>::verify(u, v, pk, y, msg, dst));
                o.expect(&format!("{}:trait-pok-verify:{}:{}", p, g, sn), matches!(&r, Ok(Ok(()))), "accept", verdict(&r));
                let r = guard(|| <C as BlsSignatureProof>::verify(u, v, pk, y + Sc::<C>::ONE, msg, dst));
                o.expect(&format!("{}:trait-pok-verify-other-challenge:{}:{}", p, g, sn), matches!(&r, Ok(Err(_))), "reject", verdict(&r));
                let mut other = msg.clone();
                other.push(1);
                let r = guard(|| <C as BlsSignatureProof>::verify(u, v, pk, y, &other, dst));
                o.expect(&format!("{}:trait-pok-verify-other-message:{}:{}", p, g, sn), matches!(&r, Ok(Err(_))), "reject", verdict(&r));
                for (name, a, b, yy) in [("commitment-identity", SgP::<C>::identity(), v, y), ("proof-identity", u, SgP::<C>::identity(), y), ("zero-challenge", u, v, Sc::<C>::ZERO)] {
                    let r = guard(|| <C as BlsSignatureProof>::verify(a, b, pk, yy, msg, dst));
                    o.expect(&format!("{}:trait-pok-verify-{}:{}", p, name, g), matches!(&r, Ok(Err(_))), "reject", verdict(&r));
                }
                let r = guard(|| <C as BlsSignatureProof>::verify(u, v, PkP::<C>::identity(), y, msg, dst));
                o.expect(&format!("{}:trait-pok-verify-identity-key:{}", p, g), matches!(&r, Ok(Err(_))), "reject", verdict(&r));
                for (name, xx, yy, ss, uu) in [
                    ("zero-x", Sc::<C>::ZERO, y, sig, u),
                    ("zero-y", x, Sc::<C>::ZERO, sig, u),
                    ("identity-signature", x, y, SgP::<C>::identity(), u),
                    ("identity-commitment", x, y, sig, SgP::<C>::identity()),
                ] {
                    let r = guard(|| <C as BlsSignatureProof>::generate_proof(uu, xx, yy, ss));
                    o.expect(&format!("{}:trait-generate_proof-{}:{}", p, name, g), matches!(&r, Ok(Err(_))), "Err", verdict(&r));
                }
                // timestamp proofs: produced at t0, verified at t0 + d with a window
                let r = with_env(ent.clone(), Some(t0), || <C as BlsSignatureProof>::generate_timestamp_proof(msg, dst, sig));
                let Ok(Ok((tu, tv, tt))) = r else {
                    o.expect(&format!("{}:trait-generate_timestamp_proof:{}", p, g), false, "Ok", "Err or panic");
                    return;
                };
                // same entropy, so the same x as above
                let (wu2, wv2) = rf::pok_prove::<C::R>(&rsig, msg, c.s, &rsc::<C>(&x), &rf::pok_y::<C::R>(&ru, t0));
                o.expect(&format!("{}:trait-generate_timestamp_proof:{}:{}", p, g, sn), tt == t0 && pt(&tu) == rf::enc(&wu2) && pt(&tv) == rf::enc(&wv2), "(u, -(sig*(x+y)), clock time)", "differs");
                for (d, window, want) in [(0u64, Some(0u64), true), (1, Some(0), false), (5, Some(5), true), (6, Some(5), false), (1 << 40, None, true), (1 << 33, Some(1), false)] {
                    let r = with_env(vec![], Some(t0 + d), || <C as BlsSignatureProof>::verify_timestamp_proof(tu, tv, pk, tt, window, msg, dst));
                    let acc = matches!(r, Ok(Ok(())));
                    o.expect(
                        &format!("{}:trait-verify_timestamp_proof:{}:{}:elapsed{}:window{:?}", p, g, sn, d, window),
                        acc == want && r.is_ok(),
                        if want { "accept" } else { "reject" },
                        verdict(&r),
                    );
                }
                // a proof stamped in the future is rejected when a window is given
                let r = with_env(vec![], Some(t0 - 1), || <C as BlsSignatureProof>::verify_timestamp_proof(tu, tv, pk, tt, Some(10), msg, dst));
                o.expect(&format!("{}:trait-verify_timestamp_proof-future:{}", p, g), matches!(&r, Ok(Err(_))), "reject", verdict(&r));
                // the proof objects moved by the constant time selection helpers are unchanged
                {
                    let mk = |a: SgP<C>, b: SgP<C>| match c.s {
                        Scheme::Basic => ProofOfKnowledge::<C>::Basic { u: a, v: b },
                        Scheme::Aug => ProofOfKnowledge::<C>::MessageAugmentation { u: a, v: b },
                        Scheme::Pop => ProofOfKnowledge::<C>::ProofOfPossession { u: a, v: b },
                    };
                    let mkc = |a: SgP<C>| match c.s {
                        Scheme::Basic => ProofCommitment::<C>::Basic(a),
                        Scheme::Aug => ProofCommitment::<C>::MessageAugmentation(a),
                        Scheme::Pop => ProofCommitment::<C>::ProofOfPossession(a),
                    };
                    expect_ct_move(o, p, &format!("ProofOfKnowledge<{}>", g), &mk(u, v), &mk(tu, tv));
                    expect_ct_move(o, p, &format!("ProofCommitment<{}>", g), &mkc(u), &mkc(u + u));
                    expect_ct_move(o, p, &format!("ProofOfKnowledgeTimestamp<{}>", g), &ProofOfKnowledgeTimestamp::<C> { proof: mk(tu, tv), timestamp: tt }, &ProofOfKnowledgeTimestamp::<C> { proof: mk(u, v), timestamp: tt + 1 });
                }
                // another timestamp: reject
                let r = with_env(vec![], Some(t0), || <C as BlsSignatureProof>::verify_timestamp_proof(tu, tv, pk, tt + 1, None, msg, dst));
                o.expect(&format!("{}:trait-verify_timestamp_proof-other-time:{}", p, g), matches!(&r, Ok(Err(_))), "reject", verdict(&r));
                o.calls(26);
            }
            Fam::SignCrypt => {
                let ent = data32(self.seed, &format!("tsurf-sc-{}-{}-{}", c.k, c.m, sn));
                let want = rf::signcrypt_seal::<C::R>(&rpk, msg, c.s, &drawn(&ent));
                let r = with_env(vec![ent], None, || <C as BlsSignCrypt>::seal(pk, msg, dst));
                let Ok((u, v, w)) = r else {
                    o.expect(&format!("{}:trait-signcrypt-seal:{}", p, g), false, "returns", "panic");
                    return;
                };
                o.expect(
                    &format!("{}:trait-signcrypt-seal:{}:{}", p, g, sn),
                    pt(&u) == rf::enc(&want.u) && v == want.v && pt(&w) == rf::enc(&want.w),
                    "the reference ciphertext for the same entropy",
                    "differs",
                );
                let r = guard(|| <C as BlsSignCrypt>::valid(u, &v, w, dst));
                o.expect(&format!("{}:trait-signcrypt-valid:{}:{}", p, g, sn), matches!(&r, Ok(ch) if bool::from(*ch)), "valid", "invalid or panic");
                let od = lib_dst::<C>(SCHEMES[(c.s.idx() + 1) % 3]);
                let r = guard(|| <C as BlsSignCrypt>::valid(u, &v, w, od));
                o.expect(&format!("{}:trait-signcrypt-valid-other-tag:{}:{}", p, g, sn), matches!(&r, Ok(ch) if !bool::from(*ch)), "invalid", "valid or panic");
                let open = |sk: &Sc<C>, v: &[u8], dst: &[u8]| -> Result<Option<Vec<u8>>, String> { guard(|| Option::from(<C as BlsSignCrypt>::unseal(u, v, w, sk, dst))) };
                let r = open(&sk, &v, dst);
                o.expect(&format!("{}:trait-signcrypt-unseal:{}:{}", p, g, sn), matches!(&r, Ok(Some(x)) if x == msg), "the message", "something else");
                let r = open(&(sk + Sc::<C>::ONE), &v, dst);
                if msg.len() >= 8 {
                    o.expect(&format!("{}:trait-signcrypt-unseal-other-key:{}:{}", p, g, sn), !matches!(&r, Ok(Some(x)) if x == msg) && r.is_ok(), "not the message", "the message or panic");
                }
                let r = open(&sk, &v, od);
                o.expect(&format!("{}:trait-signcrypt-unseal-other-tag:{}:{}", p, g, sn), matches!(&r, Ok(None)), "None", "Some or panic");
                let mut v2 = v.clone();
                let last = v2.len() - 1;
                v2[last] ^= 1;
                let r = open(&sk, &v2, dst);
                o.expect(&format!("{}:trait-signcrypt-unseal-tampered:{}:{}", p, g, sn), matches!(&r, Ok(None)), "None", "Some or panic");
                // building blocks
                let ua = want.u * rsk;
                let framed = rf::frame(msg);
                let r = guard(|| <C as BlsSignCrypt>::compute_v(lpk::<C>(&ua), &framed));
                o.expect(&format!("{}:trait-signcrypt-compute_v:{}", p, g), matches!(&r, Ok(x) if *x == want.v), "SHAKE128(u*sk) xor framed message", "differs");
                let mut t = rf::enc(&want.u);
                t.extend_from_slice(&want.v);
                let r = guard(|| <C as BlsSignCrypt>::compute_w(u, &v, dst));
                o.expect(&format!("{}:trait-signcrypt-compute_w:{}:{}", p, g, sn), matches!(&r, Ok(x) if pt(x) == rf::enc(&<C::R as RefSuite>::hash_to_sig(&t, rdst))), "H(u || v)", "differs");
                let r = guard(|| Option::<Vec<u8>>::from(<C as BlsSignCrypt>::decrypt(&v, lpk::<C>(&ua), 0u8.into())));
                o.expect(&format!("{}:trait-signcrypt-decrypt-invalid-flag:{}", p, g), matches!(&r, Ok(None)), "None", "Some or panic");
                let r = guard(|| Option::<Vec<u8>>::from(<C as BlsSignCrypt>::decrypt(&v, lpk::<C>(&ua), 1u8.into())));
                o.expect(&format!("{}:trait-signcrypt-decrypt:{}", p, g), matches!(&r, Ok(Some(x)) if x == msg), "the message", "something else");
                o.calls(11);
            }
            Fam::TimeCrypt => {
                let ent = data32(self.seed, &format!("tsurf-tl-{}-{}-{}", c.k, c.m, sn));
                let id = data(self.seed, &format!("tsurf-id-{}", c.m), [0usize, 1, 8, 32, 100][c.m as usize % 5]);
                let full_id = rf::timelock_id::<C::R>(&rpk, c.s, &id);
                let Some(want) = rf::timelock_seal::<C::R>(&rpk, msg, &id, c.s, &drawn(&ent)) else { return };
                let r = with_env(vec![ent], None, || <C as BlsTimeCrypt>::seal(pk, msg, &full_id, dst));
                let Ok(Ok((u, v, w))) = r else {
                    o.expect(&format!("{}:trait-timelock-seal:{}", p, g), false, "Ok", "Err or panic");
                    return;
                };
                o.expect(
                    &format!("{}:trait-timelock-seal:{}:{}", p, g, sn),
                    pt(&u) == rf::enc(&want.u) && v == want.v && w == want.w,
                    "the reference ciphertext for the same entropy",
                    "differs",
                );
                let rsig = rf::core_sign::<C::R>(&rsk, &full_id, rdst);
                let sig = lsg::<C>(&rsig);
                let open = |sig: SgP<C>, v: &[u8; 32], w: &[u8], ok: u8| -> Result<Option<Vec<u8>>, String> { guard(|| Option::from(<C as BlsTimeCrypt>::unseal(u, v, w, sig, ok.into()))) };
                let r = open(sig, &v, &w, 1);
                o.expect(&format!("{}:trait-timelock-unseal:{}:{}", p, g, sn), matches!(&r, Ok(Some(x)) if x == msg), "the message", "something else");
                let r = open(sig, &v, &w, 0);
                o.expect(&format!("{}:trait-timelock-unseal-invalid-flag:{}", p, g), matches!(&r, Ok(None)), "None", "Some or panic");
                let r = open(sig + sig, &v, &w, 1);
                o.expect(&format!("{}:trait-timelock-unseal-other-signature:{}", p, g), matches!(&r, Ok(None)), "None", "Some or panic");
                let r = open(SgP::<C>::identity(), &v, &w, 1);
                o.expect(&format!("{}:trait-timelock-unseal-identity-signature:{}", p, g), matches!(&r, Ok(None)), "None", "Some or panic");
                let mut w2 = w.clone();
                let last = w2.len() - 1;
                w2[last] ^= 0x80;
                let r = open(sig, &v, &w2, 1);
                if msg.len() + 2 >= w.len() {
                    // the flipped byte is a message byte (no padding behind it)
                    o.expect(&format!("{}:trait-timelock-unseal-tampered-w:{}", p, g), matches!(&r, Ok(None)), "None", "Some or panic");
                }
                let mut v2 = v;
                v2[31] ^= 1;
                let r = open(sig, &v2, &w, 1);
                o.expect(&format!("{}:trait-timelock-unseal-tampered-v:{}", p, g), matches!(&r, Ok(None)), "None", "Some or panic");
                let r = guard(|| <C as BlsTimeCrypt>::seal(PkP::<C>::identity(), msg, &full_id, dst));
                o.expect(&format!("{}:trait-timelock-seal-identity-key:{}", p, g), matches!(&r, Ok(Err(_))), "Err", verdict(&r));
                // building blocks
                let alpha = rf::scalar_to_le(&rf::hash_to_scalar(&drawn(&ent), rf::SALT_TIMELOCK));
                let framed = rf::frame(msg);
                let r = guard(|| <C as BlsTimeCrypt>::compute_w(&alpha, &framed));
                o.expect(&format!("{}:trait-timelock-compute_w:{}", p, g), matches!(&r, Ok(x) if *x == want.w), "SHAKE128(alpha) xor framed message", "differs");
                let gt = <C as Pairing>::pairing(&[(sig, u)]);
                let r = guard(|| <C as BlsTimeCrypt>::compute_v(gt, &v));
                o.expect(&format!("{}:trait-timelock-compute_v:{}", p, g), matches!(&r, Ok(x) if *x == alpha), "SHA-256(e(sig, u)) xor v = alpha", "differs");
                o.calls(10);
            }
            Fam::Serde => {
                let sig = lsg::<C>(&rf::core_sign::<C::R>(&rsk, msg, rdst));
                // scalar / public key / signature through both formats: same bytes as the public structs produce,
                // and the trait deserializers return the value
                let sks = SecretKey::<C>(sk);
                let pks = PublicKey::<C>(pk);
                let sgs = mk_sig::<C>(Scheme::Basic, sig);
                macro_rules! both {
                    ($name:literal, $w:expr, $r:ident, $structv:expr, $eq:expr, $json_same:expr) => {{
                        let jb = serde_json::to_string(&$w).map_err(|e| e.to_string());
                        let bb = serde_bare::to_vec(&$w).map_err(|e| e.to_string());
                        if $json_same {
                            let js = serde_json::to_string($structv).map_err(|e| e.to_string());
                            let bs = serde_bare::to_vec($structv).map_err(|e| e.to_string());
                            o.expect(&format!("{}:trait-serde-{}-same-as-struct:{}", p, $name, g), jb == js && bb == bs && jb.is_ok() && bb.is_ok(), "same encoding as the struct", "differs");
                        }
                        let back = jb.as_ref().ok().and_then(|s| serde_json::from_str::<$r<C>>(s).ok());
                        o.expect(&format!("{}:trait-serde-{}-json:{}", p, $name, g), matches!(&back, Some(x) if $eq(&x.0)), "round trip", "differs or fails");
                        let back = bb.as_ref().ok().and_then(|s| serde_bare::from_slice::<$r<C>>(s).ok());
                        o.expect(&format!("{}:trait-serde-{}-bare:{}", p, $name, g), matches!(&back, Some(x) if $eq(&x.0)), "round trip", "differs or fails");
                        let back = jb.as_ref().ok().and_then(|s| serde_json::from_reader::<_, $r<C>>(s.as_bytes()).ok());
                        o.expect(&format!("{}:trait-serde-{}-json-reader:{}", p, $name, g), matches!(&back, Some(x) if $eq(&x.0)), "round trip", "differs or fails");
                    }};
                }
                both!("scalar", WSc::<C>(&sk), RSc, &sks, |x: &Sc<C>| *x == sk, true);
                both!("public_key", WPk::<C>(&pk), RPk, &pks, |x: &PkP<C>| *x == pk, true);
                both!("signature", WSg::<C>(&sig), RSg, &sgs, |x: &SgP<C>| *x == sig, false);
                if let Some((_, shares)) = self.shares(c) {
                    for s in shares.iter().take(2) {
                        let inner = s.0.clone();
                        both!("scalar_share", WSkS::<C>(&inner), RSkS, s, |x: &<C as Pairing>::SecretKeyShare| *x == inner, true);
                        if let Ok(ps) = s.public_key() {
                            let pin = ps.0.clone();
                            both!("public_key_share", WPkS::<C>(&pin), RPkS, &ps, |x: &<C as Pairing>::PublicKeyShare| *x == pin, true);
                        }
                    }
                }
                o.calls(30);
            }
        }
        o.outcome(if o.violations_len() == before { "trait-surface:as-reference" } else { "trait-surface:differs" });
    }
}

/// the 32 bytes a sealer draws from the CS-PRNG the entropy seam seeds with `seed`
fn drawn(seed: &[u8; 32]) -> [u8; 32] {
    use rand::Rng;
    use rand_core::SeedableRng;
    rand_chacha::ChaCha20Rng::from_seed(*seed).gen::<[u8; 32]>()
}
// ---- histories across features and groups -------------------------------------------------------------------
//
// Every trait-level family above is a deterministic function of its inputs (entropy and clock are owned by the seams).
// A history runs one case of ANY family / group / scheme first and then a case of this property's family on the same
// thread; the second case must still match the reference. State that one call leaves behind for a differently
// parameterised call (caches and scratch buffers in thread locals or statics, keyed incompletely) shows up here.

pub struct MHistX {
    prop: &'static str,
    g1: MTS<Bls12381G1Impl>,
    g2: MTS<Bls12381G2Impl>,
    /// (group, case)
    ops: Vec<(u8, Case)>,
    /// indices of the operations that belong to this property
    own: Vec<usize>,
    /// (first, second): the same own operation over two messages that collide under weak digests
    pairs: Vec<(usize, usize)>,
}

const ALL_FAMS: [Fam; 8] = [Fam::Sign, Fam::CoreAggregate, Fam::CombinePk, Fam::PartialSign, Fam::Pok, Fam::SignCrypt, Fam::SignCryptShares, Fam::TimeCrypt];

impl MHistX {
    pub fn new(prop: &'static str, tier: Tier, seed: u64) -> Self {
        let g1 = MTS::<Bls12381G1Impl>::new(prop, Tier::Quick, seed);
        let g2 = MTS::<Bls12381G2Impl>::new(prop, Tier::Quick, seed);
        let own_fams = fams(prop);
        let mut ops = vec![];
        let mut own = vec![];
        for g in 0..2u8 {
            for f in ALL_FAMS {
                for s in SCHEMES {
                    // one key, the 13 byte message (thorough: also the 200 byte one), first variant
                    for m in if tier.thorough() { vec![1u8, 4] } else { vec![1u8] } {
                        if own_fams.contains(&f) {
                            own.push(ops.len());
                        }
                        ops.push((g, Case { fam: f, k: 3.min(g1.keys.len() as u8 - 1), m, s, v: 0 }));
                    }
                }
            }
        }
        // colliding message pairs (indices 5/6 and 7/8 of the message list) for this property's own operations
        let mut pairs = vec![];
        for g in 0..2u8 {
            for f in ALL_FAMS {
                if !own_fams.contains(&f) {
                    continue;
                }
                for s in SCHEMES {
                    for (a, b) in [(5u8, 6u8), (7, 8)] {
                        let k = 3.min(g1.keys.len() as u8 - 1);
                        ops.push((g, Case { fam: f, k, m: a, s, v: 0 }));
                        ops.push((g, Case { fam: f, k, m: b, s, v: 0 }));
                        pairs.push((ops.len() - 2, ops.len() - 1));
                    }
                }
            }
        }
        MHistX { prop, g1, g2, ops, own, pairs }
    }
    fn run(&self, op: usize, o: &mut Obs) {
        let (g, c) = self.ops[op];
        if g == 0 {
            self.g1.check(&Some(c), o)
        } else {
            self.g2.check(&Some(c), o)
        }
    }
}

impl Model for MHistX {
    type State = Vec<usize>;
    type Action = usize;
    fn name(&self) -> String {
        format!("{}-trait-surface-histories", self.prop.to_lowercase())
    }
    fn init(&self) -> Vec<Vec<usize>> {
        vec![vec![]]
    }
    fn actions(&self, st: &Vec<usize>) -> Vec<usize> {
        let nbase = self.ops.len() - 2 * self.pairs.len();
        match st.len() {
            0 => (0..nbase).chain(self.pairs.iter().map(|p| p.0)).collect(),
            1 if st[0] >= nbase => self.pairs.iter().filter(|p| p.0 == st[0]).map(|p| p.1).collect(),
            1 => self.own.clone(),
            _ => vec![],
        }
    }
    fn step(&self, st: &Vec<usize>, a: &usize) -> Option<Vec<usize>> {
        let mut n = st.clone();
        n.push(*a);
        Some(n)
    }
    fn describe(&self, st: &Vec<usize>) -> String {
        let d = |i: &usize| {
            let (g, c) = self.ops[*i];
            format!("{:?}/{}/{}/msg#{}", c.fam, GROUPS[g as usize], c.s.name(), c.m)
        };
        format!("history [{}]: the last operation compared with the reference as if it ran alone", st.iter().map(d).collect::<Vec<_>>().join(" then "))
    }
    fn required_outcomes(&self) -> Vec<String> {
        vec!["history:last-operation-as-alone".into()]
    }
    fn check(&self, st: &Vec<usize>, o: &mut Obs) {
        if st.len() < 2 {
            return;
        }
        o.nontrivial = true;
        let mut scratch = Obs::new();
        self.run(st[0], &mut scratch);
        let mut last = Obs::new();
        self.run(st[1], &mut last);
        o.calls(scratch.evals + last.evals);
        let (_, first) = self.ops[st[0]];
        let (g0, _) = self.ops[st[0]];
        o.outcome(if last.violations.is_empty() { "history:last-operation-as-alone" } else { "history:last-operation-differs" });
        for v in last.violations {
            let rel = if first.m >= 5 { "-over-a-message-colliding-under-weak-digests" } else { "" };
            o.expect(&format!("{}:after-{:?}-{}{}", v.key, first.fam, GROUPS[g0 as usize], rel), false, &v.expected, &v.observed);
        }
    }
}

fn rsc_of_share<C: Suite>(s: &<C as Pairing>::SecretKeyShare) -> Option<rf::RScalar> {
    s.as_field_element::<Sc<C>>().ok().map(|x| rsc::<C>(&x))
}
fn rpk_of_share<C: Suite>(s: &<C as Pairing>::SecretKeyShare) -> Option<<C::R as RefSuite>::Pk> {
    rsc_of_share::<C>(s).map(|x| rf::sk_to_pk::<C::R>(&x))
}

pub fn models(prop: &'static str, tier: Tier, seed: u64) -> Vec<Box<dyn DynModel>> {
    let mut v = vec![bounded(MTS::<Bls12381G1Impl>::new(prop, tier, seed), 1), bounded(MTS::<Bls12381G2Impl>::new(prop, tier, seed), 1)];
    if fams(prop).iter().any(|f| ALL_FAMS.contains(f)) {
        v.push(bounded(MHistX::new(prop, tier, seed), 2));
    }
    v
}
