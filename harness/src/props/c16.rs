//! C16 - decoding never yields an invalid point, a zero key or a mis-sized value.
use crate::common::*;
use crate::engine::*;
use crate::refmodel::{self as rf, RefSuite};
use crate::registry::*;
use blsful::*;
use bls12_381_plus::{G1Affine, G2Affine};
use serde::{Deserialize, Serialize};

#[derive(Clone, Debug, PartialEq, Eq, Hash, Serialize, Deserialize)]
pub enum Dev {
    /// replace the point at position `pos` by bad encoding #`bad`
    BadPoint { pos: usize, bad: usize },
    /// replace the point at position `pos` by itself plus a point outside the subgroup (pairs like the honest one)
    TorsionPoint { pos: usize },
    /// the point at this position replaced by a neighbour of itself: all but the last bytes equal, on the curve, outside the subgroup
    NeighbourPoint { pos: usize },
    /// replace the scalar at position `pos` by bad scalar #`bad`
    BadScalar { pos: usize, bad: usize },
    Truncate(usize),
    /// append `n` bytes of value `b`
    Extend(u8, usize),
    /// JSON only: the hex string of point `pos` made short / long / odd / non-hex
    JsonHex { pos: usize, kind: u8 },
    /// JSON only: the hex string of point `pos` := the first `bytes` bytes of the point (`identity` false) or of
    /// the identity encoding c0 00 .. 00 (`identity` true): a truncated point must never be accepted
    JsonPrefix { pos: usize, bytes: usize, identity: bool },
}

#[derive(Clone, Debug, PartialEq, Eq, Hash, Serialize, Deserialize)]
pub struct St {
    ty: usize,
    codec: Codec,
    dev: Option<Dev>,
}

pub struct Bad {
    label: String,
    class: &'static str,
    bytes: Vec<u8>,
}

pub struct M16 {
    entries: Vec<Box<dyn TyDyn + Send + Sync>>,
    bad_g1: Vec<Bad>,
    bad_g2: Vec<Bad>,
    bad_sc: Vec<Bad>,
}

const P_HEX: &str = "1a0111ea397fe69a4b1ba7b6434bacd764774b84f38512bf6730d2a0f6b0f6241eabfffeb153ffffb9feffffffffaaab";
const R_HEX: &str = "73eda753299d7d483339d80809a1d80553bda402fffe5bfeffffffff00000001";

fn add_be(a: &[u8], n: u8) -> Vec<u8> {
    let mut v = a.to_vec();
    let mut carry = n as u16;
    for b in v.iter_mut().rev() {
        let s = *b as u16 + carry;
        *b = s as u8;
        carry = s >> 8;
    }
    v
}

pub fn valid_point(b: &[u8]) -> bool {
    match b.len() {
        48 => <rf::RG1 as RefSuite>::sig_from(b).is_some(),
        96 => <rf::RG1 as RefSuite>::pk_from(b).is_some(),
        _ => false,
    }
}

/// a compressed point that shares all but its last four bytes with `p`, lies on the curve and outside the subgroup
fn neighbour_outside_subgroup(p: &[u8]) -> Option<Vec<u8>> {
    let len = p.len();
    if p[0] & 0x40 != 0 {
        return None;
    }
    for k in 1u32..400 {
        let mut b = p.to_vec();
        let tail = u32::from_be_bytes(b[len - 4..].try_into().unwrap()).wrapping_add(k);
        b[len - 4..].copy_from_slice(&tail.to_be_bytes());
        let bad = if len == 96 {
            let a: [u8; 96] = b.as_slice().try_into().unwrap();
            Option::<G2Affine>::from(G2Affine::from_compressed_unchecked(&a)).map(|q| !bool::from(q.is_torsion_free()))
        } else {
            let a: [u8; 48] = b.as_slice().try_into().unwrap();
            Option::<G1Affine>::from(G1Affine::from_compressed_unchecked(&a)).map(|q| !bool::from(q.is_torsion_free()))
        };
        if bad == Some(true) {
            return Some(b);
        }
    }
    None
}

fn bad_points(g2: bool, honest: &[u8], limit: u32) -> Vec<Bad> {
    let len = if g2 { 96 } else { 48 };
    let mut out = vec![];
    let mut nsub = 0;
    let mut nopt = 0;
    for x in 1u32..limit {
        let mut b = vec![0u8; len];
        b[len - 4..].copy_from_slice(&x.to_be_bytes());
        b[0] |= 0x80;
        let on_curve_not_subgroup = |bytes: &[u8]| -> Option<bool> {
            if g2 {
                let a: [u8; 96] = bytes.try_into().unwrap();
                Option::<G2Affine>::from(G2Affine::from_compressed_unchecked(&a)).map(|p| !bool::from(p.is_torsion_free()))
            } else {
                let a: [u8; 48] = bytes.try_into().unwrap();
                Option::<G1Affine>::from(G1Affine::from_compressed_unchecked(&a)).map(|p| !bool::from(p.is_torsion_free()))
            }
        };
        match on_curve_not_subgroup(&b) {
            Some(true) => {
                nsub += 1;
                out.push(Bad { label: format!("on curve, not in subgroup, x={}", x), class: "non-subgroup", bytes: b.clone() });
                let mut b2 = b.clone();
                b2[0] |= 0x20;
                out.push(Bad { label: format!("on curve, not in subgroup, x={} (other sign)", x), class: "non-subgroup", bytes: b2 });
            }
            Some(false) => {}
            None => {
                if nopt < 10 {
                    nopt += 1;
                    out.push(Bad { label: format!("x={} has no curve point", x), class: "no-point", bytes: b.clone() });
                }
            }
        }
    }
    assert!(nsub >= 5, "too few non-subgroup points found");
    // neighbours of the honest point: all but the last bytes shared with it (a table keyed by a prefix of the encoding
    // would take them for the honest point), on the curve, outside the subgroup
    {
        let check = |bytes: &[u8]| -> Option<bool> {
            if g2 {
                let a: [u8; 96] = bytes.try_into().unwrap();
                Option::<G2Affine>::from(G2Affine::from_compressed_unchecked(&a)).map(|p| !bool::from(p.is_torsion_free()))
            } else {
                let a: [u8; 48] = bytes.try_into().unwrap();
                Option::<G1Affine>::from(G1Affine::from_compressed_unchecked(&a)).map(|p| !bool::from(p.is_torsion_free()))
            }
        };
        let mut found = 0;
        for k in 1u32..400 {
            let mut b = honest.to_vec();
            let tail = u32::from_be_bytes(b[len - 4..].try_into().unwrap()).wrapping_add(k);
            b[len - 4..].copy_from_slice(&tail.to_be_bytes());
            if check(&b) == Some(true) {
                out.push(Bad { label: format!("honest point with its last bytes changed (+{}): on curve, not in subgroup", k), class: "non-subgroup", bytes: b });
                found += 1;
                if found >= 3 {
                    break;
                }
            }
        }
        assert!(found >= 1, "no neighbour of the honest point outside the subgroup found");
    }
    // flag games on an honest point
    let mut b = honest.to_vec();
    b[0] &= 0x7f;
    out.push(Bad { label: "compression bit cleared".into(), class: "flags", bytes: b });
    let mut b = honest.to_vec();
    b[0] |= 0x40;
    out.push(Bad { label: "infinity bit set on a finite point".into(), class: "flags", bytes: b });
    let mut b = vec![0u8; len];
    b[0] = 0xe0;
    out.push(Bad { label: "infinity with the sort bit".into(), class: "flags", bytes: b });
    let mut b = vec![0u8; len];
    b[0] = 0xc0;
    b[len - 1] = 1;
    out.push(Bad { label: "infinity bit with non-zero x".into(), class: "flags", bytes: b });
    // x >= p
    let p = hex::decode(P_HEX).unwrap();
    let mut b = vec![0u8; len];
    b[len - 48..].copy_from_slice(&p);
    if g2 {
        // c1 = 0, c0 = p ; and c1 = p
        b[0] |= 0x80;
        out.push(Bad { label: "x.c0 = p (not canonical)".into(), class: "x>=p", bytes: b.clone() });
        let mut b2 = vec![0u8; len];
        b2[..48].copy_from_slice(&p);
        b2[0] |= 0x80;
        out.push(Bad { label: "x.c1 = p (not canonical)".into(), class: "x>=p", bytes: b2 });
    } else {
        b[0] |= 0x80;
        out.push(Bad { label: "x = p (not canonical)".into(), class: "x>=p", bytes: b.clone() });
    }
    let mut b = vec![0xFFu8; len];
    b[0] = 0x9f;
    out.push(Bad { label: "x = all ones".into(), class: "x>=p", bytes: b });
    out
}

impl M16 {
    pub fn new(tier: Tier, seed: u64) -> Self {
        let entries = all_entries(seed, false);
        // honest points to play flag games on
        let mut h1 = vec![];
        let mut h2 = vec![];
        for e in &entries {
            for p in e.points_of(0) {
                if p.len() == 48 && h1.is_empty() && p[0] & 0x40 == 0 {
                    h1 = p.clone();
                }
                if p.len() == 96 && h2.is_empty() && p[0] & 0x40 == 0 {
                    h2 = p.clone();
                }
            }
        }
        let lim = if tier.thorough() { 120 } else { 40 };
        let r = hex::decode(R_HEX).unwrap();
        let bad_sc = vec![
            Bad { label: "zero".into(), class: "zero", bytes: vec![0u8; 32] },
            Bad { label: "r".into(), class: ">=r", bytes: r.clone() },
            Bad { label: "r+1".into(), class: ">=r", bytes: add_be(&r, 1) },
            Bad { label: "2r".into(), class: ">=r", bytes: { let mut v = r.clone(); let mut c = 0u16; for b in v.iter_mut().rev() { let s = (*b as u16) * 2 + c; *b = s as u8; c = s >> 8; } v } },
            Bad { label: "all ones".into(), class: ">=r", bytes: vec![0xFF; 32] },
        ];
        M16 { entries, bad_g1: bad_points(false, &h1, lim), bad_g2: bad_points(true, &h2, lim), bad_sc }
    }
    fn bads(&self, len: usize) -> &Vec<Bad> {
        if len == 48 {
            &self.bad_g1
        } else {
            &self.bad_g2
        }
    }
}

/// replace the first occurrence of `needle` (raw, or hex for JSON)
fn substitute(enc: &[u8], codec: Codec, needle: &[u8], with: &[u8], le: bool) -> Option<Vec<u8>> {
    let (n, w): (Vec<u8>, Vec<u8>) = if codec == Codec::Json {
        (hex::encode(needle).into_bytes(), hex::encode(with).into_bytes())
    } else if le {
        (needle.iter().rev().copied().collect(), with.iter().rev().copied().collect())
    } else {
        (needle.to_vec(), with.to_vec())
    };
    let pos = enc.windows(n.len()).position(|x| x == &n[..])?;
    let mut out = enc[..pos].to_vec();
    out.extend_from_slice(&w);
    out.extend_from_slice(&enc[pos + n.len()..]);
    Some(out)
}

impl Model for M16 {
    type State = St;
    type Action = Dev;
    fn name(&self) -> String {
        "c16-decode-validity".into()
    }
    fn init(&self) -> Vec<St> {
        let mut v = vec![];
        for (t, e) in self.entries.iter().enumerate() {
            for c in e.codecs() {
                if matches!(c, Codec::VecOwned | Codec::VecRef | Codec::BoxSlice | Codec::JsonReader | Codec::JsonValue) {
                    continue;
                }
                v.push(St { ty: t, codec: c, dev: None });
            }
        }
        v
    }
    fn actions(&self, st: &St) -> Vec<Dev> {
        if st.dev.is_some() {
            return vec![];
        }
        let e = &self.entries[st.ty];
        let mut a = vec![];
        let pts = e.points_of(0);
        for (pos, p) in pts.iter().enumerate() {
            if matches!(st.codec, Codec::Be | Codec::Le) {
                continue;
            }
            for bad in 0..self.bads(p.len()).len() {
                a.push(Dev::BadPoint { pos, bad });
            }
            if p[0] & 0x40 == 0 {
                a.push(Dev::TorsionPoint { pos });
                a.push(Dev::NeighbourPoint { pos });
            }
            if st.codec == Codec::Json {
                for kind in 0..4u8 {
                    a.push(Dev::JsonHex { pos, kind });
                }
                for bytes in 0..p.len() {
                    a.push(Dev::JsonPrefix { pos, bytes, identity: false });
                    if bytes >= 1 && (bytes <= 3 || bytes % 16 == 0 || bytes + 2 >= p.len()) {
                        a.push(Dev::JsonPrefix { pos, bytes, identity: true });
                    }
                }
            }
        }
        for (pos, _) in e.scalars_of(0).iter().enumerate() {
            for bad in 0..self.bad_sc.len() {
                a.push(Dev::BadScalar { pos, bad });
            }
        }
        if let Ok(enc) = e.encode(0, st.codec) {
            for l in 0..enc.len() {
                a.push(Dev::Truncate(l));
            }
            a.push(Dev::Extend(0, 1));
            a.push(Dev::Extend(0xFF, 1));
            if e.fixed() && !matches!(st.codec, Codec::Json | Codec::Bare) {
                // exact-length types: every other length up to the size of the largest encoding and a bit more,
                // filled with zeros and with a copy of the valid encoding's own bytes
                for n in 2..=100usize {
                    a.push(Dev::Extend(0, n));
                    a.push(Dev::Extend(1, n));
                }
            }
        }
        a
    }
    fn step(&self, st: &St, a: &Dev) -> Option<St> {
        Some(St { ty: st.ty, codec: st.codec, dev: Some(a.clone()) })
    }
    fn describe(&self, st: &St) -> String {
        let e = &self.entries[st.ty];
        let d = match &st.dev {
            Some(Dev::BadPoint { pos, bad }) => {
                let p = &e.points_of(0)[*pos];
                format!("point #{} := {}", pos, self.bads(p.len())[*bad].label)
            }
            Some(Dev::TorsionPoint { pos }) => format!("point #{} := itself + a point outside the subgroup", pos),
            Some(Dev::NeighbourPoint { pos }) => format!("point #{} := a neighbour sharing all but its last bytes, on the curve, outside the subgroup", pos),
            Some(Dev::BadScalar { pos, bad }) => format!("scalar #{} := {}", pos, self.bad_sc[*bad].label),
            Some(d) => format!("{:?}", d),
            None => "valid encoding".into(),
        };
        format!("{} via {:?}: {}", e.name(), st.codec, d)
    }
    fn required_outcomes(&self) -> Vec<String> {
        vec!["valid:decodes".into(), "bad-point:rejected".into(), "truncated:rejected".into(), "container:bad-payload-use-is-error".into(), "zero-scalar:rejected".into()]
    }
    fn check(&self, st: &St, o: &mut Obs) {
        let e = &self.entries[st.ty];
        let tn = e.name();
        let c = st.codec;
        o.nontrivial = true;
        let enc = match e.encode(0, c) {
            Ok(x) => x,
            Err(er) => {
                o.expect(&format!("C16:encode:{}:{:?}", tn, c), false, "Ok", &er);
                return;
            }
        };
        let mut input = enc.clone();
        let mut cls = "valid".to_string();
        let mut bad_payload_expected = false;
        let mut must_reject = false;
        let mut zero_scalar = false;
        let mut noncanonical_scalar = false;
        match &st.dev {
            None => {}
            Some(Dev::BadPoint { pos, bad }) => {
                let p = &e.points_of(0)[*pos];
                let b = &self.bads(p.len())[*bad];
                cls = format!("bad-point:{}", b.class);
                match substitute(&enc, c, p, &b.bytes, false) {
                    Some(x) => input = x,
                    None => {
                        // layout changed so that the component cannot be located: machinery problem, not a verdict
                        panic!("cannot locate point #{} in the {:?} encoding of {}", pos, c, tn);
                    }
                }
                bad_payload_expected = true;
            }
            Some(Dev::NeighbourPoint { pos }) => {
                let p = &e.points_of(0)[*pos];
                let Some(t) = neighbour_outside_subgroup(p) else {
                    // the identity and other special encodings have no such neighbour
                    return;
                };
                cls = "bad-point:neighbour-of-honest".into();
                match substitute(&enc, c, p, &t, false) {
                    Some(x) => input = x,
                    None => panic!("cannot locate point #{} in the {:?} encoding of {}", pos, c, tn),
                }
                bad_payload_expected = true;
            }
            Some(Dev::TorsionPoint { pos }) => {
                let p = &e.points_of(0)[*pos];
                let t = rf::torsion_perturbed(p).expect("torsion perturbation");
                cls = "bad-point:honest-plus-torsion".into();
                match substitute(&enc, c, p, &t, false) {
                    Some(x) => input = x,
                    None => panic!("cannot locate point #{} in the {:?} encoding of {}", pos, c, tn),
                }
                bad_payload_expected = true;
            }
            Some(Dev::JsonHex { pos, kind }) => {
                let p = &e.points_of(0)[*pos];
                let hx = hex::encode(p);
                let with = match kind {
                    0 => hx[..hx.len() - 2].to_string(),
                    1 => format!("{}00", hx),
                    2 => hx[..hx.len() - 1].to_string(),
                    _ => format!("zz{}", &hx[2..]),
                };
                cls = format!("json-hex:{}", ["short", "long", "odd", "non-hex"][*kind as usize]);
                let txt = String::from_utf8(enc.clone()).unwrap();
                if !txt.contains(&hx) {
                    panic!("cannot locate point #{} in the JSON encoding of {}", pos, tn);
                }
                input = txt.replacen(&hx, &with, 1).into_bytes();
                must_reject = true;
            }
            Some(Dev::JsonPrefix { pos, bytes, identity }) => {
                let p = &e.points_of(0)[*pos];
                let hx = hex::encode(p);
                let mut idb = vec![0u8; p.len()];
                idb[0] = 0xc0;
                let with = if *identity { hex::encode(&idb[..*bytes]) } else { hx[..2 * bytes].to_string() };
                cls = format!("json-hex:{}", if *identity { "identity-prefix" } else { "prefix" });
                let txt = String::from_utf8(enc.clone()).unwrap();
                if !txt.contains(&hx) {
                    panic!("cannot locate point #{} in the JSON encoding of {}", pos, tn);
                }
                input = txt.replacen(&hx, &with, 1).into_bytes();
                must_reject = true;
            }
            Some(Dev::BadScalar { pos, bad }) => {
                let s = &e.scalars_of(0)[*pos];
                let b = &self.bad_sc[*bad];
                cls = format!("bad-scalar:{}", b.class);
                let le = c == Codec::Le;
                let sub = substitute(&enc, c, s, &b.bytes, le).or_else(|| substitute(&enc, c, s, &b.bytes, !le));
                match sub {
                    Some(x) => input = x,
                    None => panic!("cannot locate scalar #{} in the {:?} encoding of {}", pos, c, tn),
                }
                zero_scalar = b.class == "zero";
                noncanonical_scalar = !zero_scalar;
            }
            Some(Dev::Truncate(l)) => {
                input.truncate(*l);
                cls = "truncated".into();
                must_reject = true;
            }
            Some(Dev::Extend(b, n)) => {
                for i in 0..*n {
                    // b == 1: repeat the encoding's own bytes (so an appended valid point is tried too)
                    input.push(if *b == 1 { enc[i % enc.len()] } else { *b });
                }
                cls = "extended".into();
                // trailing bytes after a complete serde_bare / JSON document are the format crate's business
                // (a Deserialize impl never sees the end of input): judged for the library's own byte imports only
                must_reject = e.fixed() && !matches!(c, Codec::Json | Codec::Bare);
            }
        }
        let dec = e.decode(c, &input);
        o.calls(1);
        let v = match dec {
            Err(p) => {
                o.outcome("decode:panic");
                o.expect(&format!("C16:decode-panics:{}:{:?}:{}", tn, c, cls), false, "returns", &p);
                return;
            }
            Ok(Err(_)) => {
                o.record("dec", b"err");
                match st.dev {
                    None => {
                        o.outcome("valid:rejected");
                        o.expect(&format!("C16:valid-encoding-decodes:{}:{:?}", tn, c), false, "Ok", "Err");
                    }
                    Some(Dev::BadPoint { .. }) | Some(Dev::TorsionPoint { .. }) | Some(Dev::NeighbourPoint { .. }) => o.outcome("bad-point:rejected"),
                    Some(Dev::Truncate(_)) => o.outcome("truncated:rejected"),
                    Some(Dev::BadScalar { .. }) => o.outcome(if zero_scalar { "zero-scalar:rejected" } else { "noncanonical-scalar:rejected" }),
                    _ => o.outcome("other:rejected"),
                }
                return;
            }
            Ok(Ok(v)) => v,
        };
        o.record("dec", b"ok");
        if st.dev.is_none() {
            o.outcome("valid:decodes");
            return;
        }
        let key = format!("C16:{}:{:?}:{}", tn, c, cls);
        if must_reject {
            o.outcome(&format!("{}:accepted", cls.split(':').next().unwrap()));
            o.expect(&key, false, "Err", "decoded");
            return;
        }
        if matches!(st.dev, Some(Dev::Extend(..))) {
            o.outcome("extended:accepted-by-variable-length-type");
            o.note(format!("{} via {:?} accepts one trailing byte", tn, c));
            return;
        }
        if zero_scalar || noncanonical_scalar {
            let byte_import = !matches!(c, Codec::Bare | Codec::Json);
            let is_key_type = tn.starts_with("SecretKey<") || tn.starts_with("ProofCommitmentSecret") || tn.starts_with("ProofCommitmentChallenge") || tn == "SecretKeyEnum";
            // whatever the bytes were: a key, commitment secret or challenge imported from bytes is never zero
            let decoded_zero = v.scalars().iter().any(|sc| sc.iter().all(|b| *b == 0));
            if byte_import && is_key_type && (zero_scalar || decoded_zero) {
                o.outcome("zero-scalar:accepted");
                o.expect(&key, false, "Err (zero key imported from bytes)", if decoded_zero { "decoded to the zero scalar" } else { "decoded" });
            } else {
                // serde acceptance of a zero scalar / reduction of a non canonical one is recorded, not judged
                o.outcome(if zero_scalar { "zero-scalar:accepted-by-serde" } else { "noncanonical-scalar:accepted" });
                o.note(format!("{} via {:?} accepts scalar {}", tn, c, cls));
            }
            return;
        }
        if bad_payload_expected {
            if e.is_share_container() {
                // containers hold unparsed bytes: validated when used
                let used = v.use_container();
                // a second attempt with the very same value must not fare better than the first
                let again = v.use_container();
                o.calls(6);
                if let (Ok(Some(false)), Ok(Some(true))) = (&used, &again) {
                    o.outcome("container:bad-payload-used-on-second-attempt");
                    o.expect(&format!("{}:use-repeated", key), false, "Err from every operation that uses the payload, every time", "an operation succeeded on the second attempt");
                }
                match used {
                    Err(p) => {
                        o.outcome("container:use-panics");
                        o.expect(&format!("{}:use-panics", key), false, "returns", &p);
                    }
                    Ok(Some(ok)) => {
                        o.outcome(if ok { "container:bad-payload-used" } else { "container:bad-payload-use-is-error" });
                        o.expect(&format!("{}:use", key), !ok, "Err from every operation that uses the payload", "an operation succeeded");
                    }
                    Ok(None) => {}
                }
                return;
            }
            // a value was returned: every point in it must be a valid subgroup point
            let all_valid = v.points().iter().all(|p| valid_point(p));
            o.outcome(if all_valid { "bad-point:decoded-to-valid-points" } else { "bad-point:accepted" });
            o.expect(&key, all_valid, "Err, or a value whose points are all on the curve and in the subgroup", "a value holding an invalid point");
        }
    }
}

// ---- share payloads whose bad component is annihilated by the recombination itself ---------------------------
//
// A payload "honest point + T" with T of small prime order q (q divides the cofactor) at the identifier whose Lagrange
// coefficient is q: the recombined value is exactly the honest one, so a subgroup check on the result alone sees nothing.
// The property demands an error because a payload is not a subgroup point.

#[derive(Copy, Clone, Debug, PartialEq, Eq, Hash, Serialize, Deserialize)]
pub struct LSt {
    /// 0 SignatureShare (Basic), 1 SignatureShare (ProofOfPossession), 2 PublicKeyShare, 3 SignDecryptionShare, 4 ElGamalDecryptionShare,
    /// 5 trait core_combine_signature_shares, 6 trait core_combine_public_key_shares
    kind: u8,
    q: u32,
    /// false: the honest pair (control, must recombine)
    bad: bool,
}

pub struct M16L<C: Suite> {
    _c: std::marker::PhantomData<C>,
}

impl<C: Suite> Model for M16L<C> {
    type State = Option<LSt>;
    type Action = LSt;
    fn name(&self) -> String {
        format!("c16-annihilated-small-order-payload/{}", C::G)
    }
    fn init(&self) -> Vec<Option<LSt>> {
        vec![None]
    }
    fn actions(&self, st: &Option<LSt>) -> Vec<LSt> {
        if st.is_some() {
            return vec![];
        }
        let mut v = vec![];
        let sig_len = <C::R as rf::RefSuite>::SIG_LEN;
        for kind in 0..7u8 {
            let len = if matches!(kind, 0 | 1 | 5) { sig_len } else { 144 - sig_len };
            for q in if len == 48 { [3u32, 11] } else { [13u32, 23] } {
                for bad in [false, true] {
                    v.push(LSt { kind, q, bad });
                }
            }
        }
        v
    }
    fn step(&self, _s: &Option<LSt>, a: &LSt) -> Option<Option<LSt>> {
        Some(Some(*a))
    }
    fn describe(&self, st: &Option<LSt>) -> String {
        match st {
            None => "root".into(),
            Some(s) => format!(
                "{} recombination kind {} of the shares with identifiers {} and {}{}",
                C::G,
                ["SignatureShare/Basic", "SignatureShare/ProofOfPossession", "PublicKeyShare", "SignDecryptionShare", "ElGamalDecryptionShare", "core_combine_signature_shares", "core_combine_public_key_shares"][s.kind as usize],
                s.q - 1,
                s.q,
                if s.bad { format!(", the first payload plus a point of order {}", s.q) } else { " (honest)".into() }
            ),
        }
    }
    fn required_outcomes(&self) -> Vec<String> {
        vec!["annihilated:honest-recombines".into(), "annihilated:bad-payload-is-error".into()]
    }
    fn check(&self, st: &Option<LSt>, o: &mut Obs) {
        use blsful::vsss_rs::Share;
        use rand_core::SeedableRng;
        let Some(st) = st else { return };
        o.nontrivial = true;
        let g = C::G;
        let q = st.q as usize;
        let sk = SecretKey::<C>::from_hash(b"c16 annihilated payload");
        let pk = sk.public_key();
        let msg = b"c16 message".to_vec();
        let shares = sk.split_with_rng(2, q, rand_chacha::ChaCha20Rng::from_seed([16u8; 32])).expect("split");
        let pair: Vec<&SecretKeyShare<C>> = shares.iter().filter(|s| s.0.identifier() as usize == q - 1 || s.0.identifier() as usize == q).collect();
        assert_eq!(pair.len(), 2);
        let perturb = |payload: &[u8]| -> Vec<u8> {
            if st.bad {
                rf::small_order_perturbed(payload, st.q).expect("a point of small order")
            } else {
                payload.to_vec()
            }
        };
        let sc = pk.sign_crypt(SignatureSchemes::Basic, &msg);
        let eg = pk.encrypt_key_el_gamal(&sk).expect("elgamal");
        // Ok(true) = recombined to the honest value, Ok(false) = recombined to something else, Err = refused
        let r: Result<Result<bool, String>, String> = guard(|| match st.kind {
            0 | 1 | 5 => {
                let scheme = if st.kind == 1 { SignatureSchemes::ProofOfPossession } else { SignatureSchemes::Basic };
                let whole = sk.sign(scheme, &msg).unwrap();
                let mut parts: Vec<SignatureShare<C>> = pair.iter().map(|s| s.sign(scheme, &msg).unwrap()).collect();
                let raw0 = *parts[0].as_raw_value();
                let bad = raw_sig_share::<C>(raw0.identifier(), &perturb(&raw0.value_vec()));
                parts[0] = match scheme {
                    SignatureSchemes::Basic => SignatureShare::Basic(bad),
                    _ => SignatureShare::ProofOfPossession(bad),
                };
                if st.kind == 5 {
                    let raws: Vec<_> = parts.iter().map(|p| *p.as_raw_value()).collect();
                    <C as BlsSignatureCore>::core_combine_signature_shares(&raws).map(|x| x == *whole.as_raw_value()).map_err(|e| e.to_string())
                } else {
                    Signature::<C>::from_shares(&parts).map(|x| x == whole).map_err(|e| e.to_string())
                }
            }
            2 | 6 => {
                let mut parts: Vec<PublicKeyShare<C>> = pair.iter().map(|s| s.public_key().unwrap()).collect();
                parts[0] = PublicKeyShare(raw_pk_share::<C>(parts[0].0.identifier(), &perturb(&parts[0].0.value_vec())));
                if st.kind == 6 {
                    let raws: Vec<_> = parts.iter().map(|p| p.0).collect();
                    <C as BlsSignatureCore>::core_combine_public_key_shares(&raws).map(|x| x == pk.0).map_err(|e| e.to_string())
                } else {
                    PublicKey::<C>::from_shares(&parts).map(|x| x == pk).map_err(|e| e.to_string())
                }
            }
            3 => {
                let mut parts: Vec<SignDecryptionShare<C>> = pair.iter().map(|s| sc.create_decryption_share(s).unwrap()).collect();
                parts[0] = SignDecryptionShare(raw_pk_share::<C>(parts[0].0.identifier(), &perturb(&parts[0].0.value_vec())));
                SignCryptDecryptionKey::<C>::from_shares(&parts).map(|k| Option::<Vec<u8>>::from(k.decrypt(&sc)).as_deref() == Some(msg.as_slice())).map_err(|e| e.to_string())
            }
            _ => {
                let mut parts: Vec<ElGamalDecryptionShare<C>> = pair.iter().map(|s| ElGamalDecryptionShare(<C as BlsSignatureCore>::public_key_share_with_generator(&s.0, eg.c1).unwrap())).collect();
                parts[0] = ElGamalDecryptionShare(raw_pk_share::<C>(parts[0].0.identifier(), &perturb(&parts[0].0.value_vec())));
                let want = eg.decrypt(&sk);
                ElGamalDecryptionKey::<C>::from_shares(&parts).map(|k| k.decrypt(&eg) == want).map_err(|e| e.to_string())
            }
        });
        o.calls(1);
        let key = format!("C16:annihilated-small-order-payload:{}:kind{}:q{}", g, st.kind, st.q);
        match (st.bad, r) {
            (_, Err(p)) => o.expect(&format!("{}:panic", key), false, "returns", &p),
            (false, Ok(r)) => {
                o.outcome(if r == Ok(true) { "annihilated:honest-recombines" } else { "annihilated:honest-fails" });
                o.expect(&format!("{}:honest-control", key), r == Ok(true), "the whole key value", &format!("{:?}", r));
            }
            (true, Ok(r)) => {
                o.outcome(if r.is_err() { "annihilated:bad-payload-is-error" } else { "annihilated:bad-payload-recombines" });
                o.expect(&key, r.is_err(), "Err (a payload is not a subgroup point)", &format!("{:?}", r));
            }
        }
    }
}

// ---- one bad payload inside a large share set ---------------------------------------------------------------

#[derive(Copy, Clone, Debug, PartialEq, Eq, Hash, Serialize, Deserialize)]
pub struct BSt {
    /// 0 SignatureShare, 1 PublicKeyShare, 2 SignDecryptionShare, 3 ElGamalDecryptionShare, 4 trait combine signature shares,
    /// 5 trait combine public key shares
    kind: u8,
    n: usize,
    /// position of the payload that is not a subgroup point (from the end when `from_end`)
    pos: usize,
    from_end: bool,
}

pub struct M16Big<C: Suite> {
    _c: std::marker::PhantomData<C>,
}

impl<C: Suite> Model for M16Big<C> {
    type State = Option<BSt>;
    type Action = BSt;
    fn name(&self) -> String {
        format!("c16-bad-payload-in-a-large-share-set/{}", C::G)
    }
    fn init(&self) -> Vec<Option<BSt>> {
        vec![None]
    }
    fn actions(&self, st: &Option<BSt>) -> Vec<BSt> {
        if st.is_some() {
            return vec![];
        }
        let mut v = vec![];
        // kinds 6..=9: instead of a point outside the subgroup, an ENTIRELY zero container (identifier 0, zero payload: an
        // unfilled slot) is inserted into a signature share list of scheme Basic / MessageAugmentation / ProofOfPossession,
        // or a public key share list - a zero payload is not a point encoding
        // (shares cannot sign under MessageAugmentation, so that list cannot be made: kind 7 is left out)
        for kind in (0..10u8).filter(|k| *k != 7) {
            // sizes around the block sizes of batched / parallel validation (4, 8, 64, 128) and the identifier limit
            for n in [5usize, 9, 64, 65, 128, 131, 255] {
                for (pos, from_end) in [(0usize, false), (1, false), (n / 2, false), (2, true), (1, true), (0, true)] {
                    v.push(BSt { kind, n, pos, from_end });
                }
            }
        }
        v
    }
    fn step(&self, _s: &Option<BSt>, a: &BSt) -> Option<Option<BSt>> {
        Some(Some(*a))
    }
    fn describe(&self, st: &Option<BSt>) -> String {
        format!("{} recombination of a share set with one payload outside the subgroup: {:?}", C::G, st)
    }
    fn required_outcomes(&self) -> Vec<String> {
        vec!["large-set:bad-payload-is-error".into()]
    }
    fn check(&self, st: &Option<BSt>, o: &mut Obs) {
        use blsful::vsss_rs::Share;
        use rand_core::SeedableRng;
        let Some(st) = st else { return };
        o.nontrivial = true;
        let g = C::G;
        let sk = SecretKey::<C>::from_hash(b"c16 large share set");
        let pk = sk.public_key();
        let msg = b"c16 message".to_vec();
        let shares = sk.split_with_rng(2, st.n, rand_chacha::ChaCha20Rng::from_seed([17u8; 32])).expect("split");
        let at = if st.from_end { st.n - 1 - st.pos } else { st.pos };
        let bad = |payload: Vec<u8>| rf::torsion_perturbed(&payload).expect("a point outside the subgroup");
        let sc = pk.sign_crypt(SignatureSchemes::Basic, &msg);
        let eg = pk.encrypt_key_el_gamal(&sk).expect("elgamal");
        let r: Result<Result<(), String>, String> = guard(|| match st.kind {
            6 | 7 | 8 => {
                let scheme = [SignatureSchemes::Basic, SignatureSchemes::MessageAugmentation, SignatureSchemes::ProofOfPossession][st.kind as usize - 6];
                let mut parts: Vec<SignatureShare<C>> = shares.iter().map(|s| s.sign(scheme, &msg).unwrap()).collect();
                let len = parts[0].as_raw_value().value_vec().len();
                let raw = <C as Pairing>::SignatureShare::empty_share_with_capacity(len);
                parts.insert(
                    at,
                    match st.kind {
                        6 => SignatureShare::Basic(raw),
                        7 => SignatureShare::MessageAugmentation(raw),
                        _ => SignatureShare::ProofOfPossession(raw),
                    },
                );
                Signature::<C>::from_shares(&parts).map(|_| ()).map_err(|e| e.to_string())
            }
            9 => {
                let mut parts: Vec<PublicKeyShare<C>> = shares.iter().map(|s| s.public_key().unwrap()).collect();
                let len = parts[0].0.value_vec().len();
                parts.insert(at, PublicKeyShare(<C as Pairing>::PublicKeyShare::empty_share_with_capacity(len)));
                PublicKey::<C>::from_shares(&parts).map(|_| ()).map_err(|e| e.to_string())
            }
            0 | 4 => {
                let mut parts: Vec<SignatureShare<C>> = shares.iter().map(|s| s.sign(SignatureSchemes::Basic, &msg).unwrap()).collect();
                let raw = *parts[at].as_raw_value();
                parts[at] = SignatureShare::Basic(raw_sig_share::<C>(raw.identifier(), &bad(raw.value_vec())));
                if st.kind == 4 {
                    let raws: Vec<_> = parts.iter().map(|p| *p.as_raw_value()).collect();
                    <C as BlsSignatureCore>::core_combine_signature_shares(&raws).map(|_| ()).map_err(|e| e.to_string())
                } else {
                    Signature::<C>::from_shares(&parts).map(|_| ()).map_err(|e| e.to_string())
                }
            }
            1 | 5 => {
                let mut parts: Vec<PublicKeyShare<C>> = shares.iter().map(|s| s.public_key().unwrap()).collect();
                parts[at] = PublicKeyShare(raw_pk_share::<C>(parts[at].0.identifier(), &bad(parts[at].0.value_vec())));
                if st.kind == 5 {
                    let raws: Vec<_> = parts.iter().map(|p| p.0).collect();
                    <C as BlsSignatureCore>::core_combine_public_key_shares(&raws).map(|_| ()).map_err(|e| e.to_string())
                } else {
                    PublicKey::<C>::from_shares(&parts).map(|_| ()).map_err(|e| e.to_string())
                }
            }
            2 => {
                let mut parts: Vec<SignDecryptionShare<C>> = shares.iter().map(|s| sc.create_decryption_share(s).unwrap()).collect();
                parts[at] = SignDecryptionShare(raw_pk_share::<C>(parts[at].0.identifier(), &bad(parts[at].0.value_vec())));
                SignCryptDecryptionKey::<C>::from_shares(&parts).map(|_| ()).map_err(|e| e.to_string())
            }
            _ => {
                let mut parts: Vec<ElGamalDecryptionShare<C>> = shares.iter().map(|s| ElGamalDecryptionShare(<C as BlsSignatureCore>::public_key_share_with_generator(&s.0, eg.c1).unwrap())).collect();
                parts[at] = ElGamalDecryptionShare(raw_pk_share::<C>(parts[at].0.identifier(), &bad(parts[at].0.value_vec())));
                ElGamalDecryptionKey::<C>::from_shares(&parts).map(|_| ()).map_err(|e| e.to_string())
            }
        });
        o.calls(1);
        let key = format!("C16:bad-payload-in-a-large-share-set:{}:kind{}:n{}:{}", g, st.kind, if st.n >= 128 { ">=128" } else if st.n >= 64 { ">=64" } else { "<64" }, if st.from_end { "tail" } else { "head" });
        match r {
            Err(p) => o.expect(&format!("{}:panic", key), false, "returns", &p),
            Ok(r) => {
                o.outcome(if r.is_err() { "large-set:bad-payload-is-error" } else { "large-set:bad-payload-recombines" });
                o.expect(&key, r.is_err(), "Err (a payload is not a subgroup point)", "Ok");
            }
        }
    }
}

pub fn models(tier: Tier, seed: u64) -> Vec<Box<dyn DynModel>> {
    vec![
        bounded(M16Big::<Bls12381G1Impl> { _c: std::marker::PhantomData }, 1),
        bounded(M16Big::<Bls12381G2Impl> { _c: std::marker::PhantomData }, 1),
        bounded(M16::new(tier, seed), 1),
        bounded(M16L::<Bls12381G1Impl> { _c: std::marker::PhantomData }, 1),
        bounded(M16L::<Bls12381G2Impl> { _c: std::marker::PhantomData }, 1),
    ]
}

pub fn describe(tier: Tier, r: &mut Report) {
    r.rule = "initial states = valid encoding of every registered type x decoder in {TryFrom<&[u8]>, serde_bare, serde_json, be/le} (must decode); one action replaces one point (located by searching the encoding for the component's bytes / hex, so layout changes cannot desynchronise the harness) by a bad encoding: on-curve points outside the subgroup enumerated from small x with both signs, x without a curve point, cleared compression bit, infinity bit with non-zero x, infinity with sort bit, x >= p; or one scalar by 0 / r / r+1 / 2r / all ones; or truncates to every length; or extends by one byte; or breaks the JSON hex string (short / long / odd / non-hex). Oracle: Err, or every point of the returned value validated by the reference (on curve, torsion free); share containers with a bad payload must fail in every operation that uses them; every use of a container with a bad payload is attempted twice and the second attempt must fail as well".into();
    r.deviation_bound_completed = "1".into();
    r.alphabet.insert("small_x_limit".into(), serde_json::json!(if tier.thorough() { 120 } else { 40 }));
    r.assumptions = vec!["serde acceptance of a zero scalar and of scalars >= r is recorded, not judged (the property words the zero clause for byte import)".into(), "extension by one byte is judged only for exact-length types and only for the library's own byte imports (TryFrom<&[u8]>, from_be/le_bytes): serde_bare::from_slice ignores bytes after a complete value by design".into()];
}
