//! C13 - time-lock ciphertexts open only with the signature over their identifier.
use crate::common::*;
use crate::engine::*;
use crate::props::c11::lens_for;
use crate::refmodel::{self as rf, RefSuite, Scheme, SCHEMES};
use blsful::vsss_rs::Share;
use blsful::*;
use rand_core::SeedableRng;
use serde::{Deserialize, Serialize};
use std::marker::PhantomData;

#[derive(Copy, Clone, Debug, PartialEq, Eq, Hash, Serialize, Deserialize)]
pub enum Dev {
    Transport(Codec),
    /// signature recombined from the shares of split #i selected by the bit mask
    Shares(usize, u32),
    WrongId,
    WrongKey,
    OtherScheme(Scheme),
    IdentitySig,
    BitFlip(usize),
    TruncW(usize),
    ExtW(u8),
    Label(Scheme),
    UAddG,
    UIdentity,
    /// two compensating changes: u := u * a^-1 and signature := signature * a (a = -1, 2, 3), so that the pairing
    /// e(signature, u) and with it every derived value is the honest one; only the final check on u can refuse
    Compensated(u8),
    /// u plus a point outside the prime order subgroup, presented through a decoder
    UAddTorsion(Codec),
    /// the leading bytes of w rewritten (the plaintext is known) so that they unmask to another length prefix: index
    /// into `crafted_prefixes`
    CraftedPrefix(u8),
    /// the payload rewritten (the plaintext is known) so that it frames another message derived from the original:
    /// 0 = SHA-256(M), 1 = M reversed, 2 = SHA-256(SHA-256(M)), 3 = the first 32 bytes of M, 4 = alpha-independent zeros
    CraftedMessage(u8),
}

#[derive(Clone, Debug, PartialEq, Eq, Hash, Serialize, Deserialize)]
pub struct St {
    s: Scheme,
    k: usize,
    len: usize,
    id: usize,
    base: bool,
    dev: Option<Dev>,
}

pub struct M13<C: Suite> {
    seed: u64,
    sks: Vec<SecretKey<C>>,
    lens: Vec<usize>,
    base_lens: Vec<usize>,
    ids: Vec<Vec<u8>>,
    splits: Vec<(usize, usize)>,
    _c: PhantomData<C>,
}

/// length prefixes an attacker who knows the plaintext can plant: arithmetic edge values of the announced length
fn crafted_prefixes(len: usize) -> Vec<Vec<u8>> {
    let mut v: Vec<Vec<u8>> = [u64::MAX as u128, (u64::MAX - 9) as u128, (u64::MAX - 10) as u128, 1u128 << 63, (1u128 << 63) - 1, 1u128 << 32, (1u128 << 64) + 5, len as u128 + 1, (len as u128).saturating_sub(1), 0]
        .iter()
        .map(|n| rf::leb128(*n))
        .collect();
    v.push(vec![0xff; 10]);
    v.push(vec![0xff; 16]);
    v.push(vec![0x80, 0x00]);
    v
}

impl<C: Suite> M13<C> {
    pub fn new(tier: Tier, seed: u64) -> Self {
        let ka = key_alphabet(seed, false);
        let sks = [3usize, 2, 4].iter().map(|i| sk_from_be::<C>(&ka.be[*i]).unwrap()).collect();
        M13 {
            seed,
            sks,
            lens: lens_for(tier),
            base_lens: crate::props::c11::base_lens(tier),
            ids: vec![vec![], b"id".to_vec(), data(seed, "c13-id", 64)],
            splits: vec![(2, 3), (3, 5)],
            _c: PhantomData,
        }
    }
    fn seal(&self, st: &St) -> (TimeCryptCiphertext<C>, Vec<u8>) {
        let msg = msg_of(self.seed, st.len, 3);
        let ent = entropy_stream(self.seed, &format!("c13-{}-{}-{}-{}", st.s.name(), st.k, st.len, st.id), 1);
        let pk = self.sks[st.k].public_key();
        let ct = with_env(ent, None, || pk.encrypt_time_lock(lib_scheme(st.s), &msg, &self.ident(st.k, st.id))).expect("encrypt_time_lock panicked").expect("encrypt_time_lock");
        (ct, msg)
    }
    /// identifier alphabet: the fixed ones, then identifiers built from the recipient's public key bytes
    fn ident(&self, k: usize, i: usize) -> Vec<u8> {
        if i < self.ids.len() {
            return self.ids[i].clone();
        }
        special_message(&Vec::<u8>::from(&self.sks[k].public_key()), i - self.ids.len())
    }
    fn shares(&self, st: &St, i: usize) -> Vec<SecretKeyShare<C>> {
        let (t, n) = self.splits[i];
        self.sks[st.k].split_with_rng(t, n, rand_chacha::ChaCha20Rng::from_seed(data32(self.seed, &format!("c13-split-{}", i)))).unwrap()
    }
}

impl<C: Suite> Model for M13<C> {
    type State = St;
    type Action = Dev;
    fn name(&self) -> String {
        format!("c13-timelock/{}", C::G)
    }
    fn init(&self) -> Vec<St> {
        let mut v = vec![];
        for s in SCHEMES {
            let base = &self.base_lens;
            for k in 0..2 {
                for &len in &self.lens {
                    for id in 0..self.ids.len() + SPECIAL_MESSAGES.len() {
                        // lengths only the dense band contributes: first key, first two identifiers
                        if !base.contains(&len) && (k != 0 || id >= 2) {
                            continue;
                        }
                        if id >= self.ids.len() && !(len == 33 || len == 0) {
                            continue;
                        }
                        v.push(St { s, k, len, id, base: false, dev: None });
                    }
                }
            }
            for len in [5usize, 33, 65536] {
                v.push(St { s, k: 0, len, id: 1, base: true, dev: None });
            }
        }
        v
    }
    fn actions(&self, st: &St) -> Vec<Dev> {
        if st.dev.is_some() {
            return vec![];
        }
        let mut a = vec![];
        if !st.base {
            if st.len == 33 || st.len == 32 {
                for c in [Codec::Bytes, Codec::Bare, Codec::Json] {
                    a.push(Dev::Transport(c));
                }
                a.extend([Dev::WrongId, Dev::WrongKey, Dev::IdentitySig]);
                for o in SCHEMES {
                    if o != st.s {
                        a.push(Dev::OtherScheme(o));
                    }
                }
                if st.s != Scheme::Aug && st.k == 0 {
                    for (i, (_, n)) in self.splits.iter().enumerate() {
                        for mask in 1u32..(1 << n) {
                            if mask.count_ones() >= 2 {
                                a.push(Dev::Shares(i, mask));
                            }
                        }
                    }
                }
            }
            return a;
        }
        let (ct, _) = self.seal(st);
        let ser = Vec::<u8>::from(&ct);
        if st.len > 1000 {
            // 64 KiB base: selected byte positions (header, both ends and the middle of w, offsets around 2^16)
            let ulen = pt(&ct.u).len();
            let ws = ser.len() - 1 - ct.w.len();
            let we = ser.len() - 1;
            let mut bytes: Vec<usize> = vec![0, ulen - 1, ulen, ulen + 31, ws - 1, ws, ws + 1, ws + 2, ws + 3, ws + 4, (ws + we) / 2, we - 2, we - 1, we];
            for off in [65535usize, 65536, 65537, 32768, 16384] {
                if ws + off < we {
                    bytes.push(ws + off);
                    bytes.push(ws + off - 1);
                }
            }
            bytes.sort();
            bytes.dedup();
            for b in bytes {
                a.push(Dev::BitFlip(b * 8));
                a.push(Dev::BitFlip(b * 8 + 7));
            }
            let n = ct.w.len();
            for l in [0, 1, n / 2, n - 17, n - 2, n - 1] {
                a.push(Dev::TruncW(l));
            }
        } else {
            for i in 0..ser.len() * 8 {
                a.push(Dev::BitFlip(i));
            }
            for l in 0..ct.w.len() {
                a.push(Dev::TruncW(l));
            }
        }
        a.push(Dev::ExtW(0));
        a.push(Dev::ExtW(0xFF));
        for l in SCHEMES {
            if l != st.s {
                a.push(Dev::Label(l));
            }
        }
        a.push(Dev::UAddG);
        a.push(Dev::UIdentity);
        for c in 0..3u8 {
            a.push(Dev::Compensated(c));
        }
        if st.len <= 1000 {
            for c in DECODERS {
                a.push(Dev::UAddTorsion(c));
            }
        }
        if st.len >= 16 {
            for i in 0..crafted_prefixes(st.len).len() as u8 {
                a.push(Dev::CraftedPrefix(i));
            }
        }
        if st.len >= 32 && st.len <= 1000 {
            for i in 0..5u8 {
                a.push(Dev::CraftedMessage(i));
            }
        }
        a
    }
    fn step(&self, st: &St, a: &Dev) -> Option<St> {
        let mut n = st.clone();
        n.dev = Some(*a);
        Some(n)
    }
    fn describe(&self, st: &St) -> String {
        format!("{} {} key#{} message length {} id#{}: encrypt_time_lock, deviation {:?}, decrypt with the signature over the identifier", C::G, st.s.name(), st.k, st.len, st.id, st.dev)
    }
    fn required_outcomes(&self) -> Vec<String> {
        vec![
            "honest:message".into(),
            "shares-qualified:message".into(),
            "shares-unqualified:nothing".into(),
            "wrong-signature:nothing".into(),
            "mutant:undecodable".into(),
            "mutant:authenticated-region:nothing".into(),
            "mutant:padding:message-or-nothing".into(),
        ]
    }
    fn check(&self, st: &St, o: &mut Obs) {
        let g = C::G;
        o.nontrivial = true;
        let sk = &self.sks[st.k];
        let ls = lib_scheme(st.s);
        let (ct0, msg) = self.seal(st);
        o.calls(1);
        let id = &self.ident(st.k, st.id);
        let mut sig = match guard(|| sk.sign(ls, id)) {
            Ok(Ok(s)) => s,
            r => {
                o.expect(&format!("C13:sign-id:{}", g), false, "Ok", verdict(&r));
                return;
            }
        };
        let mut ct = ct0.clone();
        let mut cls = "honest".to_string();
        let mut expect_msg = true;
        let mut wrong_sig = false;
        let mut shares_case: Option<bool> = None;
        let mut mutant = false;
        if let Some(d) = st.dev {
            cls = format!("{:?}", d).split('(').next().unwrap().to_string();
            match d {
                Dev::Transport(c) => {
                    let r: Result<TimeCryptCiphertext<C>, String> = match c {
                        Codec::Bytes => TimeCryptCiphertext::<C>::try_from(Vec::<u8>::from(&ct0).as_slice()).map_err(|e| e.to_string()),
                        Codec::Bare => via_bare(&ct0),
                        _ => via_json(&ct0),
                    };
                    match r {
                        Ok(x) => {
                            o.expect(&format!("C13:transport-equal:{}:{:?}", g, c), x == ct0, "equal", "differs");
                            ct = x;
                        }
                        Err(e) => {
                            o.expect(&format!("C13:transport:{}:{:?}", g, c), false, "Ok", &e);
                            return;
                        }
                    }
                }
                Dev::Shares(i, mask) => {
                    let (t, _) = self.splits[i];
                    let shares = self.shares(st, i);
                    let parts: Vec<SignatureShare<C>> = shares.iter().enumerate().filter(|(j, _)| mask & (1 << j) != 0).map(|(_, s)| s.sign(ls, id).unwrap()).collect();
                    let qualified = parts.len() >= t;
                    match guard(|| Signature::<C>::from_shares(&parts)) {
                        Ok(Ok(s)) => sig = s,
                        r => {
                            o.expect(&format!("C13:signature-from-shares:{}", g), false, "Ok", verdict(&r));
                            return;
                        }
                    }
                    shares_case = Some(qualified);
                    expect_msg = qualified;
                    let _ = shares[0].0.identifier();
                }
                Dev::WrongId => {
                    // for identifiers that start with the key bytes, the "other" identifier is the part after them
                    let pkb = Vec::<u8>::from(&sk.public_key());
                    let other: Vec<u8> = if id.len() >= pkb.len() && id[..pkb.len()] == pkb[..] { id[pkb.len()..].to_vec() } else { b"another identifier".to_vec() };
                    sig = sk.sign(ls, &other).unwrap();
                    wrong_sig = true;
                }
                Dev::WrongKey => {
                    sig = self.sks[2].sign(ls, id).unwrap();
                    wrong_sig = true;
                }
                Dev::OtherScheme(os) => {
                    sig = sk.sign(lib_scheme(os), id).unwrap();
                    wrong_sig = true;
                }
                Dev::IdentitySig => {
                    sig = mk_sig::<C>(st.s, SgP::<C>::identity());
                    wrong_sig = true;
                }
                Dev::BitFlip(i) => {
                    let mut ser = Vec::<u8>::from(&ct0);
                    ser[i / 8] ^= 0x80 >> (i % 8);
                    match guard(|| TimeCryptCiphertext::<C>::try_from(ser.as_slice())) {
                        Err(p) => {
                            o.expect(&format!("C13:decode-panics:{}", g), false, "returns", &p);
                            return;
                        }
                        Ok(Err(_)) => {
                            o.outcome("mutant:undecodable");
                            return;
                        }
                        Ok(Ok(x)) => ct = x,
                    }
                    mutant = true;
                }
                Dev::TruncW(l) => {
                    ct.w.truncate(l);
                    mutant = true;
                }
                Dev::ExtW(b) => {
                    ct.w.push(b);
                    mutant = true;
                }
                Dev::Label(l) => {
                    ct.scheme = lib_scheme(l);
                    mutant = true;
                }
                Dev::UAddG => {
                    ct.u += PkP::<C>::generator();
                    mutant = true;
                }
                Dev::UIdentity => {
                    ct.u = PkP::<C>::identity();
                    mutant = true;
                }
                Dev::CraftedPrefix(i) => {
                    let planted = &crafted_prefixes(msg.len())[i as usize];
                    let framed = rf::frame(&msg);
                    for (j, b) in planted.iter().enumerate() {
                        ct.w[j] ^= framed[j] ^ b;
                    }
                    mutant = true;
                }
                Dev::CraftedMessage(i) => {
                    use sha2::Digest;
                    let other: Vec<u8> = match i {
                        0 => sha2::Sha256::digest(&msg).to_vec(),
                        1 => msg.iter().rev().cloned().collect(),
                        2 => sha2::Sha256::digest(sha2::Sha256::digest(&msg)).to_vec(),
                        3 => msg[..32].to_vec(),
                        _ => vec![0u8; 32],
                    };
                    let (old, new) = (rf::frame(&msg), rf::frame(&other));
                    for j in 0..new.len().min(ct.w.len()) {
                        ct.w[j] ^= old[j] ^ new[j];
                    }
                    mutant = true;
                }
                Dev::UAddTorsion(c) => {
                    let from = pt(&ct0.u);
                    let to = rf::torsion_perturbed(&from).expect("a point outside the subgroup");
                    match redecode_with_point(&ct0, &from, &to, c) {
                        Ok(x) => ct = x,
                        Err(e) if e == "component-not-found" => {
                            o.expect(&format!("C13:harness-locates-component:{}", g), false, "found", &e);
                            return;
                        }
                        Err(_) => {
                            o.outcome("mutant:undecodable");
                            return;
                        }
                    }
                    mutant = true;
                }
                Dev::Compensated(c) => {
                    use blsful::inner_types::Field;
                    let a = match c {
                        0 => -Sc::<C>::ONE,
                        1 => Sc::<C>::ONE + Sc::<C>::ONE,
                        _ => Sc::<C>::ONE + Sc::<C>::ONE + Sc::<C>::ONE,
                    };
                    ct.u *= Option::<Sc<C>>::from(a.invert()).expect("non-zero");
                    sig = mk_sig::<C>(sig_scheme(&sig), *sig.as_raw_value() * a);
                    mutant = true;
                }
            }
            if wrong_sig {
                expect_msg = false;
            }
        }
        let dec = guard(|| Option::<Vec<u8>>::from(ct.decrypt(&sig)));
        o.calls(2);
        let dec = match dec {
            Ok(d) => d,
            Err(p) => {
                o.outcome("panic");
                o.expect(&format!("C13:decrypt-panics:{}:{}:{}", g, st.s.name(), cls), false, "returns", &p);
                return;
            }
        };
        o.record("dec", dec.as_deref().unwrap_or(b"<none>"));
        let key = |what: &str| format!("C13:{}:{}:{}:{}", what, g, st.s.name(), cls);
        // never a different message, whatever was changed
        let other = matches!(&dec, Some(m) if *m != msg);
        o.expect(&key("never-another-message"), !other, "the original message or nothing", "a different message");
        // reference open of exactly this ciphertext with exactly this signature (label mismatch => nothing)
        let label_matches = sig_scheme(&sig) as usize == match ct.scheme {
            SignatureSchemes::Basic => 0,
            SignatureSchemes::MessageAugmentation => 1,
            SignatureSchemes::ProofOfPossession => 2,
        };
        let want = if !label_matches {
            None
        } else {
            match (<C::R as RefSuite>::pk_from(&pt(&ct.u)), <C::R as RefSuite>::sig_from(&pt(sig.as_raw_value()))) {
                (Some(u), Some(sg)) => rf::timelock_open::<C::R>(&u, &ct.v, &ct.w, &sg),
                _ => None,
            }
        };
        o.expect(&key("decrypt-vs-reference"), dec == want, &format!("{:?}", want.as_ref().map(|m| m.len())), &format!("{:?}", dec.as_ref().map(|m| m.len())));
        if mutant {
            if ct == ct0 {
                o.outcome("mutant:equal-value");
                o.expect(&key("equal-value-same-result"), dec.as_ref() == Some(&msg), "unchanged result", "changed");
                return;
            }
            // which region changed?  header (u, v, label) or the authenticated prefix of w => nothing
            let auth_len = rf::leb128(msg.len() as u128).len() + msg.len();
            let header = ct.u != ct0.u || ct.v != ct0.v || ct.scheme != ct0.scheme;
            let k = ct.w.len().min(ct0.w.len()).min(auth_len);
            let auth_changed = ct.w.len() < auth_len || ct.w[..k] != ct0.w[..k];
            if header || auth_changed {
                o.outcome(if dec.is_none() { "mutant:authenticated-region:nothing" } else { "mutant:authenticated-region:something" });
                o.expect(&key("authenticated-region-altered"), dec.is_none(), "nothing", "a message");
            } else {
                o.outcome("mutant:padding:message-or-nothing");
                o.note(format!("padding / trailing bytes altered ({}): {}", cls, if dec.is_some() { "still the message" } else { "nothing" }));
            }
            return;
        }
        if let Some(q) = shares_case {
            let ok = if q { dec.as_ref() == Some(&msg) } else { dec.is_none() };
            o.outcome(if q { if ok { "shares-qualified:message" } else { "shares-qualified:wrong" } } else if ok { "shares-unqualified:nothing" } else { "shares-unqualified:something" });
            o.expect(&key(if q { "recombined-signature-opens" } else { "unqualified-recombination-opens-nothing" }), ok, if q { "the message" } else { "nothing" }, &format!("{:?}", dec.as_ref().map(|m| m.len())));
            return;
        }
        if expect_msg {
            let ok = dec.as_ref() == Some(&msg);
            o.outcome(if ok { "honest:message" } else { "honest:fails" });
            let lc = if st.len <= 40 { "len<=40" } else if st.len <= 140 { "len<=140" } else if st.len < 65535 { "len>=16380" } else if st.len < 2097151 { "len>=65535" } else { "len>=2^21-1" };
            o.expect(&format!("C13:round-trip:{}:{}:{}:{}", g, st.s.name(), cls, lc), ok, "the original message", &format!("{:?}", dec.as_ref().map(|m| m.len())));
        } else {
            o.outcome(if dec.is_none() { "wrong-signature:nothing" } else { "wrong-signature:something" });
            o.expect(&key("wrong-signature"), dec.is_none(), "nothing", "a message");
        }
    }
}

pub fn models(tier: Tier, seed: u64) -> Vec<Box<dyn DynModel>> {
    let mut v: Vec<Box<dyn DynModel>> = vec![bounded(M13::<Bls12381G1Impl>::new(tier, seed), 1), bounded(M13::<Bls12381G2Impl>::new(tier, seed), 1)];
    v.extend(crate::props::tsurf::models("C13", tier, seed));
    v.extend(crate::props::mask::models("C13", seed));
    // ciphertexts that are self-consistent for the pairing value of the identity signature (anybody can build them)
    v.push(bounded(crate::props::c04::M04TL::<Bls12381G1Impl> { prop: "C13", seed, _c: PhantomData }, 1));
    v.push(bounded(crate::props::c04::M04TL::<Bls12381G2Impl> { prop: "C13", seed, _c: PhantomData }, 1));
    v
}

pub fn describe(tier: Tier, r: &mut Report) {
    r.rule = "initial states = honest time-lock ciphertexts (scheme x 2 keys x message lengths x identifiers {empty, 'id', 64 bytes}) opened with the whole-key signature over the identifier; one action: transport through a codec; a signature recombined from every subset (size >= 2) of (2,3) and (3,5) share sets; wrong identifier / wrong key / each other scheme / identity signature; on the 5- and 33-byte tamper bases every single-bit flip of the serialized ciphertext, every truncation of w, w + 1 byte, other labels, u+G, u=identity, and the compensating pairs (u a^-1, signature a) for a = -1, 2, 3 that leave the pairing value unchanged. Oracle: never a different message; equals the reference open; header or authenticated-prefix changes give nothing; padding changes give the message or nothing (recorded)".into();
    r.deviation_bound_completed = "1".into();
    r.alphabet.insert("lengths".into(), serde_json::json!(lens_for(tier)));
}
