//! C19 - the two arithmetic backends are interchangeable.
//!
//! /verif/xb is built twice (features blst / rust; run.sh does that for this property). Each build
//! emits the deterministic transcript and a file of randomized artefacts with their secrets, and
//! consumes the other build's artefacts. The model enumerates every transcript item (byte equality)
//! and every artefact in both directions (plaintext / verdict equality).
use crate::engine::*;
use serde::{Deserialize, Serialize};
use serde_json::Value;
use std::collections::BTreeMap;

#[derive(Clone, Debug, PartialEq, Eq, Hash, Serialize, Deserialize)]
pub enum St {
    /// transcript section, e.g. "G1/sig"
    Section(String),
    Item(String),
    /// direction 0: made by blst, consumed by rust; 1: the reverse
    Direction(usize),
    Artefact(usize, usize),
}

pub struct M19 {
    a: BTreeMap<String, Value>,
    b: BTreeMap<String, Value>,
    /// per direction: (artefacts, results)
    x: Vec<(Vec<Value>, Vec<Value>)>,
    errors: Vec<String>,
}

fn run(bin: &str, args: &[&str], seed: u64) -> Result<(), String> {
    let st = std::process::Command::new(bin).args(args).env("VERIF_SEED", seed.to_string()).status().map_err(|e| format!("{}: {}", bin, e))?;
    if st.success() {
        Ok(())
    } else {
        Err(format!("{} {:?} exited with {:?}", bin, args, st.code()))
    }
}

impl M19 {
    pub fn new(seed: u64) -> Self {
        let lane = crate::engine::lane();
        let dir_s = format!("{}/.target/c19", lane);
        let dir = dir_s.as_str();
        let _ = std::fs::create_dir_all(dir);
        let blst_s = format!("{}/.target/xb-blst/release/xb", lane);
        let rust_s = format!("{}/.target/xb-rust/release/xb", lane);
        let (blst, rust) = (blst_s.as_str(), rust_s.as_str());
        let f = |n: &str| format!("{}/{}", dir, n);
        let mut errors = vec![];
        for n in ["t-blst.json", "t-rust.json", "p-blst.json", "p-rust.json", "c-rust-of-blst.json", "c-blst-of-rust.json"] {
            let _ = std::fs::remove_file(f(n));
        }
        let steps: Vec<(&str, Vec<String>)> = vec![
            (blst, vec!["transcript".into(), f("t-blst.json")]),
            (rust, vec!["transcript".into(), f("t-rust.json")]),
            (blst, vec!["produce".into(), f("p-blst.json")]),
            (rust, vec!["produce".into(), f("p-rust.json")]),
            (rust, vec!["consume".into(), f("p-blst.json"), f("c-rust-of-blst.json")]),
            (blst, vec!["consume".into(), f("p-rust.json"), f("c-blst-of-rust.json")]),
        ];
        for (bin, args) in steps {
            let a: Vec<&str> = args.iter().map(|s| s.as_str()).collect();
            if let Err(e) = run(bin, &a, seed) {
                errors.push(e);
            }
        }
        let load = |n: &str| -> Value { std::fs::read_to_string(f(n)).ok().and_then(|t| serde_json::from_str(&t).ok()).unwrap_or(Value::Null) };
        let items = |v: &Value| -> BTreeMap<String, Value> { v["items"].as_object().map(|m| m.iter().map(|(k, v)| (k.clone(), v.clone())).collect()).unwrap_or_default() };
        let ta = load("t-blst.json");
        let tb = load("t-rust.json");
        if ta["backend"] != "blst" || tb["backend"] != "rust" {
            errors.push("transcripts do not come from the expected backends".into());
        }
        let arr = |v: &Value, k: &str| v[k].as_array().cloned().unwrap_or_default();
        let x = vec![(arr(&load("p-blst.json"), "artefacts"), arr(&load("c-rust-of-blst.json"), "results")), (arr(&load("p-rust.json"), "artefacts"), arr(&load("c-blst-of-rust.json"), "results"))];
        M19 { a: items(&ta), b: items(&tb), x, errors }
    }
    fn section_of(k: &str) -> String {
        k.split('/').take(2).collect::<Vec<_>>().join("/")
    }
}

impl Model for M19 {
    type State = St;
    type Action = St;
    fn name(&self) -> String {
        "c19-backends".into()
    }
    fn init(&self) -> Vec<St> {
        let mut s: Vec<String> = self.a.keys().chain(self.b.keys()).map(|k| Self::section_of(k)).collect();
        s.sort();
        s.dedup();
        let mut v: Vec<St> = s.into_iter().map(St::Section).collect();
        v.push(St::Direction(0));
        v.push(St::Direction(1));
        v
    }
    fn actions(&self, st: &St) -> Vec<St> {
        match st {
            St::Section(s) => {
                let mut ks: Vec<String> = self.a.keys().chain(self.b.keys()).filter(|k| Self::section_of(k) == *s).cloned().collect();
                ks.sort();
                ks.dedup();
                ks.into_iter().map(St::Item).collect()
            }
            St::Direction(d) => (0..self.x[*d].0.len()).map(|i| St::Artefact(*d, i)).collect(),
            _ => vec![],
        }
    }
    fn step(&self, _st: &St, a: &St) -> Option<St> {
        Some(a.clone())
    }
    fn describe(&self, st: &St) -> String {
        match st {
            St::Section(s) => format!("transcript section {}", s),
            St::Item(k) => format!("transcript item {} (blst build vs rust build)", k),
            St::Direction(d) => format!("randomized artefacts made by the {} build, consumed by the {} build", ["blst", "rust"][*d], ["rust", "blst"][*d]),
            St::Artefact(d, i) => {
                let e = &self.x[*d].0[*i];
                format!("{} artefact #{} ({} {} {}) made by {} consumed by {}", e["kind"], i, e["group"], e["scheme"], e["t"], ["blst", "rust"][*d], ["rust", "blst"][*d])
            }
        }
    }
    fn required_outcomes(&self) -> Vec<String> {
        vec!["item:equal".into(), "artefact:same-result".into()]
    }
    fn check(&self, st: &St, o: &mut Obs) {
        o.nontrivial = true;
        if !self.errors.is_empty() {
            panic!("xb runs failed: {:?}", self.errors);
        }
        match st {
            St::Section(s) => {
                let n = self.a.keys().filter(|k| Self::section_of(k) == *s).count();
                o.record("n", &n.to_le_bytes());
            }
            St::Direction(d) => {
                let (a, r) = &self.x[*d];
                o.expect(&format!("C19:all-artefacts-consumed:{}", d), !a.is_empty() && a.len() == r.len(), "one result per artefact", &format!("{} artefacts, {} results", a.len(), r.len()));
            }
            St::Item(k) => {
                let (a, b) = (self.a.get(k), self.b.get(k));
                o.calls(2);
                let eq = a.is_some() && a == b;
                o.outcome(if eq { "item:equal" } else { "item:differs" });
                let parts: Vec<&str> = k.split('/').collect();
                let cls = format!("{}/{}{}", parts[0], parts[1], if parts.len() > 2 && (parts[1].starts_with("decode") || parts[1].starts_with("import")) { format!("/{}", parts[2]) } else { "".into() });
                o.expect(&format!("C19:transcript:{}", cls), eq, &format!("blst: {}", a.map(|v| v.to_string()).unwrap_or("absent".into()).chars().take(80).collect::<String>()), &format!("rust: {}", b.map(|v| v.to_string()).unwrap_or("absent".into()).chars().take(80).collect::<String>()));
            }
            St::Artefact(d, i) => {
                let (a, r) = &self.x[*d];
                let e = &a[*i];
                let want = e["expect"].as_str().unwrap_or("ok");
                let got = r.get(*i).cloned().unwrap_or(Value::Null);
                o.calls(1);
                let ok = got["ok"].as_str() == Some(want);
                o.outcome(if ok { "artefact:same-result" } else { "artefact:different-result" });
                o.expect(&format!("C19:cross-consume:{}:{}:made-by-{}", e["kind"].as_str().unwrap_or("?"), e["group"].as_str().unwrap_or("?"), ["blst", "rust"][*d]), ok, "the plaintext / verdict the producer recorded", &got.to_string().chars().take(120).collect::<String>());
                // randomized artefacts are fresh each run: keep them out of the determinism digest
            }
        }
    }
}

pub fn models(_tier: Tier, seed: u64) -> Vec<Box<dyn DynModel>> {
    vec![bounded(M19::new(seed), 1)]
}

pub fn describe(_tier: Tier, r: &mut Report) {
    r.rule = "the xb tool built with the blst backend and with the rust backend each emits (a) the deterministic transcript: secret / public keys (edge and hash derived), signatures (3 schemes x 9 message lengths), proofs of possession, aggregates, multi-signatures, multi-keys, shares built from a fixed polynomial and their combinations, challenges, the ElGamal generator, hash-to-point / hash-to-scalar outputs, the timestamp challenge, pairing bytes, all in bytes / serde_bare / serde_json form, plus the accept / reject decisions on non-canonical scalars and malformed points; (b) randomized artefacts (signcryption / time-lock / ElGamal ciphertexts and proofs, proofs of knowledge, (2,3) and (3,5) share sets) with their secrets. States: every transcript item (must be byte-equal across builds) and every artefact in both directions (the other build must recover the recorded plaintext / verdict)".into();
    r.deviation_bound_completed = "n/a (two configurations, both directions)".into();
    r.assumptions = vec!["share generation from an RNG is a randomized artefact (cross-consumed, not compared); Display text is outside the property's list".into()];
}
