//! Operation histories over the deterministic signing API, both group assignments in one model.
//!
//! State = the sequence of operations executed so far on one thread; every operation's output must equal
//! the value an independent reference computes for that operation alone, whatever ran before it (state carried
//! from one call into the next - caches, statics, thread locals - shows up as a history-dependent output).
use crate::common::*;
use crate::engine::*;
use crate::refmodel::{self as rf, RefSuite, Scheme, SCHEMES};
use blsful::*;
use serde::{Deserialize, Serialize};

#[derive(Copy, Clone, Debug, PartialEq, Eq, Hash, Serialize, Deserialize)]
pub enum Op {
    /// sign message #m with key #k under scheme s in group g (0 = G1, 1 = G2)
    Sign { g: u8, k: u8, s: Scheme, m: u8 },
    /// verify the reference's signature for the same tuple
    Verify { g: u8, k: u8, s: Scheme, m: u8 },
    Pop { g: u8, k: u8 },
    PopVerify { g: u8, k: u8 },
    PublicKey { g: u8, k: u8 },
}

pub struct MHist {
    prop: &'static str,
    depth: usize,
    keys: Vec<[u8; 32]>,
    ops: Vec<Op>,
}

impl MHist {
    pub fn new(prop: &'static str, tier: Tier, seed: u64) -> Self {
        let ka = key_alphabet(seed, false);
        // the same two scalars are used in both groups on purpose
        let keys = vec![ka.be[0], ka.be[3]];
        let mut ops = vec![];
        for g in 0..2u8 {
            for k in 0..2u8 {
                for s in SCHEMES {
                    for m in 0..3u8 {
                        ops.push(Op::Sign { g, k, s, m });
                    }
                    ops.push(Op::Verify { g, k, s, m: 0 });
                }
                ops.push(Op::Pop { g, k });
                ops.push(Op::PopVerify { g, k });
                ops.push(Op::PublicKey { g, k });
            }
        }
        MHist { prop, depth: if tier.thorough() { 3 } else { 2 }, keys, ops }
    }
    pub fn depth(&self) -> usize {
        self.depth
    }
}

/// message alphabet of the histories: a short message, the empty message, the signer's public key bytes
fn message(pk: &[u8], m: u8) -> Vec<u8> {
    match m {
        0 => b"history message".to_vec(),
        1 => vec![],
        _ => pk.to_vec(),
    }
}

/// run one operation; returns (library output bytes or verdict, reference value)
fn run<C: Suite>(key: &[u8; 32], op: &Op) -> (Vec<u8>, Vec<u8>) {
    let sk = sk_from_be::<C>(key).expect("key");
    let rsk = rf::scalar_from_be(key).unwrap();
    let rpk = rf::enc(&rf::sk_to_pk::<C::R>(&rsk));
    match op {
        Op::PublicKey { .. } => (Vec::<u8>::from(&sk.public_key()), rpk),
        Op::Sign { s, m, .. } => {
            let msg = message(&rpk, *m);
            let lib = sk.sign(lib_scheme(*s), &msg).map(|x| pt(x.as_raw_value())).unwrap_or_default();
            (lib, rf::enc(&rf::sign::<C::R>(&rsk, *s, &msg)))
        }
        Op::Verify { s, m, .. } => {
            let msg = message(&rpk, *m);
            let rsig = rf::enc(&rf::sign::<C::R>(&rsk, *s, &msg));
            let ok = pt_from::<SgP<C>>(&rsig).map(|p| mk_sig::<C>(*s, p).verify(&sk.public_key(), &msg).is_ok()).unwrap_or(false);
            (vec![ok as u8], vec![1])
        }
        Op::Pop { .. } => (sk.proof_of_possession().map(|p| Vec::<u8>::from(&p)).unwrap_or_default(), rf::enc(&rf::pop_prove::<C::R>(&rsk))),
        Op::PopVerify { .. } => {
            let rp = rf::enc(&rf::pop_prove::<C::R>(&rsk));
            let ok = ProofOfPossession::<C>::try_from(rp.as_slice()).map(|p| p.verify(sk.public_key()).is_ok()).unwrap_or(false);
            (vec![ok as u8], vec![1])
        }
    }
}

impl Model for MHist {
    type State = Vec<Op>;
    type Action = Op;
    fn name(&self) -> String {
        format!("{}-histories", self.prop.to_lowercase())
    }
    fn init(&self) -> Vec<Vec<Op>> {
        vec![vec![]]
    }
    fn actions(&self, s: &Vec<Op>) -> Vec<Op> {
        if s.len() >= self.depth {
            return vec![];
        }
        // length 3 only continues histories whose first two operations concern the same message slot or key
        self.ops.clone()
    }
    fn step(&self, s: &Vec<Op>, a: &Op) -> Option<Vec<Op>> {
        let mut n = s.clone();
        n.push(*a);
        Some(n)
    }
    fn describe(&self, s: &Vec<Op>) -> String {
        format!("history {:?}: every output compared with the reference value of that operation alone", s)
    }
    fn required_outcomes(&self) -> Vec<String> {
        vec!["history:all-outputs-as-alone".into()]
    }
    fn check(&self, st: &Vec<Op>, o: &mut Obs) {
        if st.is_empty() {
            return;
        }
        o.nontrivial = true;
        let mut all = true;
        for (i, op) in st.iter().enumerate() {
            let (g, k) = match op {
                Op::Sign { g, k, .. } | Op::Verify { g, k, .. } | Op::Pop { g, k } | Op::PopVerify { g, k } | Op::PublicKey { g, k } => (*g, *k),
            };
            let key = &self.keys[k as usize];
            let r = if g == 0 { guard(|| run::<Bls12381G1Impl>(key, op)) } else { guard(|| run::<Bls12381G2Impl>(key, op)) };
            o.calls(1);
            let cls = format!("{:?}", op).split(' ').next().unwrap().trim_end_matches('{').to_string();
            match r {
                Err(p) => {
                    all = false;
                    o.expect(&format!("{}:history-panics:{}", self.prop, cls), false, "returns", &p);
                }
                Ok((lib, want)) => {
                    o.record("out", &lib);
                    let ok = lib == want;
                    all &= ok;
                    let prev = if i == 0 { "first".to_string() } else { format!("after-{}", format!("{:?}", st[i - 1]).split(' ').next().unwrap().trim_end_matches('{')) };
                    o.expect(
                        &format!("{}:history-dependent-output:{}:{}:{}", self.prop, cls, GROUPS[g as usize], prev),
                        ok,
                        "the value the reference computes for this operation alone",
                        "a different value (depends on what ran before)",
                    );
                }
            }
        }
        o.outcome(if all { "history:all-outputs-as-alone" } else { "history:differs" });
        let _ = <rf::RG1 as RefSuite>::NAME;
    }
}
