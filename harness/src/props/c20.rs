//! C20 - every randomized operation draws fresh randomness.
use crate::common::*;
use crate::engine::*;
use blsful::vsss_rs::Share;
use blsful::*;
use serde::{Deserialize, Serialize};
use std::collections::HashSet;
use std::marker::PhantomData;

pub const OPS: [&str; 35] = [
    "SecretKey::new",
    "SecretKey::split",
    "PublicKey::sign_crypt",
    "PublicKey::encrypt_time_lock",
    "PublicKey::encrypt_key_el_gamal",
    "PublicKey::encrypt_key_el_gamal_with_proof",
    "ProofCommitment::generate",
    "ProofOfKnowledgeTimestamp::generate",
    "ProofCommitmentChallenge::new",
    "SecretKeyEnum::new",
    "BlsSignature::new_secret_key",
    "BlsSignature::new_proof_challenge",
    // the message taking entry points again with other message lengths (200 bytes, empty, 64 bytes)
    "PublicKey::sign_crypt [200 byte message]",
    "PublicKey::encrypt_time_lock [200 byte message]",
    "ProofCommitment::generate [200 byte message]",
    "ProofOfKnowledgeTimestamp::generate [200 byte message]",
    "PublicKey::sign_crypt [empty message]",
    "PublicKey::encrypt_time_lock [empty message]",
    "ProofCommitment::generate [empty message]",
    "ProofOfKnowledgeTimestamp::generate [empty message]",
    "PublicKey::sign_crypt [64 byte message]",
    "PublicKey::encrypt_time_lock [64 byte message]",
    "ProofCommitment::generate [64 byte message]",
    "ProofOfKnowledgeTimestamp::generate [64 byte message]",
    "PublicKey::sign_crypt [65536 byte message]",
    "PublicKey::encrypt_time_lock [65536 byte message]",
    "ProofCommitment::generate [65536 byte message]",
    "ProofOfKnowledgeTimestamp::generate [65536 byte message]",
    "PublicKey::sign_crypt [70000 byte message]",
    "PublicKey::encrypt_time_lock [70000 byte message]",
    "ProofCommitment::generate [70000 byte message]",
    "ProofOfKnowledgeTimestamp::generate [70000 byte message]",
    // trait level ElGamal entry points, the RNG handed in is seeded from the next entropy answer
    "BlsElGamal::seal_scalar_with_proof [blinder pinned by the caller]",
    "BlsElGamal::seal_scalar [generator pinned by the caller]",
    "BlsElGamal::seal_point",
];

pub struct Fixed<C: Suite> {
    sk: SecretKey<C>,
    pk: PublicKey<C>,
    /// message variants: 33 bytes, 200 bytes, empty, 64 bytes, 65536 bytes, 70000 bytes - with the signature over each
    msgs: Vec<Vec<u8>>,
    sigs: Vec<Signature<C>>,
}

impl<C: Suite> Fixed<C> {
    fn new(seed: u64) -> Self {
        let sk = SecretKey::<C>::from_hash(data(seed, "c20-key", 32));
        let msgs = vec![msg_of(seed, 33, 3), msg_of(seed, 200, 3), vec![], msg_of(seed, 64, 3), msg_of(seed, 65536, 3), msg_of(seed, 70000, 3)];
        let sigs = msgs.iter().map(|m| sk.sign(SignatureSchemes::ProofOfPossession, m).unwrap()).collect();
        Fixed { pk: sk.public_key(), sigs, sk, msgs }
    }
}

/// every aligned 16 byte block of a masked payload as its own fingerprint: with a fixed message two equal blocks
/// mean two equal key stream blocks, although the payloads as a whole differ
fn blocks(label: &str, mask: &[u8]) -> Vec<(String, Vec<u8>)> {
    mask.chunks(16).enumerate().filter(|(_, c)| c.len() == 16).map(|(i, c)| (format!("{} block {}", label, i), c.to_vec())).collect()
}

/// run operation `op` with the fixed arguments and return its ephemeral fingerprints
/// (ephemeral points, masks, secrets), each labelled
pub fn run_op<C: Suite>(f: &Fixed<C>, op: usize) -> Vec<(String, Vec<u8>)> {
    let s = SignatureSchemes::ProofOfPossession;
    // ops 12.. are the four message taking entry points with message variant 1, 2, 3
    if op >= 32 {
        use rand_core::SeedableRng;
        // the caller's RNG: seeded from the entropy seam when it is installed, from the OS otherwise
        let rng = match blsful::verif_hooks::next_seed() {
            Some(seed) => rand_chacha::ChaCha20Rng::from_seed(seed),
            None => rand_chacha::ChaCha20Rng::from_entropy(),
        };
        let gen = <C as BlsElGamal>::message_generator();
        let b = f.sk.0 + f.sk.0;
        return match op {
            32 => {
                let (c1, c2, mp, bp, ch) = <C as BlsElGamal>::seal_scalar_with_proof(f.pk.0, f.sk.0, None, Some(b), rng).expect("seal_scalar_with_proof");
                let _ = (c1, c2, mp);
                // the proof nonce r = blinder_proof - challenge * b must be fresh although the blinder is pinned
                vec![("elgamal-proof nonce r (pinned blinder)".into(), sc_to_be::<C>(&(bp - ch * b)).to_vec())]
            }
            33 => {
                let (c1, c2) = <C as BlsElGamal>::seal_scalar(f.pk.0, f.sk.0, Some(gen), None, rng).expect("seal_scalar");
                vec![("elgamal c1 (pinned generator)".into(), pt(&c1)), ("elgamal c2 (pinned generator)".into(), pt(&c2))]
            }
            _ => {
                let (c1, c2) = <C as BlsElGamal>::seal_point(f.pk.0, gen, None, rng).expect("seal_point");
                vec![("elgamal point c1".into(), pt(&c1)), ("elgamal point c2".into(), pt(&c2))]
            }
        };
    }
    let (op, variant) = if op >= 12 { ([2usize, 3, 6, 7][(op - 12) % 4], 1 + (op - 12) / 4) } else { (op, 0) };
    let msg = &f.msgs[variant];
    let sig = f.sigs[variant];
    match op {
        0 => vec![("secret key".into(), SecretKey::<C>::new().to_be_bytes().to_vec())],
        1 => {
            let sh = f.sk.split(2, 3).expect("split");
            sh.iter().enumerate().map(|(i, x)| (format!("share value {}", i), x.0.value_vec())).collect()
        }
        2 => {
            let ct = f.pk.sign_crypt(s, msg);
            let mut v = vec![("signcrypt u".into(), pt(&ct.u)), ("signcrypt mask".into(), ct.v.clone()), ("signcrypt w".into(), pt(&ct.w))];
            v.extend(blocks("signcrypt mask", &ct.v));
            v
        }
        3 => {
            let ct = f.pk.encrypt_time_lock(s, msg, b"id").expect("time lock");
            let mut v = vec![("timelock u".into(), pt(&ct.u)), ("timelock v".into(), ct.v.to_vec()), ("timelock mask".into(), ct.w.clone())];
            v.extend(blocks("timelock mask", &ct.w));
            v
        }
        4 => {
            let ct = f.pk.encrypt_key_el_gamal(&f.sk).expect("elgamal");
            vec![("elgamal c1".into(), pt(&ct.c1)), ("elgamal c2".into(), pt(&ct.c2))]
        }
        5 => {
            let p = f.pk.encrypt_key_el_gamal_with_proof(&f.sk).expect("elgamal proof");
            vec![
                ("elgamal-proof c1".into(), pt(&p.ciphertext.c1)),
                ("elgamal-proof c2".into(), pt(&p.ciphertext.c2)),
                ("elgamal-proof blinder proof".into(), sc_to_be::<C>(&p.blinder_proof).to_vec()),
                ("elgamal-proof message proof".into(), sc_to_be::<C>(&p.message_proof).to_vec()),
                ("elgamal-proof challenge".into(), sc_to_be::<C>(&p.challenge).to_vec()),
            ]
        }
        6 => {
            let (c, x) = ProofCommitment::<C>::generate(msg, sig).expect("commit");
            vec![("commitment".into(), Vec::<u8>::from(&c)), ("commitment secret".into(), x.to_be_bytes().to_vec())]
        }
        7 => {
            let p = ProofOfKnowledgeTimestamp::<C>::generate(msg, sig).expect("timestamp proof");
            let b = Vec::<u8>::from(&p.proof);
            let half = (b.len() - 1) / 2;
            vec![("timestamp-proof u".into(), b[1..1 + half].to_vec()), ("timestamp-proof v".into(), b[1 + half..].to_vec())]
        }
        8 => vec![("challenge".into(), ProofCommitmentChallenge::<C>::new().to_be_bytes().to_vec())],
        9 => {
            let k = SecretKeyEnum::new(if C::G == "G1" { Bls12381::G1 } else { Bls12381::G2 });
            vec![("enum secret key".into(), k.to_be_bytes()[1..].to_vec())]
        }
        10 => vec![("new_secret_key".into(), BlsSignature::<C>::new_secret_key().to_be_bytes().to_vec())],
        _ => vec![("new_proof_challenge".into(), BlsSignature::<C>::new_proof_challenge().to_be_bytes().to_vec())],
    }
}

#[derive(Clone, Debug, PartialEq, Eq, Hash, Serialize, Deserialize)]
pub enum St {
    /// operation history under the entropy seam
    History(Vec<usize>),
    /// free running (real entropy): `n` calls of op on 4 threads
    Free { op: usize, n: usize },
    /// two independent processes
    Processes { op: usize },
    /// free running: `n` calls of a cheap operation on 8 threads - with full entropy no two results coincide, with 32 (40)
    /// bits of entropy about n^2 / 2^33 (2^41) pairs do
    Birthday { op: usize, n: usize },
    /// one freshly started process: the call, then after each real-time pause (milliseconds) the same call again -
    /// a generator that re-keys, rewinds or expires on elapsed time shows between the calls around a pause
    Idle { op: usize, pauses_ms: Vec<u64> },
}

pub struct M20<C: Suite> {
    tier: Tier,
    seed: u64,
    f: Fixed<C>,
    _c: PhantomData<C>,
}

impl<C: Suite> M20<C> {
    pub fn new(tier: Tier, seed: u64) -> Self {
        M20 { tier, seed, f: Fixed::new(seed), _c: PhantomData }
    }
    fn run_history(&self, h: &[usize], stream: &str) -> Result<(Vec<Vec<(String, Vec<u8>)>>, Vec<u64>), String> {
        let answers = entropy_stream(self.seed, &format!("c20-{}", stream), 64);
        with_env(answers, Some(CLOCK0), || {
            let mut out = vec![];
            let mut draws = vec![];
            for op in h {
                let before = blsful::verif_hooks::entropy_draws();
                out.push(run_op(&self.f, *op));
                draws.push(blsful::verif_hooks::entropy_draws() - before);
            }
            (out, draws)
        })
    }
}

impl<C: Suite> Model for M20<C> {
    type State = St;
    type Action = usize;
    fn name(&self) -> String {
        format!("c20-fresh-randomness/{}", C::G)
    }
    fn init(&self) -> Vec<St> {
        let mut v = vec![St::History(vec![])];
        // more than 256 / 512 calls per entry point: a pool or counter that wraps after 2^8 draws is seen
        let n = if self.tier.thorough() { 4200 } else { 600 };
        for op in 0..OPS.len() {
            v.push(St::Free { op, n });
            v.push(St::Processes { op });
        }
        // pauses around the thresholds an idle timer would use (1 s, 2 s; thorough also 5 s, 10 s)
        let idle_ops: Vec<usize> = if self.tier.thorough() { (0..OPS.len()).filter(|o| !OPS[*o].contains("byte message")).collect() } else { vec![0, 2, 3, 4, 6, 8] };
        for op in idle_ops {
            v.push(St::Idle { op, pauses_ms: if self.tier.thorough() { vec![1100, 2200, 5300, 10_400, 2200] } else { vec![1100, 2200, 2200] } });
        }
        for op in [0usize, 8] {
            v.push(St::Birthday { op, n: if self.tier.thorough() { 4_000_000 } else { 400_000 } });
        }
        v
    }
    fn actions(&self, st: &St) -> Vec<usize> {
        match st {
            St::History(_) => (0..OPS.len()).collect(),
            _ => vec![],
        }
    }
    fn step(&self, st: &St, a: &usize) -> Option<St> {
        match st {
            St::History(h) => {
                let mut h = h.clone();
                h.push(*a);
                Some(St::History(h))
            }
            _ => None,
        }
    }
    fn describe(&self, st: &St) -> String {
        match st {
            St::History(h) => format!("{} history [{}] with identical arguments; entropy seam answers with distinct seeds", C::G, h.iter().map(|o| OPS[*o]).collect::<Vec<_>>().join(", ")),
            St::Free { op, n } => format!("{} free running (real entropy, not an enumeration): {} calls of {} on 4 threads", C::G, n, OPS[*op]),
            St::Processes { op } => format!("{} free running: {} in two independent processes", C::G, OPS[*op]),
            St::Idle { op, pauses_ms } => format!("{} one fresh process: {} before and after each real-time pause of {:?} ms, all ephemerals distinct", C::G, OPS[*op], pauses_ms),
            St::Birthday { op, n } => format!("{} free running (a sample): {} calls of {} on 8 threads, all results distinct", C::G, n, OPS[*op]),
        }
    }
    fn required_outcomes(&self) -> Vec<String> {
        vec!["history:all-ephemerals-distinct-and-entropy-dependent".into(), "free:no-repeat".into(), "processes:disjoint".into(), "idle:no-repeat-across-pauses".into()]
    }
    fn check(&self, st: &St, o: &mut Obs) {
        let g = C::G;
        match st {
            St::History(h) => {
                if h.is_empty() {
                    return;
                }
                o.nontrivial = true;
                let a = self.run_history(h, "A");
                let a2 = self.run_history(h, "A");
                let b = self.run_history(h, "B");
                o.calls(3 * h.len() as u64);
                let (a, a2, b) = match (a, a2, b) {
                    (Ok(a), Ok(a2), Ok(b)) => (a, a2, b),
                    (x, _, _) => {
                        o.expect(&format!("C20:operation-panics:{}:{}", g, OPS[*h.last().unwrap()]), false, "returns", &x.err().unwrap_or_default());
                        return;
                    }
                };
                // I2: the same entropy answers reproduce the history, otherwise entropy is drawn outside the seam
                if a.0 != a2.0 {
                    panic!("nondeterminism not owned: history {:?} is not reproduced by the same entropy answers", h);
                }
                for f in a.0.iter().flatten() {
                    o.record(&f.0, &f.1);
                }
                let last = OPS[*h.last().unwrap()];
                // I1: all ephemerals of all calls pairwise distinct
                let mut seen: HashSet<&Vec<u8>> = HashSet::new();
                let mut dup = None;
                for (ci, call) in a.0.iter().enumerate() {
                    for (label, bytes) in call {
                        if !seen.insert(bytes) {
                            dup = Some(format!("call {} ({}) repeats the ephemeral '{}' of an earlier call", ci, OPS[h[ci]], label));
                        }
                    }
                }
                o.expect(&format!("C20:ephemeral-reused:{}:{}", g, last), dup.is_none(), "pairwise distinct ephemerals across the history", dup.as_deref().unwrap_or(""));
                // I3: a different entropy stream changes every ephemeral of every call
                let mut fixed = None;
                for (ci, (ca, cb)) in a.0.iter().zip(b.0.iter()).enumerate() {
                    for ((label, x), (_, y)) in ca.iter().zip(cb.iter()) {
                        if x == y {
                            fixed = Some(format!("'{}' of call {} ({}) does not depend on the entropy answer", label, ci, OPS[h[ci]]));
                        }
                    }
                }
                o.expect(&format!("C20:ephemeral-independent-of-entropy:{}:{}", g, last), fixed.is_none(), "every ephemeral changes with the entropy answers", fixed.as_deref().unwrap_or(""));
                let ok = dup.is_none() && fixed.is_none();
                o.outcome(if ok { "history:all-ephemerals-distinct-and-entropy-dependent" } else { "history:reuse" });
                if a.1.iter().any(|d| *d == 0) {
                    o.note(format!("a call of history {:?} drew no entropy through the seam", h));
                }
            }
            St::Birthday { op, n } => {
                o.nontrivial = true;
                let per = n / 8;
                let results: Vec<Vec<[u8; 32]>> = std::thread::scope(|sc| {
                    let hs: Vec<_> = (0..8)
                        .map(|_| {
                            sc.spawn(move || {
                                (0..per)
                                    .map(|_| if *op == 0 { SecretKey::<C>::new().to_be_bytes() } else { ProofCommitmentChallenge::<C>::new().to_be_bytes() })
                                    .collect::<Vec<_>>()
                            })
                        })
                        .collect();
                    hs.into_iter().map(|h| h.join().unwrap_or_default()).collect()
                });
                o.calls(*n as u64);
                let mut all: Vec<[u8; 32]> = results.into_iter().flatten().collect();
                let total = all.len();
                all.sort_unstable();
                let repeats = all.windows(2).filter(|w| w[0] == w[1]).count();
                o.outcome(if repeats == 0 && total == per * 8 { "birthday:all-distinct" } else { "birthday:repeats" });
                o.expect(&format!("C20:birthday:{}:{}", g, OPS[*op]), repeats == 0 && total == per * 8, "no two equal results", &format!("{} equal pairs among {} results", repeats, total));
            }
            St::Free { op, n } => {
                o.nontrivial = true;
                let per = n / 4;
                let shared = crate::props::c20::Sh(&self.f);
                let results: Vec<Result<Vec<(String, Vec<u8>)>, String>> = std::thread::scope(|sc| {
                    let hs: Vec<_> = (0..4)
                        .map(|_| {
                            let sh = &shared;
                            sc.spawn(move || {
                                crate::engine::guard(|| {
                                    let mut v = vec![];
                                    for _ in 0..per {
                                        v.extend(run_op(sh.0, *op));
                                    }
                                    v
                                })
                            })
                        })
                        .collect();
                    hs.into_iter().map(|h| h.join().unwrap_or(Err("thread".into()))).collect()
                });
                o.calls(*n as u64);
                let mut seen: HashSet<Vec<u8>> = HashSet::new();
                let mut dup = None;
                let mut total = 0;
                for r in results {
                    match r {
                        Ok(v) => {
                            for (label, bytes) in v {
                                total += 1;
                                if !seen.insert(bytes) {
                                    dup = Some(label);
                                }
                            }
                        }
                        Err(p) => {
                            o.expect(&format!("C20:operation-panics:{}:{}", g, OPS[*op]), false, "returns", &p);
                            return;
                        }
                    }
                }
                o.outcome(if dup.is_none() && total > 0 { "free:no-repeat" } else { "free:repeat" });
                o.expect(&format!("C20:free-running-repeat:{}:{}", g, OPS[*op]), dup.is_none() && total > 0, "no ephemeral repeats across calls and threads", &format!("'{}' repeated", dup.unwrap_or_default()));
            }
            St::Idle { op, pauses_ms } => {
                o.nontrivial = true;
                let me = std::path::PathBuf::from("/proc/self/exe");
                let pauses = pauses_ms.iter().map(|p| p.to_string()).collect::<Vec<_>>().join(",");
                let out = std::process::Command::new(&me).args(["child", "c20", g, &op.to_string(), &self.seed.to_string(), "idle", &pauses]).output();
                let lines: Vec<String> = match out {
                    Ok(out) if out.status.success() => String::from_utf8_lossy(&out.stdout).lines().map(|l| l.to_string()).collect(),
                    other => panic!("cannot run the idle child process: {:?}", other.map(|o| o.status.code())),
                };
                o.calls(pauses_ms.len() as u64 + 1);
                let distinct: HashSet<&String> = lines.iter().collect();
                let ok = !lines.is_empty() && distinct.len() == lines.len();
                o.outcome(if ok { "idle:no-repeat-across-pauses" } else { "idle:repeat-across-a-pause" });
                o.expect(&format!("C20:ephemeral-repeats-after-idle-time:{}:{}", g, OPS[*op]), ok, "pairwise distinct ephemerals before and after every pause", &format!("{} distinct of {}", distinct.len(), lines.len()));
            }
            St::Processes { op } => {
                o.nontrivial = true;
                let me = std::env::current_exe().unwrap_or_default();
                let run = || -> Result<Vec<String>, String> {
                    let out = std::process::Command::new(&me).args(["child", "c20", g, &op.to_string(), &self.seed.to_string()]).output().map_err(|e| e.to_string())?;
                    if !out.status.success() {
                        return Err(format!("child exited with {:?}", out.status.code()));
                    }
                    Ok(String::from_utf8_lossy(&out.stdout).lines().map(|l| l.to_string()).collect())
                };
                match (run(), run()) {
                    (Ok(a), Ok(b)) => {
                        o.calls(2);
                        let sa: HashSet<&String> = a.iter().collect();
                        let common = b.iter().filter(|x| sa.contains(x)).count();
                        let ok = common == 0 && !a.is_empty() && !b.is_empty();
                        o.outcome(if ok { "processes:disjoint" } else { "processes:overlap" });
                        o.expect(&format!("C20:processes-share-ephemerals:{}:{}", g, OPS[*op]), ok, "disjoint ephemerals in two processes", &format!("{} common of {}", common, a.len()));
                    }
                    (x, y) => panic!("cannot run child processes: {:?} {:?}", x.err(), y.err()),
                }
            }
        }
    }
}

pub struct Sh<'a, C: Suite>(pub &'a Fixed<C>);
unsafe impl<'a, C: Suite> Send for Sh<'a, C> {}
unsafe impl<'a, C: Suite> Sync for Sh<'a, C> {}

/// child: `blsful-mc child c20 <G1|G2> <op> <seed>` prints the fingerprints of 8 calls with real entropy
pub fn child(args: &[String]) -> i32 {
    let op: usize = args[1].parse().unwrap_or(0);
    let seed: u64 = args[2].parse().unwrap_or(1);
    fn go<C: Suite>(op: usize, seed: u64, pauses: Option<Vec<u64>>) {
        let f = Fixed::<C>::new(seed);
        if let Some(pauses) = pauses {
            // two calls, then two more after each pause (the k-th call after a pause against the k-th of the process)
            let mut emit = || {
                for _ in 0..2 {
                    for (l, b) in run_op(&f, op) {
                        println!("{} {}", l, hex::encode(b));
                    }
                }
            };
            emit();
            for p in pauses {
                std::thread::sleep(std::time::Duration::from_millis(p));
                emit();
            }
            return;
        }
        for _ in 0..8 {
            for (l, b) in run_op(&f, op) {
                println!("{} {}", l, hex::encode(b));
            }
        }
    }
    let pauses: Option<Vec<u64>> = if args.get(3).map(|s| s.as_str()) == Some("idle") { Some(args.get(4).map(|s| s.split(',').filter_map(|p| p.parse().ok()).collect()).unwrap_or_default()) } else { None };
    if args[0] == "G1" {
        go::<Bls12381G1Impl>(op, seed, pauses)
    } else {
        go::<Bls12381G2Impl>(op, seed, pauses)
    }
    0
}

fn depth_of<C: Suite>(_m: &M20<C>, s: &St) -> usize {
    match s {
        St::History(h) => h.len(),
        _ => 0,
    }
}

pub fn models(tier: Tier, seed: u64) -> Vec<Box<dyn DynModel>> {
    let d = if tier.thorough() { 3 } else { 2 };
    let _ = depth_of::<Bls12381G1Impl>;
    vec![bounded(M20::<Bls12381G1Impl>::new(tier, seed), d), bounded(M20::<Bls12381G2Impl>::new(tier, seed), d)]
}

pub fn describe(tier: Tier, r: &mut Report) {
    r.rule = "part A (exhaustive, hooked entropy): all histories of the 12 randomized entry points (the four message taking ones with six message lengths each: 33, 200, 0, 64, 65536 and 70000 bytes) plus three trait level ElGamal entry points with a caller pinned blinder / generator: 35 operations with identical arguments up to the length bound; each history runs three times - entropy answers A, A again, B: (I1) all ephemerals (points, masks, secrets) of all calls pairwise distinct, (I3) every ephemeral differs between A and B, (I2) A reproduces A, otherwise entropy is drawn outside the seam (machinery failure, not a verdict). part B (free running with real entropy - a sample, not an enumeration): N calls per entry point on 4 threads without a repeated ephemeral, and two independent processes with disjoint ephemerals; every aligned 16 byte block of the signcryption and time-lock masks is a fingerprint of its own".into();
    r.deviation_bound_completed = format!("histories of length <= {}", if tier.thorough() { 3 } else { 2 });
    r.alphabet.insert("entry_points".into(), serde_json::json!(OPS.to_vec()));
    r.alphabet.insert("free_running_calls_per_entry_point".into(), serde_json::json!(if tier.thorough() { 4096 } else { 256 }));
    r.assumptions = vec!["the quality of OS entropy is assumed; part A decides everything downstream of get_crypto_rng(), part B is the only part that sees the line that obtains OS entropy".into()];
    r.not_covered = vec!["N > 4096 calls; more than two processes".into()];
}
