//! Aggregates over a collision alphabet: every list (length 2..=L) over pairs (key, message) where keys include a
//! scalar and its negation and messages include byte strings that differ only in bytes that are not valid UTF-8.
//! Lists therefore contain every combination of equal keys, negated keys, equal messages, adjacent and non adjacent
//! repeats. One model, attached to C03 / C06 (honest aggregate: bytes and decision against the reference) and to
//! C05 (the same aggregate presented under every other scheme label).
use crate::common::*;
use crate::engine::*;
use crate::refmodel::{self as rf, RefSuite, Scheme, SCHEMES};
use blsful::inner_types::Group;
use blsful::*;
use serde::{Deserialize, Serialize};
use std::marker::PhantomData;

#[derive(Clone, Debug, PartialEq, Eq, Hash, Serialize, Deserialize)]
pub struct St {
    s: Scheme,
    /// indices into the pair alphabet
    list: Vec<u8>,
    /// the label the aggregate is presented under (C05 only)
    label: Option<Scheme>,
}

pub struct MAggX<C: Suite> {
    prop: &'static str,
    maxlen: usize,
    key_names: Vec<String>,
    pks: Vec<PublicKey<C>>,
    /// msgs[key][msg]: the last two messages are relations to the entry's own key (its compressed bytes; these followed
    /// by 01ff), the others are the same for every key
    msgs: Vec<Vec<Vec<u8>>>,
    /// sigs[scheme][key][msg]
    sigs: Vec<Vec<Vec<Signature<C>>>>,
    /// proof of possession of each key (C05: as a part of a proof-of-possession-scheme aggregate)
    pops: Vec<ProofOfPossession<C>>,
    _c: PhantomData<C>,
}

impl<C: Suite> MAggX<C> {
    pub fn new(prop: &'static str, tier: Tier, seed: u64) -> Self {
        let ka = key_alphabet(seed, false);
        let idx = [0usize, 2, 3];
        let key_names: Vec<String> = idx.iter().map(|i| ka.names[*i].clone()).collect();
        let sks: Vec<SecretKey<C>> = idx.iter().map(|i| sk_from_be::<C>(&ka.be[*i]).unwrap()).collect();
        let pks: Vec<PublicKey<C>> = sks.iter().map(|k| k.public_key()).collect();
        // incl. a binary message and the ASCII hex text of the same bytes (equal under a printable rendering)
        let common = vec![vec![0x01, 0xff], vec![0x01, 0xfe], vec![], vec![0xde, 0xad, 0xbe, 0xef, 0x00, 0xff, 0x80, 0x01], b"deadbeef00ff8001".to_vec()];
        let msgs: Vec<Vec<Vec<u8>>> = pks
            .iter()
            .map(|pk| {
                let own = Vec::<u8>::from(pk);
                let mut v = common.clone();
                v.push(own.clone());
                v.push([own, vec![0x01, 0xff]].concat());
                v
            })
            .collect();
        let sigs = SCHEMES.iter().map(|s| sks.iter().enumerate().map(|(ki, k)| msgs[ki].iter().map(|m| k.sign(lib_scheme(*s), m).expect("honest sign")).collect()).collect()).collect();
        let pops = sks.iter().map(|k| k.proof_of_possession().expect("honest proof")).collect();
        MAggX { prop, maxlen: if tier.thorough() { 4 } else { 3 }, key_names, pks, msgs, sigs, pops, _c: PhantomData }
    }
    fn npairs(&self) -> u8 {
        (self.pks.len() * self.msgs[0].len()) as u8
    }
    fn pair(&self, i: u8) -> (usize, usize) {
        (i as usize / self.msgs[0].len(), i as usize % self.msgs[0].len())
    }
    fn msg_name(&self, m: usize) -> String {
        match m {
            5 => "own-key-bytes".into(),
            6 => "own-key-bytes||01ff".into(),
            _ => hex::encode(&self.msgs[0][m]),
        }
    }
}

impl<C: Suite> Model for MAggX<C> {
    type State = St;
    type Action = u8;
    fn name(&self) -> String {
        format!("{}-aggregate-collision-lists/{}", self.prop.to_lowercase(), C::G)
    }
    fn init(&self) -> Vec<St> {
        SCHEMES.iter().map(|s| St { s: *s, list: vec![], label: None }).collect()
    }
    fn actions(&self, st: &St) -> Vec<u8> {
        if st.label.is_some() {
            return vec![];
        }
        // messages that are a relation to the entry's own key: in lists one shorter than the longest
        let relation_ok = st.list.len() + 2 <= self.maxlen;
        let has_relation = st.list.iter().any(|i| self.pair(*i).1 >= 5);
        let mut a: Vec<u8> = if st.list.len() >= self.maxlen || (has_relation && st.list.len() + 1 >= self.maxlen) { vec![] } else { (0..self.npairs()).filter(|i| relation_ok || self.pair(*i).1 < 5).collect() };
        if self.prop == "C05" && st.list.len() >= 2 {
            // 100 + i: present under scheme i
            for l in SCHEMES {
                if l != st.s {
                    a.push(100 + l.idx() as u8);
                }
            }
        }
        a
    }
    fn step(&self, st: &St, a: &u8) -> Option<St> {
        let mut n = st.clone();
        if *a >= 100 {
            n.label = Some(SCHEMES[(*a - 100) as usize]);
        } else {
            n.list.push(*a);
        }
        Some(n)
    }
    fn describe(&self, st: &St) -> String {
        let l: Vec<String> = st.list.iter().map(|i| {
            let (k, m) = self.pair(*i);
            format!("(key {}, msg {})", self.key_names[k], self.msg_name(m))
        }).collect();
        format!("{} {} aggregate over [{}] presented as {:?}", C::G, st.s.name(), l.join(", "), st.label.unwrap_or(st.s).name())
    }
    fn required_outcomes(&self) -> Vec<String> {
        if self.prop == "C05" {
            vec!["relabelled:reject".into(), "proof-of-possession-as-part:reject".into()]
        } else {
            vec!["list:accept".into(), "list:reject-basic-duplicate".into(), "list:identity-aggregate".into()]
        }
    }
    fn check(&self, st: &St, o: &mut Obs) {
        if st.list.len() < 2 || (self.prop == "C05" && st.label.is_none() && st.s != Scheme::Pop) {
            return;
        }
        o.nontrivial = true;
        let (p, g, sn) = (self.prop, C::G, st.s.name());
        if self.prop == "C05" && st.label.is_none() {
            // a published proof of possession in the place of one signer's signature, under the proof-of-possession
            // scheme label: the proof is made under the other tag, so no message - in particular not the signer's own
            // key bytes - makes it that signer's signature
            let list: Vec<(PublicKey<C>, Vec<u8>)> = st.list.iter().map(|i| {
                let (k, m) = self.pair(*i);
                (self.pks[k], self.msgs[k][m].clone())
            }).collect();
            let pairs: Vec<(Vec<u8>, Vec<u8>)> = list.iter().map(|(k, m)| (Vec::<u8>::from(k), m.clone())).collect();
            for j in 0..st.list.len() {
                let mut acc = SgP::<C>::identity();
                for (i, e) in st.list.iter().enumerate() {
                    let (k, m) = self.pair(*e);
                    acc += if i == j { self.pops[k].0 } else { *self.sigs[st.s.idx()][k][m].as_raw_value() };
                }
                if bool::from(acc.is_identity()) {
                    continue;
                }
                let want = rf::aggregate_verify::<C::R>(Scheme::Pop, &pairs, &pt(&acc));
                let v = guard(|| mk_agg_sig::<C>(Scheme::Pop, acc).verify(&list));
                o.calls(1);
                let got = matches!(v, Ok(Ok(())));
                o.outcome(if got { "proof-of-possession-as-part:accept" } else { "proof-of-possession-as-part:reject" });
                let (_, m) = self.pair(st.list[j]);
                o.expect(&format!("{}:proof-of-possession-as-part:{}:msg-{}", p, g, self.msg_name(m)), got == want && v.is_ok(), if want { "accept" } else { "reject" }, verdict(&v));
            }
            return;
        }
        let sigs: Vec<Signature<C>> = st.list.iter().map(|i| {
            let (k, m) = self.pair(*i);
            self.sigs[st.s.idx()][k][m]
        }).collect();
        let list: Vec<(PublicKey<C>, Vec<u8>)> = st.list.iter().map(|i| {
            let (k, m) = self.pair(*i);
            (self.pks[k], self.msgs[k][m].clone())
        }).collect();
        let agg = match guard(|| AggregateSignature::<C>::from_signatures(&sigs)) {
            Ok(Ok(a)) => a,
            r => {
                o.expect(&format!("{}:collision-list-aggregates:{}:{}", p, g, sn), false, "Ok", verdict(&r));
                return;
            }
        };
        o.calls(1);
        let aggb = Vec::<u8>::from(&agg)[1..].to_vec();
        // shape of the list, for the finding key
        let mut dup_msg = false;
        let mut dup_key = false;
        let mut neg_key_same_msg = false;
        let mut adjacent_same_key = false;
        for i in 0..st.list.len() {
            for j in 0..i {
                let (ki, mi) = self.pair(st.list[i]);
                let (kj, mj) = self.pair(st.list[j]);
                let same = self.msgs[ki][mi] == self.msgs[kj][mj];
                dup_msg |= same;
                dup_key |= ki == kj;
                neg_key_same_msg |= same && ((ki == 0 && kj == 1) || (ki == 1 && kj == 0));
                adjacent_same_key |= ki == kj && i == j + 1;
            }
        }
        let shape = format!(
            "{}{}{}{}",
            if dup_msg { "M" } else { "m" },
            if dup_key { "K" } else { "k" },
            if neg_key_same_msg { "N" } else { "n" },
            if adjacent_same_key { "A" } else { "a" }
        );
        if let Some(label) = st.label {
            // C05: the same point under another label never verifies against the list it was made for
            let relabelled = mk_agg_sig::<C>(label, pt_from::<SgP<C>>(&aggb).expect("aggregate point"));
            let v = guard(|| relabelled.verify(&list));
            o.calls(1);
            let acc = matches!(v, Ok(Ok(())));
            o.outcome(if acc { "relabelled:accept" } else { "relabelled:reject" });
            o.expect(&format!("{}:aggregate-relabelled:{}:{}-as-{}:shape-{}", p, g, sn, label.name(), shape), !acc && v.is_ok(), "reject", verdict(&v));
            return;
        }
        // bytes: the plain sum of the parts, computed by the reference
        let rsum = rf::aggregate::<C::R>(&sigs.iter().map(|x| <C::R as RefSuite>::sig_from(&pt(x.as_raw_value())).expect("honest signature decodes")).collect::<Vec<_>>());
        o.expect(&format!("{}:collision-list-aggregate-is-sum:{}:{}", p, g, sn), aggb == rf::enc(&rsum), "the reference point sum", "differs");
        let v = guard(|| agg.verify(&list));
        let sigp = pt_from::<SgP<C>>(&aggb).expect("aggregate point");
        let it = list.iter().map(|(k, m)| (k.0, m.clone()));
        let tv = guard(|| match st.s {
            Scheme::Basic => <C as BlsSignatureBasic>::aggregate_verify(it, sigp),
            Scheme::Aug => <C as BlsSignatureMessageAugmentation>::aggregate_verify(it, sigp),
            Scheme::Pop => <C as BlsSignaturePop>::aggregate_verify(it, sigp),
        });
        o.calls(2);
        let acc = matches!(v, Ok(Ok(())));
        o.record("acc", &[acc as u8]);
        o.expect(&format!("{}:collision-list-trait-agrees:{}:{}:shape-{}", p, g, sn, shape), matches!(tv, Ok(Ok(()))) == acc && tv.is_ok() && v.is_ok(), verdict(&v), verdict(&tv));
        let identity_aggregate = bool::from(sigp.is_identity());
        let want = if identity_aggregate {
            // the parts cancel: the library never accepts the identity point as a signature
            o.outcome("list:identity-aggregate");
            false
        } else if st.s == Scheme::Basic && dup_msg {
            o.outcome("list:reject-basic-duplicate");
            false
        } else {
            let pairs: Vec<(Vec<u8>, Vec<u8>)> = list.iter().map(|(k, m)| (Vec::<u8>::from(k), m.clone())).collect();
            let r = rf::aggregate_verify::<C::R>(st.s, &pairs, &aggb);
            o.expect(&format!("{}:collision-list-reference-accepts-honest:{}:{}", p, g, sn), r, "accept", "reject");
            o.outcome("list:accept");
            true
        };
        o.expect(
            &format!("{}:collision-list-verify:{}:{}:shape-{}", p, g, sn, shape),
            acc == want,
            if want { "accept (honest aggregate, exact list)" } else if identity_aggregate { "reject (identity aggregate)" } else { "reject (repeated message in Basic)" },
            verdict(&v),
        );
    }
}

// ---- large honest aggregates (C03): bytes and decisions against the reference -------------------------------

#[derive(Copy, Clone, Debug, PartialEq, Eq, Hash, Serialize, Deserialize)]
pub struct LargeSt {
    s: Scheme,
    n: usize,
    /// 0 = the honest aggregate; 1 = the aggregate without the first 64 parts, against the full list
    variant: u8,
}

pub struct MAggLarge<C: Suite> {
    prop: &'static str,
    ns: Vec<usize>,
    sks: Vec<SecretKey<C>>,
    _c: PhantomData<C>,
}

impl<C: Suite> MAggLarge<C> {
    pub fn new(prop: &'static str, tier: Tier) -> Self {
        // block sizes of batched pairing code (16, 32, 64, 128) and the 8 bit boundary
        let ns: Vec<usize> = if tier.thorough() { vec![16, 17, 32, 33, 64, 65, 127, 128, 129, 192, 193, 255, 256, 257, 300] } else { vec![64, 65, 127, 128, 129, 256, 257] };
        let nk = *ns.iter().max().unwrap();
        let sks = (0..nk).map(|i| SecretKey::<C>::from_hash(format!("aggx-large-{}", i))).collect();
        MAggLarge { prop, ns, sks, _c: PhantomData }
    }
}

impl<C: Suite> Model for MAggLarge<C> {
    type State = Option<LargeSt>;
    type Action = LargeSt;
    fn name(&self) -> String {
        format!("{}-aggregate-large/{}", self.prop.to_lowercase(), C::G)
    }
    fn init(&self) -> Vec<Option<LargeSt>> {
        vec![None]
    }
    fn actions(&self, st: &Option<LargeSt>) -> Vec<LargeSt> {
        if st.is_some() {
            return vec![];
        }
        let mut v = vec![];
        for s in SCHEMES {
            for &n in &self.ns {
                v.push(LargeSt { s, n, variant: 0 });
                if n >= 66 {
                    v.push(LargeSt { s, n, variant: 1 });
                }
            }
        }
        v
    }
    fn step(&self, _s: &Option<LargeSt>, a: &LargeSt) -> Option<Option<LargeSt>> {
        Some(Some(*a))
    }
    fn describe(&self, st: &Option<LargeSt>) -> String {
        match st {
            None => "root".into(),
            Some(s) => format!("{} {} aggregate of {} signers over distinct messages{}", C::G, s.s.name(), s.n, if s.variant == 1 { ", the first 64 parts left out, verified against the full list" } else { "" }),
        }
    }
    fn required_outcomes(&self) -> Vec<String> {
        vec!["large:accept".into(), "large:incomplete-reject".into()]
    }
    fn check(&self, st: &Option<LargeSt>, o: &mut Obs) {
        let Some(st) = st else { return };
        o.nontrivial = true;
        let (p, g, sn) = (self.prop, C::G, st.s.name());
        let msgs: Vec<Vec<u8>> = (0..st.n).map(|i| format!("large aggregate message {}", i).into_bytes()).collect();
        let sigs: Vec<Signature<C>> = (0..st.n).map(|i| self.sks[i].sign(lib_scheme(st.s), &msgs[i]).expect("honest sign")).collect();
        let list: Vec<(PublicKey<C>, Vec<u8>)> = (0..st.n).map(|i| (self.sks[i].public_key(), msgs[i].clone())).collect();
        let parts = if st.variant == 1 { &sigs[64..] } else { &sigs[..] };
        let agg = match guard(|| AggregateSignature::<C>::from_signatures(parts)) {
            Ok(Ok(a)) => a,
            r => {
                o.expect(&format!("{}:large-aggregate-builds:{}:{}", p, g, sn), false, "Ok", verdict(&r));
                return;
            }
        };
        let aggb = Vec::<u8>::from(&agg)[1..].to_vec();
        let rsum = rf::aggregate::<C::R>(&parts.iter().map(|x| <C::R as RefSuite>::sig_from(&pt(x.as_raw_value())).expect("honest signature decodes")).collect::<Vec<_>>());
        o.expect(&format!("{}:large-aggregate-is-sum:{}:{}", p, g, sn), aggb == rf::enc(&rsum), "the reference point sum", "differs");
        let v = guard(|| agg.verify(&list));
        o.calls(2);
        let acc = matches!(v, Ok(Ok(())));
        let want = st.variant == 0;
        o.outcome(if want { if acc { "large:accept" } else { "large:reject" } } else if acc { "large:incomplete-accept" } else { "large:incomplete-reject" });
        o.expect(
            &format!("{}:large-aggregate-verify:{}:{}:n{}:{}", p, g, sn, if st.n >= 256 { ">=256" } else if st.n >= 128 { ">=128" } else if st.n > 64 { ">64" } else { "<=64" }, if want { "honest" } else { "first-64-parts-missing" }),
            acc == want && v.is_ok(),
            if want { "accept" } else { "reject" },
            verdict(&v),
        );
        // the reference takes the same decision on the same bytes (one size per band to bound the cost)
        if [64usize, 128, 257].contains(&st.n) || st.n == 16 {
            let pairs: Vec<(Vec<u8>, Vec<u8>)> = list.iter().map(|(k, m)| (Vec::<u8>::from(k), m.clone())).collect();
            let r = rf::aggregate_verify::<C::R>(st.s, &pairs, &aggb);
            o.expect(&format!("{}:large-aggregate-vs-reference:{}:{}", p, g, sn), r == want, if want { "accept" } else { "reject" }, if r { "accept" } else { "reject" });
        }
    }
}

// ---- every message pattern over short lists of distinct signers (C06, C17) -----------------------------------

#[derive(Clone, Debug, PartialEq, Eq, Hash, Serialize, Deserialize)]
pub struct PatSt {
    s: Scheme,
    /// message letter (0..3) per list position; the signer of position i is key #i
    pat: Vec<u8>,
}

pub struct MAggPattern<C: Suite> {
    prop: &'static str,
    maxlen: usize,
    sks: Vec<SecretKey<C>>,
    _c: PhantomData<C>,
}

impl<C: Suite> MAggPattern<C> {
    pub fn new(prop: &'static str, tier: Tier) -> Self {
        let maxlen = if tier.thorough() { 7 } else { 6 };
        MAggPattern { prop, maxlen, sks: (0..maxlen).map(|i| SecretKey::<C>::from_hash(format!("aggx-pattern-{}", i))).collect(), _c: PhantomData }
    }
}

impl<C: Suite> Model for MAggPattern<C> {
    type State = PatSt;
    type Action = u8;
    fn name(&self) -> String {
        format!("{}-aggregate-message-patterns/{}", self.prop.to_lowercase(), C::G)
    }
    fn init(&self) -> Vec<PatSt> {
        SCHEMES.iter().map(|s| PatSt { s: *s, pat: vec![] }).collect()
    }
    fn actions(&self, st: &PatSt) -> Vec<u8> {
        if st.pat.len() >= self.maxlen {
            vec![]
        } else {
            // canonical patterns only: a new letter is the smallest unused one (restricted growth strings)
            let next = st.pat.iter().copied().max().map(|m| m + 1).unwrap_or(0);
            (0..=next.min(2)).collect()
        }
    }
    fn step(&self, st: &PatSt, a: &u8) -> Option<PatSt> {
        let mut n = st.clone();
        n.pat.push(*a);
        Some(n)
    }
    fn describe(&self, st: &PatSt) -> String {
        format!("{} {} aggregate of {} distinct signers over messages {:?} (equal letters = equal messages)", C::G, st.s.name(), st.pat.len(), st.pat.iter().map(|l| (b'A' + l) as char).collect::<String>())
    }
    fn required_outcomes(&self) -> Vec<String> {
        vec!["pattern:accept".into(), "pattern:reject-basic-duplicate".into()]
    }
    fn check(&self, st: &PatSt, o: &mut Obs) {
        if st.pat.len() < 2 {
            return;
        }
        o.nontrivial = true;
        let (p, g, sn) = (self.prop, C::G, st.s.name());
        let msg = |l: u8| format!("pattern message {}", (b'A' + l) as char).into_bytes();
        let sigs: Vec<Signature<C>> = st.pat.iter().enumerate().map(|(i, l)| self.sks[i].sign(lib_scheme(st.s), &msg(*l)).expect("honest sign")).collect();
        let list: Vec<(PublicKey<C>, Vec<u8>)> = st.pat.iter().enumerate().map(|(i, l)| (self.sks[i].public_key(), msg(*l))).collect();
        let dup = (0..st.pat.len()).any(|i| (0..i).any(|j| st.pat[i] == st.pat[j]));
        let want = !(st.s == Scheme::Basic && dup);
        let r = guard(|| AggregateSignature::<C>::from_signatures(&sigs).and_then(|a| a.verify(&list)));
        o.calls(2);
        let shape = if !dup { "all-distinct" } else if st.pat.iter().all(|l| *l == st.pat[0]) { "all-equal" } else { "mixed-repeats" };
        o.outcome(if want { "pattern:accept" } else { "pattern:reject-basic-duplicate" });
        match &r {
            Err(pn) => o.expect(&format!("{}:aggregate-message-pattern:{}:{}:{}:panic", p, g, sn, shape), false, "returns", pn),
            // C17 judges only that the call returns
            Ok(_) if p == "C17" => {}
            Ok(v) => o.expect(
                &format!("{}:aggregate-message-pattern:{}:{}:{}", p, g, sn, shape),
                v.is_ok() == want,
                if want { "accept (honest aggregate, exact list)" } else { "reject (repeated message in Basic)" },
                if v.is_ok() { "Ok" } else { "Err" },
            ),
        }
    }
}

// ---- very long lists: aggregation only (C03) ---------------------------------------------------------------------
//
// The aggregate of n signatures is their plain sum for every n; a list counted with a 16 bit integer, or a cap on the
// work done for "untrusted" lists, shows beyond 2^16 entries. Only the aggregation side is run (a verification of
// 65 537 pairs costs minutes): bytes against the reference sum, and a foreign scheme label at the last position.

#[derive(Copy, Clone, Debug, PartialEq, Eq, Hash, Serialize, Deserialize)]
pub struct HugeSt {
    s: Scheme,
    n: usize,
    /// a part under another scheme label at the last position (must be refused)
    foreign_last: bool,
}

pub struct MAggHuge<C: Suite> {
    prop: &'static str,
    tier: Tier,
    /// 64 signatures per scheme, entry i of a list is signature i mod 64
    sigs: Vec<Vec<Signature<C>>>,
    rsigs: Vec<Vec<<C::R as RefSuite>::Sig>>,
}

impl<C: Suite> MAggHuge<C> {
    pub fn new(prop: &'static str, tier: Tier) -> Self {
        let sks: Vec<SecretKey<C>> = (0..64).map(|i| SecretKey::<C>::from_hash(format!("aggx-huge-{}", i))).collect();
        let sigs: Vec<Vec<Signature<C>>> = SCHEMES.iter().map(|s| par_table(64, |i| sks[i].sign(lib_scheme(*s), format!("huge aggregate message {}", i).as_bytes()).expect("honest sign"))).collect();
        let rsigs = sigs.iter().map(|l| l.iter().map(|x| <C::R as RefSuite>::sig_from(&pt(x.as_raw_value())).expect("decodes")).collect()).collect();
        MAggHuge { prop, tier, sigs, rsigs }
    }
}

impl<C: Suite> Model for MAggHuge<C> {
    type State = Option<HugeSt>;
    type Action = HugeSt;
    fn name(&self) -> String {
        format!("{}-aggregate-very-long-lists/{}", self.prop.to_lowercase(), C::G)
    }
    fn init(&self) -> Vec<Option<HugeSt>> {
        vec![None]
    }
    fn actions(&self, st: &Option<HugeSt>) -> Vec<HugeSt> {
        if st.is_some() {
            return vec![];
        }
        let ns: &[usize] = if self.tier.thorough() { &[8191, 8193, 32769, 65535, 65536, 65537, 65538, 70001, 131073, 262145] } else { &[8193, 65536, 65537, 70001] };
        let mut v = vec![];
        for s in SCHEMES {
            for &n in ns {
                v.push(HugeSt { s, n, foreign_last: false });
                v.push(HugeSt { s, n, foreign_last: true });
            }
        }
        v
    }
    fn step(&self, _s: &Option<HugeSt>, a: &HugeSt) -> Option<Option<HugeSt>> {
        Some(Some(*a))
    }
    fn describe(&self, st: &Option<HugeSt>) -> String {
        format!("{} aggregation of a very long list {:?}", C::G, st)
    }
    fn required_outcomes(&self) -> Vec<String> {
        vec!["very-long:is-sum".into(), "very-long:foreign-label-refused".into()]
    }
    fn check(&self, st: &Option<HugeSt>, o: &mut Obs) {
        let Some(st) = st else { return };
        o.nontrivial = true;
        let (p, g, sn) = (self.prop, C::G, st.s.name());
        let own = &self.sigs[st.s.idx()];
        let mut list: Vec<Signature<C>> = (0..st.n).map(|i| own[(i * 7 + i / 64) % 64]).collect();
        if st.foreign_last {
            let other = SCHEMES[(st.s.idx() + 1) % 3];
            list[st.n - 1] = mk_sig::<C>(other, *list[st.n - 1].as_raw_value());
        }
        let r = guard(|| AggregateSignature::<C>::from_signatures(&list));
        o.calls(1);
        let band = if st.n > 65536 { ">2^16" } else { "<=2^16" };
        if st.foreign_last {
            let refused = matches!(&r, Ok(Err(_)));
            o.outcome(if refused { "very-long:foreign-label-refused" } else { "very-long:foreign-label-accepted" });
            o.expect(&format!("{}:very-long-list-foreign-label-at-the-end:{}:{}:{}", p, g, sn, band), refused, "Err (mixed schemes)", verdict(&r));
            return;
        }
        let mut rsum = <<C::R as RefSuite>::Sig as bls12_381_plus::group::Group>::identity();
        for i in 0..st.n {
            rsum += self.rsigs[st.s.idx()][(i * 7 + i / 64) % 64];
        }
        let ok = matches!(&r, Ok(Ok(a)) if Vec::<u8>::from(a)[1..] == rf::enc(&rsum)[..]);
        o.outcome(if ok { "very-long:is-sum" } else { "very-long:differs" });
        o.expect(&format!("{}:very-long-list-aggregate-is-sum:{}:{}:{}", p, g, sn, band), ok, "the reference point sum of all entries", verdict(&r));
    }
}

// ---- messages derived from another message of the list (C03, C06) -------------------------------------------------
//
// Lists in which one message is a function of another one: its SHA-256 / SHA3-256 / SHA-512 digest, its first 32 bytes,
// its hex text, its reversal. A verifier that keys a table of messages by anything shorter than the message itself
// (a digest for long ones, a prefix) merges two entries here. Distinct signers; every ordered pair and triple.

#[derive(Clone, Debug, PartialEq, Eq, Hash, Serialize, Deserialize)]
pub struct DerSt {
    s: Scheme,
    list: Vec<u8>,
    /// the signatures of entry `list[0]`'s message at every position (nobody signed the other messages): must be rejected
    forged: bool,
}

pub struct MAggDerived<C: Suite> {
    prop: &'static str,
    sks: Vec<SecretKey<C>>,
    msgs: Vec<(String, Vec<u8>)>,
}

impl<C: Suite> MAggDerived<C> {
    pub fn new(prop: &'static str) -> Self {
        use sha2::Digest as _;
        let long = b"a message of more than thirty-two bytes, the digests of which are messages of the same list".to_vec();
        let msgs = vec![
            ("L".to_string(), long.clone()),
            ("SHA-256(L)".to_string(), sha2::Sha256::digest(&long).to_vec()),
            ("SHA3-256(L)".to_string(), <sha3::Sha3_256 as sha3::Digest>::digest(&long).to_vec()),
            ("SHA-512(L)".to_string(), sha2::Sha512::digest(&long).to_vec()),
            ("L[..32]".to_string(), long[..32].to_vec()),
            ("hex(SHA-256(L))".to_string(), hex::encode(sha2::Sha256::digest(&long)).into_bytes()),
            ("SHA-256(SHA-256(L))".to_string(), sha2::Sha256::digest(sha2::Sha256::digest(&long)).to_vec()),
        ];
        let sks = (0..3).map(|i| SecretKey::<C>::from_hash(format!("aggx-derived-{}", i))).collect();
        MAggDerived { prop, sks, msgs }
    }
}

impl<C: Suite> Model for MAggDerived<C> {
    type State = DerSt;
    type Action = u8;
    fn name(&self) -> String {
        format!("{}-aggregate-messages-derived-from-one-another/{}", self.prop.to_lowercase(), C::G)
    }
    fn init(&self) -> Vec<DerSt> {
        SCHEMES.iter().map(|s| DerSt { s: *s, list: vec![], forged: false }).collect()
    }
    fn actions(&self, st: &DerSt) -> Vec<u8> {
        if st.forged {
            return vec![];
        }
        let mut a: Vec<u8> = if st.list.len() >= 3 { vec![] } else { (0..self.msgs.len() as u8).filter(|m| !st.list.contains(m)).collect() };
        if st.list.len() >= 2 {
            a.push(100);
        }
        a
    }
    fn step(&self, st: &DerSt, a: &u8) -> Option<DerSt> {
        let mut n = st.clone();
        if *a == 100 {
            n.forged = true;
        } else {
            n.list.push(*a);
        }
        Some(n)
    }
    fn describe(&self, st: &DerSt) -> String {
        format!("{} {} aggregate of distinct signers over [{}]{}", C::G, st.s.name(), st.list.iter().map(|m| self.msgs[*m as usize].0.clone()).collect::<Vec<_>>().join(", "), if st.forged { ", every part made over the first message" } else { "" })
    }
    fn required_outcomes(&self) -> Vec<String> {
        vec!["derived:accept".into(), "derived:forged-reject".into()]
    }
    fn check(&self, st: &DerSt, o: &mut Obs) {
        if st.list.len() < 2 {
            return;
        }
        o.nontrivial = true;
        let (p, g, sn) = (self.prop, C::G, st.s.name());
        let list: Vec<(PublicKey<C>, Vec<u8>)> = st.list.iter().enumerate().map(|(i, m)| (self.sks[i].public_key(), self.msgs[*m as usize].1.clone())).collect();
        let sigs: Vec<Signature<C>> = st.list.iter().enumerate().map(|(i, m)| self.sks[i].sign(lib_scheme(st.s), &self.msgs[if st.forged { st.list[0] } else { *m } as usize].1).expect("honest sign")).collect();
        let r = guard(|| AggregateSignature::<C>::from_signatures(&sigs).and_then(|a| a.verify(&list)));
        o.calls(2);
        let acc = matches!(&r, Ok(Ok(())));
        let pairs: Vec<(Vec<u8>, Vec<u8>)> = list.iter().map(|(k, m)| (Vec::<u8>::from(k), m.clone())).collect();
        let mut sum = SgP::<C>::identity();
        for x in &sigs {
            sum += x.as_raw_value();
        }
        let want = rf::aggregate_verify::<C::R>(st.s, &pairs, &pt(&sum));
        assert_eq!(want, !st.forged, "the reference accepts exactly the honest lists");
        o.outcome(if st.forged { if acc { "derived:forged-accept" } else { "derived:forged-reject" } } else if acc { "derived:accept" } else { "derived:reject" });
        let which = st.list.iter().map(|m| self.msgs[*m as usize].0.clone()).collect::<Vec<_>>().join("+");
        o.expect(&format!("{}:messages-derived-from-one-another:{}:{}:{}:{}", p, g, sn, if st.forged { "forged" } else { "honest" }, which), acc == want && r.is_ok(), if want { "accept" } else { "reject" }, verdict(&r));
    }
}

pub fn models(prop: &'static str, tier: Tier, seed: u64) -> Vec<Box<dyn DynModel>> {
    let d = if tier.thorough() { 5 } else { 4 };
    let mut v = if prop == "C17" { vec![] } else { vec![bounded(MAggX::<Bls12381G1Impl>::new(prop, tier, seed), d), bounded(MAggX::<Bls12381G2Impl>::new(prop, tier, seed), d)] };
    if prop == "C06" || prop == "C17" {
        let d = if tier.thorough() { 7 } else { 6 };
        v.push(bounded(MAggPattern::<Bls12381G1Impl>::new(prop, tier), d));
        v.push(bounded(MAggPattern::<Bls12381G2Impl>::new(prop, tier), d));
    }
    if prop == "C03" {
        v.push(bounded(MAggLarge::<Bls12381G1Impl>::new(prop, tier), 1));
        v.push(bounded(MAggLarge::<Bls12381G2Impl>::new(prop, tier), 1));
        v.push(bounded(MAggHuge::<Bls12381G1Impl>::new(prop, tier), 1));
        v.push(bounded(MAggHuge::<Bls12381G2Impl>::new(prop, tier), 1));
    }
    if prop == "C03" || prop == "C06" {
        v.push(bounded(MAggDerived::<Bls12381G1Impl>::new(prop), 4));
        v.push(bounded(MAggDerived::<Bls12381G2Impl>::new(prop), 4));
    }
    v
}
