//! C18 - own-protocol wire formats are stable (golden corpus of the pinned release) and independently
//! implementable (bidirectional exchange with the reference implementation).
use crate::common::*;
use crate::engine::*;
use crate::refmodel::{self as rf, RefSuite, Scheme, SCHEMES};
use crate::registry::*;
use blsful::*;
use rand::Rng;
use rand_core::SeedableRng;
use serde::{Deserialize, Serialize};
use serde_json::Value;

// ---- part 1: golden corpus --------------------------------------------------------------------------

#[derive(Clone, Debug, PartialEq, Eq, Hash, Serialize, Deserialize)]
pub enum GSt {
    /// corpus entry #i
    Entry(usize),
    /// entry #i decoded and carried through codec
    Recode(usize, Codec),
}

pub struct MGolden {
    entries: Vec<Value>,
    reg: Vec<Box<dyn TyDyn + Send + Sync>>,
}

impl MGolden {
    pub fn new(seed: u64) -> Self {
        let doc: Value = serde_json::from_str(&std::fs::read_to_string("/verif/golden/corpus.json").expect("golden corpus")).expect("corpus json");
        MGolden { entries: doc["entries"].as_array().unwrap().clone(), reg: all_entries(seed, false) }
    }
}

fn hb(v: &Value) -> Vec<u8> {
    hex::decode(v.as_str().unwrap_or("")).unwrap_or_default()
}
fn scheme_of(v: &Value) -> Scheme {
    match v.as_str().unwrap_or("") {
        "Basic" => Scheme::Basic,
        "MessageAugmentation" => Scheme::Aug,
        _ => Scheme::Pop,
    }
}
fn codec_of(v: &Value) -> Codec {
    match v.as_str().unwrap_or("") {
        "Bytes" => Codec::Bytes,
        "Bare" => Codec::Bare,
        "Json" => Codec::Json,
        "Be" => Codec::Be,
        _ => Codec::Le,
    }
}

/// scenario entries: returns (what, ok, detail) triples
fn scenario<C: Suite>(e: &Value) -> Vec<(String, bool, String)> {
    let mut out = vec![];
    let kind = e["kind"].as_str().unwrap_or("");
    let s = scheme_of(&e["scheme"]);
    let mut chk = |what: &str, ok: bool, detail: String| out.push((format!("{}:{}", kind, what), ok, detail));
    match kind {
        "keypair" => {
            let sk = SecretKey::<C>::from_hash(hb(&e["seed"]));
            chk("from_hash", sk.to_be_bytes().to_vec() == hb(&e["sk"]), "secret key derived from the pinned seed".into());
            chk("public_key", Vec::<u8>::from(&sk.public_key()) == hb(&e["pk"]), "public key bytes".into());
        }
        "pop" => {
            let r = PublicKey::<C>::try_from(hb(&e["pk"]).as_slice()).and_then(|pk| ProofOfPossession::<C>::try_from(hb(&e["pop"]).as_slice()).and_then(|p| p.verify(pk)));
            chk("verify", r.is_ok(), format!("{:?}", r.err().map(|x| x.to_string())));
        }
        "signature" => {
            let r = PublicKey::<C>::try_from(hb(&e["pk"]).as_slice()).and_then(|pk| Signature::<C>::try_from(hb(&e["sig"]).as_slice()).and_then(|sg| sg.verify(&pk, hb(&e["msg"]))));
            chk(&format!("verify:{}", s.name()), r.is_ok(), format!("{:?}", r.err().map(|x| x.to_string())));
        }
        "aggregate" => {
            let pairs: Vec<(PublicKey<C>, Vec<u8>)> = e["pairs"].as_array().unwrap().iter().filter_map(|p| PublicKey::<C>::try_from(hb(&p[0]).as_slice()).ok().map(|k| (k, hb(&p[1])))).collect();
            let r = AggregateSignature::<C>::try_from(hb(&e["agg"]).as_slice()).and_then(|a| a.verify(&pairs));
            chk(&format!("verify:{}", s.name()), r.is_ok() && pairs.len() == 2, format!("{:?}", r.err().map(|x| x.to_string())));
        }
        "multisig" => {
            let r = MultiSignature::<C>::try_from(hb(&e["multi"]).as_slice()).and_then(|m| MultiPublicKey::<C>::try_from(hb(&e["mpk"]).as_slice()).and_then(|k| m.verify(k, hb(&e["msg"]))));
            chk(&format!("verify:{}", s.name()), r.is_ok(), format!("{:?}", r.err().map(|x| x.to_string())));
        }
        "signcrypt" => {
            let sk = SecretKey::<C>::try_from(hb(&e["sk"]).as_slice()).unwrap();
            let want = hb(&e["msg"]);
            match SignCryptCiphertext::<C>::try_from(hb(&e["ct"]).as_slice()) {
                Ok(ct) => {
                    chk(&format!("is_valid:{}", s.name()), bool::from(ct.is_valid()), "".into());
                    let d = Option::<Vec<u8>>::from(ct.decrypt(&sk));
                    chk(&format!("decrypt:{}", s.name()), d.as_ref() == Some(&want), format!("{:?}", d.map(|m| m.len())));
                    let kd = SignCryptDecryptionKey::<C>::try_from(hb(&e["key"]).as_slice()).ok().and_then(|k| Option::<Vec<u8>>::from(k.decrypt(&ct)));
                    chk(&format!("key-decrypt:{}", s.name()), kd.as_ref() == Some(&want), format!("{:?}", kd.map(|m| m.len())));
                }
                Err(er) => chk("decode", false, er.to_string()),
            }
        }
        "timelock" => {
            let want = hb(&e["msg"]);
            match TimeCryptCiphertext::<C>::try_from(hb(&e["ct"]).as_slice()) {
                Ok(ct) => {
                    for (field, exp) in [("scheme_sig", &e["scheme_sig_opens"]), ("core_sig", &e["core_sig_opens"])] {
                        let sg = Signature::<C>::try_from(hb(&e[field]).as_slice());
                        let d = sg.ok().and_then(|sg| Option::<Vec<u8>>::from(ct.decrypt(&sg)));
                        let exp_v = if exp.is_null() { None } else { Some(hb(exp)) };
                        chk(&format!("{}:{}", field, s.name()), d == exp_v, format!("pinned result {:?}, now {:?}", exp_v.as_ref().map(|m| m.len()), d.as_ref().map(|m| m.len())));
                        if let Some(x) = &exp_v {
                            chk(&format!("{}-is-message:{}", field, s.name()), *x == want, "".into());
                        }
                    }
                }
                Err(er) => chk("decode", false, er.to_string()),
            }
        }
        "pok" => {
            let r = (|| -> Result<(), String> {
                let pk = PublicKey::<C>::try_from(hb(&e["pk"]).as_slice()).map_err(|x| x.to_string())?;
                let y = ProofCommitmentChallenge::<C>::try_from(hb(&e["y"]).as_slice()).map_err(|x| x.to_string())?;
                let p = ProofOfKnowledge::<C>::try_from(hb(&e["proof"]).as_slice()).map_err(|x| x.to_string())?;
                p.verify(pk, hb(&e["msg"]), y).map_err(|x| x.to_string())
            })();
            chk(&format!("verify:{}", s.name()), r.is_ok(), format!("{:?}", r.err()));
        }
        "pok_ts" => {
            let r = (|| -> Result<(), String> {
                let pk = PublicKey::<C>::try_from(hb(&e["pk"]).as_slice()).map_err(|x| x.to_string())?;
                let p = ProofOfKnowledgeTimestamp::<C>::try_from(hb(&e["proof"]).as_slice()).map_err(|x| x.to_string())?;
                p.verify(pk, hb(&e["msg"]), None).map_err(|x| x.to_string())
            })();
            chk(&format!("verify:{}", s.name()), r.is_ok(), format!("{:?}", r.err()));
        }
        "shares" => {
            let sk = hb(&e["sk"]);
            let list = |f: &str| -> Vec<Vec<u8>> { e[f].as_array().unwrap().iter().map(hb).collect() };
            let ss: Vec<SecretKeyShare<C>> = list("secret_shares").iter().filter_map(|b| SecretKeyShare::<C>::try_from(b.as_slice()).ok()).collect();
            let ps: Vec<PublicKeyShare<C>> = list("pk_shares").iter().filter_map(|b| PublicKeyShare::<C>::try_from(b.as_slice()).ok()).collect();
            let gs: Vec<SignatureShare<C>> = list("sig_shares").iter().filter_map(|b| SignatureShare::<C>::try_from(b.as_slice()).ok()).collect();
            let ds: Vec<SignDecryptionShare<C>> = list("dec_shares").iter().filter_map(|b| SignDecryptionShare::<C>::try_from(b.as_slice()).ok()).collect();
            let es: Vec<ElGamalDecryptionShare<C>> = list("elgamal_shares").iter().filter_map(|b| ElGamalDecryptionShare::<C>::try_from(b.as_slice()).ok()).collect();
            chk("decode-all", ss.len() == 3 && ps.len() == 3 && gs.len() == 3 && ds.len() == 3 && es.len() == 3, "".into());
            if ss.len() == 3 && ps.len() == 3 && gs.len() == 3 && ds.len() == 3 && es.len() == 3 {
                for (a, b) in [(0usize, 1usize), (1, 2), (0, 2), (1, 0), (2, 1), (2, 0)] {
                    let k = SecretKey::<C>::combine(&[ss[a].clone(), ss[b].clone()]);
                    chk("combine", matches!(&k, Ok(k) if k.to_be_bytes().to_vec() == sk), format!("pair {},{}", a, b));
                    let p = PublicKey::<C>::from_shares(&[ps[a], ps[b]]);
                    chk("public-key-from-shares", matches!(&p, Ok(p) if Vec::<u8>::from(p) == hb(&e["pk"])), "".into());
                    let g = Signature::<C>::from_shares(&[gs[a], gs[b]]);
                    chk("signature-from-shares", matches!(&g, Ok(g) if Vec::<u8>::from(g) == hb(&e["whole_sig"])), "".into());
                    if let Ok(ct) = SignCryptCiphertext::<C>::try_from(hb(&e["signcrypt_ct"]).as_slice()) {
                        let d = Option::<Vec<u8>>::from(ct.decrypt_with_shares(&[ds[a].clone(), ds[b].clone()]));
                        chk("decrypt-with-shares", d == Some(hb(&e["msg"])), "".into());
                    }
                    if let Ok(ct) = ElGamalCiphertext::<C>::try_from(hb(&e["elgamal_ct"]).as_slice()) {
                        let d = ElGamalDecryptionKey::<C>::from_shares(&[es[a].clone(), es[b].clone()]).map(|k| pt(&k.decrypt(&ct)));
                        chk("elgamal-decrypt-with-shares", matches!(&d, Ok(x) if *x == hb(&e["elgamal_plain_point"])), "".into());
                    }
                }
                // all three shares, in every order
                for ord in [[0usize, 1, 2], [0, 2, 1], [1, 0, 2], [1, 2, 0], [2, 0, 1], [2, 1, 0]] {
                    if let Ok(ct) = SignCryptCiphertext::<C>::try_from(hb(&e["signcrypt_ct"]).as_slice()) {
                        let d = Option::<Vec<u8>>::from(ct.decrypt_with_shares(&[ds[ord[0]].clone(), ds[ord[1]].clone(), ds[ord[2]].clone()]));
                        chk("decrypt-with-shares-any-order", d == Some(hb(&e["msg"])), format!("order {:?}", ord));
                    }
                    let g = Signature::<C>::from_shares(&[gs[ord[0]], gs[ord[1]], gs[ord[2]]]);
                    chk("signature-from-shares-any-order", matches!(&g, Ok(g) if Vec::<u8>::from(g) == hb(&e["whole_sig"])), format!("order {:?}", ord));
                }
                for i in 0..3 {
                    chk("share-verify", ps[i].verify(&gs[i], hb(&e["msg"])).is_ok(), format!("share {}", i));
                }
            }
        }
        "elgamal" => {
            let sk = SecretKey::<C>::try_from(hb(&e["sk"]).as_slice()).unwrap();
            let pk = PublicKey::<C>::try_from(hb(&e["pk"]).as_slice()).unwrap();
            chk("generator", pt(&<C as BlsElGamal>::message_generator()) == hb(&e["generator"]), "message generator".into());
            if let Ok(ct) = ElGamalCiphertext::<C>::try_from(hb(&e["ct"]).as_slice()) {
                chk("decrypt", pt(&ct.decrypt(&sk)) == hb(&e["plain_point"]), "".into());
                let dk = ElGamalDecryptionKey::<C>::try_from(hb(&e["dec_key"]).as_slice());
                chk("key-decrypt", matches!(&dk, Ok(k) if pt(&k.decrypt(&ct)) == hb(&e["plain_point"])), "".into());
            } else {
                chk("decode-ct", false, "".into());
            }
            match ElGamalProof::<C>::try_from(hb(&e["proof"]).as_slice()) {
                Ok(p) => {
                    chk("proof-verify", p.verify(pk).is_ok(), "".into());
                    let d = p.verify_and_decrypt(&sk);
                    chk("proof-verify-and-decrypt", matches!(&d, Ok(x) if pt(x) == hb(&e["plain_point"])), "".into());
                }
                Err(er) => chk("decode-proof", false, er.to_string()),
            }
        }
        "derive" => {
            let ch = ProofCommitmentChallenge::<C>::from_hash(b"golden challenge");
            chk("challenge-from-hash", Vec::<u8>::from(&ch) == hb(&e["challenge_from_hash"]), "".into());
        }
        _ => {}
    }
    out
}

impl Model for MGolden {
    type State = GSt;
    type Action = Codec;
    fn name(&self) -> String {
        "c18-golden-corpus".into()
    }
    fn init(&self) -> Vec<GSt> {
        (0..self.entries.len()).map(GSt::Entry).collect()
    }
    fn actions(&self, st: &GSt) -> Vec<Codec> {
        match st {
            GSt::Entry(i) if self.entries[*i]["kind"] == "value" => vec![Codec::Bytes, Codec::Bare, Codec::Json, Codec::JsonReader, Codec::JsonValue],
            _ => vec![],
        }
    }
    fn step(&self, st: &GSt, a: &Codec) -> Option<GSt> {
        match st {
            GSt::Entry(i) => Some(GSt::Recode(*i, *a)),
            _ => None,
        }
    }
    fn describe(&self, st: &GSt) -> String {
        let (i, c) = match st {
            GSt::Entry(i) => (*i, None),
            GSt::Recode(i, c) => (*i, Some(*c)),
        };
        let e = &self.entries[i];
        format!("corpus entry #{} kind={} type={} group={} scheme={} codec={} label={} recode={:?}", i, e["kind"], e["type"], e["group"], e["scheme"], e["codec"], e["label"], c)
    }
    fn required_outcomes(&self) -> Vec<String> {
        vec!["value:decodes-and-reencodes".into(), "scenario:same-result".into()]
    }
    fn check(&self, st: &GSt, o: &mut Obs) {
        o.nontrivial = true;
        let (i, recode) = match st {
            GSt::Entry(i) => (*i, None),
            GSt::Recode(i, c) => (*i, Some(*c)),
        };
        let e = &self.entries[i];
        let kind = e["kind"].as_str().unwrap_or("");
        if kind == "value" {
            let tn = e["type"].as_str().unwrap_or("");
            let c = codec_of(&e["codec"]);
            let bytes = hb(&e["hex"]);
            let Some(ty) = self.reg.iter().find(|t| t.name() == tn) else {
                panic!("corpus type {} is not in the registry", tn);
            };
            o.calls(1);
            match ty.decode(c, &bytes) {
                Err(p) => o.expect(&format!("C18:golden-decode-panics:{}:{:?}", tn, c), false, "returns", &p),
                Ok(Err(er)) => {
                    o.outcome("value:rejected");
                    o.expect(&format!("C18:golden-value-still-accepted:{}:{:?}", tn, c), false, "decodes", &er);
                }
                Ok(Ok(v)) => match recode {
                    None => {
                        // the pinned human readable documents are also read through a reader and as a parsed value
                        if c == Codec::Json {
                            for alt in [Codec::JsonReader, Codec::JsonValue] {
                                if ty.codecs().contains(&alt) {
                                    let r = ty.decode(alt, &bytes).map_err(|p| p).and_then(|r| r).and_then(|v2| v2.encode(c));
                                    o.expect(&format!("C18:golden-value-still-accepted:{}:{:?}", tn, alt), matches!(&r, Ok(b) if *b == bytes), "decodes to the pinned value", &format!("{:?}", r.err()));
                                }
                            }
                        }
                        let re = v.encode(c);
                        let same = matches!(&re, Ok(b) if *b == bytes);
                        o.outcome(if same { "value:decodes-and-reencodes" } else { "value:reencodes-differently" });
                        o.expect(&format!("C18:golden-reencode-identical:{}:{:?}", tn, c), same, "identical bytes", "different bytes");
                    }
                    Some(c2) => {
                        if !ty.codecs().contains(&c2) {
                            return;
                        }
                        // pinned bytes -> value -> other codec -> value -> pinned codec gives the pinned bytes
                        let r = v.encode(c2).and_then(|b| ty.decode(c2, &b).map_err(|p| p).and_then(|r| r)).and_then(|v2| v2.encode(c));
                        let same = matches!(&r, Ok(b) if *b == bytes);
                        o.outcome(if same { "value:recode-roundtrip" } else { "value:recode-differs" });
                        o.expect(&format!("C18:golden-recode:{}:{:?}->{:?}", tn, c, c2), same, "pinned bytes", &format!("{:?}", r.err()));
                    }
                },
            }
            return;
        }
        let res = guard(|| if e["group"] == "G1" { scenario::<Bls12381G1Impl>(e) } else { scenario::<Bls12381G2Impl>(e) });
        o.calls(1);
        match res {
            Err(p) => o.expect(&format!("C18:golden-scenario-panics:{}", kind), false, "returns", &p),
            Ok(list) => {
                let all = list.iter().all(|x| x.1);
                o.outcome(if all { "scenario:same-result" } else { "scenario:different-result" });
                for (what, ok, detail) in list {
                    o.expect(&format!("C18:golden:{}:{}", e["group"].as_str().unwrap_or("-"), what), ok, "the result recorded at the pinned release", &detail);
                }
            }
        }
    }
}

// ---- part 2: exchange with the reference implementation --------------------------------------------------

#[derive(Copy, Clone, Debug, PartialEq, Eq, Hash, Serialize, Deserialize)]
pub enum Kind {
    SignCrypt,
    TimeLock,
    Pok,
    PokTs,
    ElGamal,
    /// trait level seal_scalar_with_proof / verify_proof / verify_and_decrypt with a caller supplied generator
    ElGamalCustomGenerator,
}

#[derive(Clone, Debug, PartialEq, Eq, Hash, Serialize, Deserialize)]
pub struct XSt {
    kind: Kind,
    s: Scheme,
    k: usize,
    len: usize,
    id: usize,
    e: usize,
    /// false: the library produces and the reference consumes; true: the reverse
    reverse: bool,
}

pub struct MExchange<C: Suite> {
    seed: u64,
    sks: Vec<SecretKey<C>>,
    lens: Vec<usize>,
    ids: Vec<Vec<u8>>,
}

impl<C: Suite> MExchange<C> {
    pub fn new(_tier: Tier, seed: u64) -> Self {
        let ka = key_alphabet(seed, false);
        MExchange {
            seed,
            sks: [3usize, 2].iter().map(|i| sk_from_be::<C>(&ka.be[*i]).unwrap()).collect(),
            // the first 17 lengths run the full matrix; the dense band behind them runs with one key, one identifier, one entropy answer
            lens: [0usize, 5, 30, 31, 32, 33, 45, 127, 128, 200, 16383, 16384, 65535, 65536, 65537, 2097151, 2097152].into_iter().chain(dense_lens()).collect(),
            ids: vec![vec![], b"id".to_vec(), data(seed, "c18-id", 64)],
        }
    }
}

/// the 32 entropy bytes a sealer draws from a CS-PRNG seeded with `seed`
fn entropy_bytes(seed: &[u8; 32]) -> [u8; 32] {
    rand_chacha::ChaCha20Rng::from_seed(*seed).gen::<[u8; 32]>()
}

impl<C: Suite> Model for MExchange<C> {
    type State = XSt;
    type Action = ();
    fn name(&self) -> String {
        format!("c18-exchange/{}", C::G)
    }
    fn init(&self) -> Vec<XSt> {
        let mut v = vec![];
        for s in SCHEMES {
            for k in 0..self.sks.len() {
                for e in 0..3 {
                    for (li, _) in self.lens.iter().enumerate() {
                        if li >= 17 && (k > 0 || e > 0) {
                            continue;
                        }
                        v.push(XSt { kind: Kind::SignCrypt, s, k, len: li, id: 0, e, reverse: false });
                        for id in 0..self.ids.len() + SPECIAL_MESSAGES.len() {
                            if li >= 17 && id != 1 {
                                continue;
                            }
                            v.push(XSt { kind: Kind::TimeLock, s, k, len: li, id, e, reverse: false });
                        }
                    }
                    for li in [0usize, 5] {
                        v.push(XSt { kind: Kind::Pok, s, k, len: li, id: 0, e, reverse: false });
                        v.push(XSt { kind: Kind::PokTs, s, k, len: li, id: 0, e, reverse: false });
                    }
                    if s == Scheme::Basic {
                        v.push(XSt { kind: Kind::ElGamal, s, k, len: 0, id: 0, e, reverse: false });
                        v.push(XSt { kind: Kind::ElGamalCustomGenerator, s, k, len: 0, id: 0, e, reverse: false });
                    }
                }
            }
        }
        v
    }
    fn actions(&self, st: &XSt) -> Vec<()> {
        if st.reverse {
            vec![]
        } else {
            vec![()]
        }
    }
    fn step(&self, st: &XSt, _a: &()) -> Option<XSt> {
        let mut n = st.clone();
        n.reverse = true;
        Some(n)
    }
    fn describe(&self, st: &XSt) -> String {
        format!("{} {:?} {} key#{} message length {} id#{} entropy#{}: {}", C::G, st.kind, st.s.name(), st.k, self.lens[st.len], st.id, st.e, if st.reverse { "reference produces, library consumes" } else { "library produces, reference consumes" })
    }
    fn required_outcomes(&self) -> Vec<String> {
        vec!["lib->ref:ok".into(), "ref->lib:ok".into(), "bit-identical".into()]
    }
    fn check(&self, st: &XSt, o: &mut Obs) {
        let g = C::G;
        o.nontrivial = true;
        let sk = &self.sks[st.k];
        let pk = sk.public_key();
        let rsk = rf::scalar_from_be(&sk.to_be_bytes()).unwrap();
        let rpk = rf::sk_to_pk::<C::R>(&rsk);
        let msg = msg_of(self.seed, self.lens[st.len], 3);
        // identifier alphabet: the fixed ones, then identifiers built from the recipient's compressed public key
        let id_owned = if st.id < self.ids.len() { self.ids[st.id].clone() } else { special_message(&Vec::<u8>::from(&self.sks[st.k].public_key()), st.id - self.ids.len()) };
        let id = &id_owned;
        let ls = lib_scheme(st.s);
        let seed = data32(self.seed, &format!("c18-entropy-{}", st.e));
        let dir = if st.reverse { "ref->lib" } else { "lib->ref" };
        let key = |what: &str| format!("C18:{:?}:{}:{}:{}:{}", st.kind, what, dir, g, st.s.name());
        let to_lib_pk = |p: &<C::R as RefSuite>::Pk| pt_from::<PkP<C>>(&rf::enc(p));
        let to_lib_sig = |p: &<C::R as RefSuite>::Sig| pt_from::<SgP<C>>(&rf::enc(p));
        let mut ok_all = true;
        let mut expect = |o: &mut Obs, k: String, ok: bool, exp: &str, obs: String| {
            ok_all &= ok;
            o.expect(&k, ok, exp, &obs);
        };
        match st.kind {
            Kind::SignCrypt => {
                let rct = rf::signcrypt_seal::<C::R>(&rpk, &msg, st.s, &entropy_bytes(&seed));
                if !st.reverse {
                    let ct = match with_env(vec![seed], None, || pk.sign_crypt(ls, &msg)) {
                        Ok(c) => c,
                        Err(p) => {
                            o.expect(&key("seal-panics"), false, "returns", &p);
                            return;
                        }
                    };
                    o.calls(1);
                    let same = pt(&ct.u) == rf::enc(&rct.u) && ct.v == rct.v && pt(&ct.w) == rf::enc(&rct.w);
                    if same {
                        o.outcome("bit-identical");
                    }
                    expect(o, key("bit-identical-to-reference"), same, "identical (u, v, w) from the same entropy answer", format!("u {} v {} w {}", pt(&ct.u) == rf::enc(&rct.u), ct.v == rct.v, pt(&ct.w) == rf::enc(&rct.w)));
                    // the reference opens the library's ciphertext (decoded from its bytes)
                    let u = <C::R as RefSuite>::pk_from(&pt(&ct.u));
                    let w = <C::R as RefSuite>::sig_from(&pt(&ct.w));
                    let opened = match (u, w) {
                        (Some(u), Some(w)) => rf::signcrypt_open::<C::R>(&u, &ct.v, &w, st.s, &rsk),
                        _ => None,
                    };
                    expect(o, key("reference-opens"), opened.as_ref() == Some(&msg), "the message", format!("{:?}", opened.map(|m| m.len())));
                } else {
                    let ct = SignCryptCiphertext::<C> { u: to_lib_pk(&rct.u).unwrap(), v: rct.v.clone(), w: to_lib_sig(&rct.w).unwrap(), scheme: ls };
                    let v = bool::from(ct.is_valid());
                    let d = Option::<Vec<u8>>::from(ct.decrypt(sk));
                    o.calls(2);
                    expect(o, key("library-opens"), v && d.as_ref() == Some(&msg), "valid and the message", format!("valid={} {:?}", v, d.map(|m| m.len())));
                    if st.len <= 4 && st.e == 0 {
                        // threshold opening of the reference-made ciphertext: an honest split, and a crafted sharing in
                        // which two participants hold equal values
                        use rand_core::SeedableRng;
                        let honest = sk.split_with_rng(2, 3, rand_chacha::ChaCha20Rng::from_seed([18u8; 32])).unwrap();
                        let crafted = shares_with_equal_values::<C>(sk, 4);
                        for (what, set) in [("honest-2-of-3", vec![&honest[2], &honest[0]]), ("equal-valued-3-of-4", vec![&crafted[0], &crafted[1], &crafted[2]]), ("equal-valued-3-of-4-reordered", vec![&crafted[3], &crafted[1], &crafted[0]])] {
                            let ds: Vec<SignDecryptionShare<C>> = set.iter().map(|x| ct.create_decryption_share(x).unwrap()).collect();
                            let d = Option::<Vec<u8>>::from(ct.decrypt_with_shares(&ds));
                            expect(o, key(&format!("library-opens-with-shares:{}", what)), d.as_ref() == Some(&msg), "the message", format!("{:?}", d.map(|m| m.len())));
                        }
                    }
                }
            }
            Kind::TimeLock => {
                let rct = rf::timelock_seal::<C::R>(&rpk, &msg, id, st.s, &entropy_bytes(&seed)).unwrap();
                let sig = sk.sign(ls, id).unwrap();
                if !st.reverse {
                    let ct = match with_env(vec![seed], None, || pk.encrypt_time_lock(ls, &msg, id)) {
                        Ok(Ok(c)) => c,
                        r => {
                            o.expect(&key("seal-fails"), false, "Ok", verdict(&r));
                            return;
                        }
                    };
                    o.calls(1);
                    let same = pt(&ct.u) == rf::enc(&rct.u) && ct.v == rct.v && ct.w == rct.w;
                    if same {
                        o.outcome("bit-identical");
                    }
                    expect(o, key("bit-identical-to-reference"), same, "identical (u, v, w) from the same entropy answer", format!("u {} v {} w {}", pt(&ct.u) == rf::enc(&rct.u), ct.v == rct.v, ct.w == rct.w));
                    let rsig = rf::sign::<C::R>(&rsk, st.s, id);
                    let opened = <C::R as RefSuite>::pk_from(&pt(&ct.u)).and_then(|u| rf::timelock_open::<C::R>(&u, &ct.v, &ct.w, &rsig));
                    expect(o, key("reference-opens"), opened.as_ref() == Some(&msg), "the message", format!("{:?}", opened.map(|m| m.len())));
                } else {
                    let ct = TimeCryptCiphertext::<C> { u: to_lib_pk(&rct.u).unwrap(), v: rct.v, w: rct.w.clone(), scheme: ls };
                    let d = Option::<Vec<u8>>::from(ct.decrypt(&sig));
                    o.calls(1);
                    expect(o, key("library-opens"), d.as_ref() == Some(&msg), "the message", format!("{:?}", d.map(|m| m.len())));
                }
            }
            Kind::Pok | Kind::PokTs => {
                // the augmentation scheme's proofs are made over pk || msg (C10 known finding)
                let pmsg = if st.s == Scheme::Aug { rf::aug_msg::<C::R>(&rpk, &msg) } else { msg.clone() };
                let sig = sk.sign(ls, &msg).unwrap();
                let rsig = <C::R as RefSuite>::sig_from(&pt(sig.as_raw_value())).unwrap();
                let t0 = CLOCK0 + st.e as u64;
                if !st.reverse {
                    let r = with_env(vec![seed], Some(t0), || -> Result<(SgP<C>, SgP<C>, rf::RScalar), String> {
                        if st.kind == Kind::Pok {
                            let (c, x) = ProofCommitment::<C>::generate(&pmsg, sig).map_err(|e| e.to_string())?;
                            let y = ProofCommitmentChallenge::<C>::from_hash(format!("nonce {}", st.e));
                            let p = c.finalize(x, y, sig).map_err(|e| e.to_string())?;
                            let (u, v) = match p {
                                ProofOfKnowledge::Basic { u, v } | ProofOfKnowledge::MessageAugmentation { u, v } | ProofOfKnowledge::ProofOfPossession { u, v } => (u, v),
                            };
                            // challenge derivation from_hash == reference KeyGen construction
                            let ry = rf::keygen(format!("nonce {}", st.e).as_bytes());
                            if rf::scalar_to_be(&ry) != y.to_be_bytes() {
                                return Err("challenge from_hash differs from the reference derivation".into());
                            }
                            Ok((u, v, ry))
                        } else {
                            let p = ProofOfKnowledgeTimestamp::<C>::generate(&pmsg, sig).map_err(|e| e.to_string())?;
                            let (u, v) = match p.proof {
                                ProofOfKnowledge::Basic { u, v } | ProofOfKnowledge::MessageAugmentation { u, v } | ProofOfKnowledge::ProofOfPossession { u, v } => (u, v),
                            };
                            let ru = <C::R as RefSuite>::sig_from(&pt(&u)).ok_or("decode u")?;
                            Ok((u, v, rf::pok_y::<C::R>(&ru, p.timestamp)))
                        }
                    });
                    o.calls(2);
                    match r {
                        Ok(Ok((u, v, y))) => {
                            let ru = <C::R as RefSuite>::sig_from(&pt(&u)).unwrap();
                            let rv = <C::R as RefSuite>::sig_from(&pt(&v)).unwrap();
                            let acc = rf::pok_verify::<C::R>(&ru, &rv, &rpk, &y, &pmsg, st.s);
                            expect(o, key("reference-verifies"), acc, "accept (own challenge derivation and pairing equation)", "reject".into());
                        }
                        r => expect(o, key("library-proves"), false, "Ok", format!("{:?}", r.map(|x| x.map(|_| ())))),
                    }
                } else {
                    // reference prover with explicit randomness x
                    let x = rf::hash_to_scalar(&seed, b"c18-pok-x");
                    let a = <C::R as RefSuite>::hash_to_sig(&pmsg, rf::sig_dst::<C::R>(st.s));
                    let u = a * x;
                    let (y, ts) = if st.kind == Kind::Pok { (rf::keygen(format!("nonce {}", st.e).as_bytes()), 0) } else { (rf::pok_y::<C::R>(&u, t0), t0) };
                    let (u, v) = rf::pok_prove::<C::R>(&rsig, &pmsg, st.s, &x, &y);
                    let (lu, lv) = (to_lib_sig(&u).unwrap(), to_lib_sig(&v).unwrap());
                    let p = match st.s {
                        Scheme::Basic => ProofOfKnowledge::<C>::Basic { u: lu, v: lv },
                        Scheme::Aug => ProofOfKnowledge::<C>::MessageAugmentation { u: lu, v: lv },
                        Scheme::Pop => ProofOfKnowledge::<C>::ProofOfPossession { u: lu, v: lv },
                    };
                    let acc = if st.kind == Kind::Pok {
                        let ly = ProofCommitmentChallenge::<C>::from_be_bytes(&rf::scalar_to_be(&y)).unwrap();
                        p.verify(pk, &pmsg, ly).is_ok()
                    } else {
                        ProofOfKnowledgeTimestamp::<C> { proof: p, timestamp: ts }.verify(pk, &pmsg, None).is_ok()
                    };
                    o.calls(1);
                    expect(o, key("library-verifies"), acc, "accept", "reject".into());
                }
            }
            Kind::ElGamalCustomGenerator => {
                let plain = &self.sks[1 - st.k];
                let rplain = rf::scalar_from_be(&plain.to_be_bytes()).unwrap();
                // a generator that is not the default one
                let rgen = <C::R as RefSuite>::hash_to_pk(format!("custom generator {}", st.e).as_bytes(), <C::R as RefSuite>::DST_ELGAMAL);
                let gen = to_lib_pk(&rgen).unwrap();
                let want = rf::enc(&(rgen * rplain));
                if !st.reverse {
                    let r = with_env(vec![], None, || <C as BlsElGamal>::seal_scalar_with_proof(pk.0, plain.0, Some(gen), None, rand_chacha::ChaCha20Rng::from_seed(seed)));
                    o.calls(1);
                    match r {
                        Ok(Ok((c1, c2, mp, bp, ch))) => {
                            let dec = |x: &PkP<C>| <C::R as RefSuite>::pk_from(&pt(x)).unwrap();
                            let sc = |x: &Sc<C>| rf::scalar_from_be(&sc_to_be::<C>(x)).unwrap();
                            let acc = rf::elgamal_verify_gen::<C::R>(&rpk, &rgen, &dec(&c1), &dec(&c2), &sc(&mp), &sc(&bp), &sc(&ch));
                            expect(o, key("reference-verifies"), acc, "accept (transcript binds the supplied generator)", "reject".into());
                            let m = dec(&c2) - dec(&c1) * rsk;
                            expect(o, key("reference-decrypts"), rf::enc(&m) == want, "plaintext times the supplied generator", "differs".into());
                        }
                        r => expect(o, key("prove-fails"), false, "Ok", verdict(&r).to_string()),
                    }
                } else {
                    let b = rf::hash_to_scalar(&seed, b"c18-elgamal-b");
                    let r = rf::hash_to_scalar(&seed, b"c18-elgamal-r");
                    let (c1, c2, mp, bp, ch) = rf::elgamal_prove_gen::<C::R>(&rpk, &rgen, &rplain, &b, &r);
                    let l = |x: &rf::RScalar| sc_from_be::<C>(&rf::scalar_to_be(x));
                    let v = <C as BlsElGamal>::verify_proof(pk.0, Some(gen), to_lib_pk(&c1).unwrap(), to_lib_pk(&c2).unwrap(), l(&mp), l(&bp), l(&ch)).is_ok();
                    let d = <C as BlsElGamal>::verify_and_decrypt(sk.0, Some(gen), to_lib_pk(&c1).unwrap(), to_lib_pk(&c2).unwrap(), l(&mp), l(&bp), l(&ch));
                    // the same proof presented with the default generator must not verify
                    let vdef = <C as BlsElGamal>::verify_proof(pk.0, None, to_lib_pk(&c1).unwrap(), to_lib_pk(&c2).unwrap(), l(&mp), l(&bp), l(&ch)).is_ok();
                    o.calls(3);
                    expect(o, key("library-verifies"), v && matches!(&d, Ok(x) if pt(x) == want) && !vdef, "accept with the supplied generator, decrypt to the plaintext point, reject under the default generator", format!("verify={} decrypt={} default={}", v, d.is_ok(), vdef));
                }
            }
            Kind::ElGamal => {
                let plain = &self.sks[1 - st.k];
                let rplain = rf::scalar_from_be(&plain.to_be_bytes()).unwrap();
                let want = rf::enc(&(rf::elgamal_generator::<C::R>() * rplain));
                if !st.reverse {
                    let p = match with_env(vec![seed], None, || pk.encrypt_key_el_gamal_with_proof(plain)) {
                        Ok(Ok(p)) => p,
                        r => {
                            o.expect(&key("prove-fails"), false, "Ok", verdict(&r));
                            return;
                        }
                    };
                    o.calls(1);
                    let dec = |x: &PkP<C>| <C::R as RefSuite>::pk_from(&pt(x)).unwrap();
                    let sc = |x: &Sc<C>| rf::scalar_from_be(&sc_to_be::<C>(x)).unwrap();
                    let acc = rf::elgamal_verify::<C::R>(&rpk, &dec(&p.ciphertext.c1), &dec(&p.ciphertext.c2), &sc(&p.message_proof), &sc(&p.blinder_proof), &sc(&p.challenge));
                    expect(o, key("reference-verifies"), acc, "accept (own merlin transcript)", "reject".into());
                    let m = dec(&p.ciphertext.c2) - dec(&p.ciphertext.c1) * rsk;
                    expect(o, key("reference-decrypts"), rf::enc(&m) == want, "plaintext times the reference generator", "differs".into());
                } else {
                    let b = rf::hash_to_scalar(&seed, b"c18-elgamal-b");
                    let r = rf::hash_to_scalar(&seed, b"c18-elgamal-r");
                    let (c1, c2, mp, bp, ch) = rf::elgamal_prove::<C::R>(&rpk, &rplain, &b, &r);
                    let p = ElGamalProof::<C> {
                        ciphertext: ElGamalCiphertext { c1: to_lib_pk(&c1).unwrap(), c2: to_lib_pk(&c2).unwrap() },
                        message_proof: sc_from_be::<C>(&rf::scalar_to_be(&mp)),
                        blinder_proof: sc_from_be::<C>(&rf::scalar_to_be(&bp)),
                        challenge: sc_from_be::<C>(&rf::scalar_to_be(&ch)),
                    };
                    let v = p.verify(pk).is_ok();
                    let d = p.verify_and_decrypt(sk);
                    o.calls(2);
                    expect(o, key("library-verifies"), v && matches!(&d, Ok(x) if pt(x) == want), "accept and decrypt to the plaintext point", format!("verify={} decrypt={}", v, d.is_ok()));
                }
            }
        }
        o.outcome(&format!("{}:{}", dir, if ok_all { "ok" } else { "fails" }));
    }
}

pub fn models(tier: Tier, seed: u64) -> Vec<Box<dyn DynModel>> {
    let mut v: Vec<Box<dyn DynModel>> = vec![bounded(MGolden::new(seed), 1), bounded(MExchange::<Bls12381G1Impl>::new(tier, seed), 1), bounded(MExchange::<Bls12381G2Impl>::new(tier, seed), 1)];
    v.extend(crate::props::mask::models("C18", seed));
    v
}

pub fn describe(_tier: Tier, r: &mut Report) {
    r.rule = "part 1: every entry of the golden corpus written by the pinned release (every data type x group x scheme in bytes / serde_bare / serde_json form, plus scenarios with the secrets needed to open them): decode, re-encode to the pinned bytes, carry through each other codec and back, and re-run the scenario (verify / decrypt / recombine) comparing with the result recorded at the pinned release. part 2: for scheme x 2 keys x lengths {0,5,30,31,32,33,45,127,128,200,16383,16384} x identifiers x 3 entropy answers, the library's signcryption and time-lock ciphertexts must be bit-identical to the reference's from the same entropy answer and the reference opens them; one action reverses the direction (the library opens / verifies what the reference made); proofs of knowledge (interactive, timestamp) and ElGamal proofs are exchanged in both directions; time-lock identifiers include the four values built from the recipient public key bytes".into();
    r.deviation_bound_completed = "n/a (both directions of every exchange)".into();
    r.assumptions = vec!["SecretKeyEnum's byte form is absent from the corpus: at the pinned release it was not self-readable (fixed defect D1); its serde forms are pinned".into(), "augmentation-scheme time-lock ciphertexts of the pinned release are pinned with both results that held there (scheme signature opens nothing; the trait-level signature over the bare identifier opens the message)".into()];
}
