//! C10 - signature proofs of knowledge are complete, challenge-bound and time-bound.
use crate::common::*;
use crate::engine::*;
use crate::refmodel::{self as rf, Scheme, SCHEMES};
use blsful::*;
use serde::{Deserialize, Serialize};
use std::marker::PhantomData;

#[derive(Copy, Clone, Debug, PartialEq, Eq, Hash, Serialize, Deserialize)]
pub enum Ch {
    One,
    Two,
    RMinus1,
    FromHash,
    New,
}

#[derive(Copy, Clone, Debug, PartialEq, Eq, Hash, Serialize, Deserialize)]
pub enum Tamper {
    UAddGBefore,
    UDblBefore,
    UOtherMsgBefore,
    UIdentityBefore,
    XPlus1Before,
    SigOtherKeyAtFinalize,
    UAddGAfter,
    UDblAfter,
    UOtherMsgAfter,
    UIdentityAfter,
    /// commitment = identity and v = -(sig * y): the pairing equation holds, only the identity guard can reject
    UIdentityForged,
    /// commitment u = -(H(m) * y): the blinded commitment u + H(m) y becomes the identity (v stays the honest one)
    UCancelsChallenge,
    VNeg,
    VAddG,
    VIdentity,
    YPlus1,
    YOther,
    YZero,
    MsgFlip,
    MsgOther,
    PkOther,
    PkIdentity,
    TCommitment(Codec),
    TSecret(Codec),
    TChallenge(Codec),
    TProof(Codec),
    /// v (or u) plus a point outside the prime order subgroup, presented through a decoder: the pairing does not see
    /// the added component, so only the decoder's subgroup check stands between the altered proof and acceptance
    VAddTorsion(Codec),
    UAddTorsion(Codec),
}

#[derive(Clone, Debug, PartialEq, Eq, Hash, Serialize, Deserialize)]
pub struct St {
    s: Scheme,
    k: usize,
    m: usize,
    ch: Ch,
    /// augmentation scheme only: prover and verifier use pk || msg as the message
    prefixed: bool,
    tamper: Option<Tamper>,
}

pub struct M10<C: Suite> {
    seed: u64,
    sks: Vec<SecretKey<C>>,
    msgs: Vec<Vec<u8>>,
    _c: PhantomData<C>,
}

fn parts<C: Suite>(p: &ProofOfKnowledge<C>) -> (SgP<C>, SgP<C>) {
    match *p {
        ProofOfKnowledge::Basic { u, v } | ProofOfKnowledge::MessageAugmentation { u, v } | ProofOfKnowledge::ProofOfPossession { u, v } => (u, v),
    }
}
fn mk_pok<C: Suite>(s: Scheme, u: SgP<C>, v: SgP<C>) -> ProofOfKnowledge<C> {
    match s {
        Scheme::Basic => ProofOfKnowledge::Basic { u, v },
        Scheme::Aug => ProofOfKnowledge::MessageAugmentation { u, v },
        Scheme::Pop => ProofOfKnowledge::ProofOfPossession { u, v },
    }
}
fn cparts<C: Suite>(p: &ProofCommitment<C>) -> SgP<C> {
    match *p {
        ProofCommitment::Basic(u) | ProofCommitment::MessageAugmentation(u) | ProofCommitment::ProofOfPossession(u) => u,
    }
}
fn mk_commit<C: Suite>(s: Scheme, u: SgP<C>) -> ProofCommitment<C> {
    match s {
        Scheme::Basic => ProofCommitment::Basic(u),
        Scheme::Aug => ProofCommitment::MessageAugmentation(u),
        Scheme::Pop => ProofCommitment::ProofOfPossession(u),
    }
}

fn prefixed_msg<C: Suite>(pk: &PublicKey<C>, msg: &[u8]) -> Vec<u8> {
    let mut m = Vec::<u8>::from(pk);
    m.extend_from_slice(msg);
    m
}

impl<C: Suite> M10<C> {
    pub fn new(_tier: Tier, seed: u64) -> Self {
        let ka = key_alphabet(seed, false);
        let sks = [3usize, 2].iter().map(|i| sk_from_be::<C>(&ka.be[*i]).unwrap()).collect();
        M10 {
            seed,
            sks,
            msgs: vec![vec![], msg_of(seed, 33, 3), msg_of(seed, 257, 3)],
            _c: PhantomData,
        }
    }
    fn challenge(&self, ch: Ch) -> ProofCommitmentChallenge<C> {
        match ch {
            Ch::One => ProofCommitmentChallenge(Sc::<C>::ONE),
            Ch::Two => ProofCommitmentChallenge(Sc::<C>::ONE + Sc::<C>::ONE),
            Ch::RMinus1 => ProofCommitmentChallenge(-Sc::<C>::ONE),
            Ch::FromHash => ProofCommitmentChallenge::<C>::from_hash(b"verifier nonce"),
            Ch::New => ProofCommitmentChallenge::<C>::new(),
        }
    }
}

impl<C: Suite> Model for M10<C> {
    type State = St;
    type Action = Tamper;
    fn name(&self) -> String {
        format!("c10-pok-interactive/{}", C::G)
    }
    fn init(&self) -> Vec<St> {
        let mut v = vec![];
        for s in SCHEMES {
            for k in 0..self.sks.len() {
                for m in 0..self.msgs.len() {
                    for ch in [Ch::One, Ch::Two, Ch::RMinus1, Ch::FromHash, Ch::New] {
                        v.push(St { s, k, m, ch, prefixed: false, tamper: None });
                        if s == Scheme::Aug {
                            v.push(St { s, k, m, ch, prefixed: true, tamper: None });
                        }
                    }
                }
            }
        }
        v
    }
    fn actions(&self, st: &St) -> Vec<Tamper> {
        if st.tamper.is_some() || (st.s == Scheme::Aug && !st.prefixed) {
            return vec![];
        }
        // the full tamper alphabet on one challenge per (scheme, key, message); the other challenges get the y tampers
        use Tamper::*;
        let mut a = vec![YPlus1, YOther, YZero];
        if st.ch == Ch::FromHash {
            a.extend([
                UAddGBefore, UDblBefore, UOtherMsgBefore, UIdentityBefore, XPlus1Before, SigOtherKeyAtFinalize, UAddGAfter, UDblAfter, UOtherMsgAfter,
                UIdentityAfter, UIdentityForged, UCancelsChallenge, VNeg, VAddG, VIdentity, MsgFlip, MsgOther, PkOther, PkIdentity,
            ]);
            for c in [Codec::Bytes, Codec::Bare, Codec::Json] {
                a.push(TCommitment(c));
                a.push(TProof(c));
            }
            for c in [Codec::Bytes, Codec::Bare, Codec::Json, Codec::Be, Codec::Le] {
                a.push(TSecret(c));
                a.push(TChallenge(c));
            }
            for c in DECODERS {
                a.push(VAddTorsion(c));
                a.push(UAddTorsion(c));
            }
        }
        a
    }
    fn step(&self, st: &St, a: &Tamper) -> Option<St> {
        let mut n = st.clone();
        n.tamper = Some(*a);
        Some(n)
    }
    fn describe(&self, st: &St) -> String {
        format!(
            "{} {} key#{} msg(len={}){} challenge={:?}: commit -> challenge -> finalize -> verify, adversarial action {:?}",
            C::G,
            st.s.name(),
            st.k,
            self.msgs[st.m].len(),
            if st.prefixed { " [pk||msg form]" } else { "" },
            st.ch,
            st.tamper
        )
    }
    fn required_outcomes(&self) -> Vec<String> {
        vec!["honest:accept".into(), "tampered:reject".into(), "transported:accept".into()]
    }
    fn check(&self, st: &St, o: &mut Obs) {
        use Tamper::*;
        let g = C::G;
        o.nontrivial = true;
        let sk = &self.sks[st.k];
        let sk2 = &self.sks[1 - st.k];
        let pk = sk.public_key();
        let msg0 = &self.msgs[st.m];
        let other_msg = &self.msgs[(st.m + 1) % self.msgs.len()];
        let pmsg = if st.prefixed { prefixed_msg(&pk, msg0) } else { msg0.clone() };
        let pother = if st.prefixed { prefixed_msg(&pk, other_msg) } else { other_msg.clone() };
        let ls = lib_scheme(st.s);
        let t = st.tamper;
        let gen = SgP::<C>::generator();
        let ent = entropy_stream(self.seed, &format!("c10-{}-{}-{}", st.s.name(), st.k, st.m), 6);
        // Ok(Some(accept)) ; Ok(None) = the prover could not complete (finalize refused)
        let r = with_env(ent, None, || -> Result<Option<bool>, String> {
            let sig = sk.sign(ls, msg0).map_err(|e| e.to_string())?;
            // stage 1: commit
            let (mut c, mut x) = ProofCommitment::<C>::generate(&pmsg, sig).map_err(|e| format!("generate: {}", e))?;
            match t {
                Some(UAddGBefore) => c = mk_commit::<C>(st.s, cparts(&c) + gen),
                Some(UDblBefore) => c = mk_commit::<C>(st.s, cparts(&c) + cparts(&c)),
                Some(UOtherMsgBefore) => c = ProofCommitment::<C>::generate(&pother, sig).map_err(|e| e.to_string())?.0,
                Some(UIdentityBefore) => c = mk_commit::<C>(st.s, SgP::<C>::identity()),
                Some(XPlus1Before) => x = ProofCommitmentSecret(x.0 + Sc::<C>::ONE),
                Some(TCommitment(cd)) => {
                    c = match cd {
                        Codec::Bytes => ProofCommitment::<C>::try_from(Vec::<u8>::from(&c).as_slice()).map_err(|e| e.to_string())?,
                        Codec::Bare => via_bare(&c)?,
                        _ => via_json(&c)?,
                    }
                }
                Some(TSecret(cd)) => {
                    x = match cd {
                        Codec::Bytes => ProofCommitmentSecret::<C>::try_from(Vec::<u8>::from(&x).as_slice()).map_err(|e| e.to_string())?,
                        Codec::Bare => via_bare(&x)?,
                        Codec::Json => via_json(&x)?,
                        Codec::Be => Option::from(ProofCommitmentSecret::<C>::from_be_bytes(&x.to_be_bytes())).ok_or("from_be None")?,
                        _ => Option::from(ProofCommitmentSecret::<C>::from_le_bytes(&x.to_le_bytes())).ok_or("from_le None")?,
                    }
                }
                _ => {}
            }
            // stage 2: challenge
            let mut y = self.challenge(st.ch);
            if let Some(TChallenge(cd)) = t {
                y = match cd {
                    Codec::Bytes => ProofCommitmentChallenge::<C>::try_from(Vec::<u8>::from(&y).as_slice()).map_err(|e| e.to_string())?,
                    Codec::Bare => via_bare(&y)?,
                    Codec::Json => via_json(&y)?,
                    Codec::Be => Option::from(ProofCommitmentChallenge::<C>::from_be_bytes(&y.to_be_bytes())).ok_or("from_be None")?,
                    _ => Option::from(ProofCommitmentChallenge::<C>::from_le_bytes(&y.to_le_bytes())).ok_or("from_le None")?,
                };
            }
            // stage 3: finalize
            let fsig = if t == Some(SigOtherKeyAtFinalize) { sk2.sign(ls, msg0).map_err(|e| e.to_string())? } else { sig };
            let mut p = match c.finalize(x, y, fsig) {
                Ok(p) => p,
                Err(_) => return Ok(None),
            };
            let (u, v) = parts(&p);
            match t {
                Some(UAddGAfter) => p = mk_pok::<C>(st.s, u + gen, v),
                Some(UDblAfter) => p = mk_pok::<C>(st.s, u + u, v),
                Some(UOtherMsgAfter) => p = mk_pok::<C>(st.s, cparts(&ProofCommitment::<C>::generate(&pother, sig).map_err(|e| e.to_string())?.0), v),
                Some(UIdentityAfter) => p = mk_pok::<C>(st.s, SgP::<C>::identity(), v),
                Some(UCancelsChallenge) => {
                    let dst: &[u8] = match st.s {
                        Scheme::Basic => <C as BlsSignatureBasic>::DST,
                        Scheme::Aug => <C as BlsSignatureMessageAugmentation>::DST,
                        Scheme::Pop => <C as BlsSignaturePop>::SIG_DST,
                    };
                    p = mk_pok::<C>(st.s, -(<C as HashToPoint>::hash_to_point(&pmsg, dst) * y.0), v)
                }
                Some(UIdentityForged) => p = mk_pok::<C>(st.s, SgP::<C>::identity(), -(*sig.as_raw_value() * y.0)),
                Some(VNeg) => p = mk_pok::<C>(st.s, u, -v),
                Some(VAddG) => p = mk_pok::<C>(st.s, u, v + gen),
                Some(VIdentity) => p = mk_pok::<C>(st.s, u, SgP::<C>::identity()),
                Some(VAddTorsion(cd)) | Some(UAddTorsion(cd)) => {
                    let from = pt(if matches!(t, Some(VAddTorsion(_))) { &v } else { &u });
                    let to = rf::torsion_perturbed(&from).ok_or("no torsion point")?;
                    match redecode_with_point(&p, &from, &to, cd) {
                        Ok(q) => p = q,
                        Err(e) if e == "component-not-found" => return Err(e),
                        // refused by the decoder: the altered proof is rejected
                        Err(_) => return Ok(Some(false)),
                    }
                }
                Some(TProof(cd)) => {
                    p = match cd {
                        Codec::Bytes => ProofOfKnowledge::<C>::try_from(Vec::<u8>::from(&p).as_slice()).map_err(|e| e.to_string())?,
                        Codec::Bare => via_bare(&p)?,
                        _ => via_json(&p)?,
                    }
                }
                _ => {}
            }
            // stage 4: verify
            let vy = match t {
                Some(YPlus1) => ProofCommitmentChallenge(y.0 + Sc::<C>::ONE),
                Some(YOther) => ProofCommitmentChallenge::<C>::from_hash(b"another nonce"),
                Some(YZero) => ProofCommitmentChallenge(Sc::<C>::ZERO),
                _ => y,
            };
            let mut vmsg = pmsg.clone();
            match t {
                Some(MsgFlip) => {
                    if vmsg.is_empty() {
                        vmsg.push(1)
                    } else {
                        let l = vmsg.len();
                        vmsg[l - 1] ^= 1
                    }
                }
                Some(MsgOther) => vmsg = pother.clone(),
                _ => {}
            }
            let vpk = match t {
                Some(PkOther) => sk2.public_key(),
                Some(PkIdentity) => PublicKey(PkP::<C>::identity()),
                _ => pk,
            };
            let acc = p.verify(vpk, &vmsg, vy).is_ok();
            // independent reference verification of the same proof (own pairing equation)
            let (u, v) = parts(&p);
            let refacc = rf::pok_verify::<C::R>(
                &match <C::R as rf::RefSuite>::sig_from(&pt(&u)) {
                    Some(x) => x,
                    // not a subgroup point: the reference refuses the proof
                    None => return Ok(Some(acc)).and_then(|r| if acc { Err("library accepts a proof whose u the reference cannot decode".to_string()) } else { Ok(r) }),
                },
                &match <C::R as rf::RefSuite>::sig_from(&pt(&v)) {
                    Some(x) => x,
                    None => return Ok(Some(acc)).and_then(|r| if acc { Err("library accepts a proof whose v the reference cannot decode".to_string()) } else { Ok(r) }),
                },
                &<C::R as rf::RefSuite>::pk_from(&Vec::<u8>::from(&vpk)).ok_or("ref decode pk")?,
                &rf::scalar_from_be(&vy.to_be_bytes()).ok_or("ref decode y")?,
                &vmsg,
                st.s,
            );
            if acc != refacc {
                return Err(format!("library {} but reference {}", acc, refacc));
            }
            Ok(Some(acc))
        });
        o.calls(4);
        let form = if st.prefixed { ":pk||msg-form" } else { "" };
        let transported = matches!(t, Some(TCommitment(_)) | Some(TSecret(_)) | Some(TChallenge(_)) | Some(TProof(_)));
        let cls = t.map(|x| format!("{:?}", x).replace('(', "-").replace(')', "")).unwrap_or("honest".into());
        match r {
            Err(p) => {
                o.outcome("panic");
                o.expect(&format!("C10:interactive:{}:{}:{}:panic", g, st.s.name(), cls), false, "returns", &p);
            }
            Ok(Err(e)) => {
                o.outcome("flow-error");
                if t.is_none() || transported {
                    o.expect(&format!("C10:pok-complete:scheme={}:interactive:{}{}:flow-error", st.s.name(), g, form), false, "protocol completes", &e);
                } else if e.starts_with("library") {
                    o.expect(&format!("C10:pok-vs-reference:{}:{}:{}", g, st.s.name(), cls), false, "same decision", &e);
                } else {
                    // a tampered flow that cannot even be carried out counts as rejected
                    o.outcome("tampered:reject");
                }
            }
            Ok(Ok(res)) => {
                let acc = res == Some(true);
                o.record("acc", &[acc as u8, res.is_none() as u8]);
                if t.is_none() {
                    o.outcome(if acc { "honest:accept" } else { "honest:reject" });
                    o.expect(&format!("C10:pok-complete:scheme={}:interactive:{}{}", st.s.name(), g, form), acc, "honest proof verifies", "rejected");
                } else if transported {
                    o.outcome(if acc { "transported:accept" } else { "transported:reject" });
                    o.expect(&format!("C10:pok-transport:{}:{}:{}", g, st.s.name(), cls), acc, "verifies after transport", "rejected");
                } else {
                    o.outcome(if acc { "tampered:accept" } else { "tampered:reject" });
                    o.expect(&format!("C10:pok-sound:{}:{}:{}", g, st.s.name(), cls), !acc, "rejected", "accepted");
                }
            }
        }
    }
}

// ---------------------------------------------------------------------------------------------------
// timestamp variant: protocol machine with the clock as an explicit state variable

pub const TGEN: [u64; 5] = [0, 1, 1_700_000_000_000, 1 << 63, u64::MAX - 10];
pub const TIMEOUT: [Option<u64>; 8] = [None, Some(0), Some(1), Some(5), Some(1000), Some(u64::MAX), Some((1 << 32) + 1), Some(1 << 40)];

#[derive(Copy, Clone, Debug, PartialEq, Eq, Hash, Serialize, Deserialize)]
pub enum Delay {
    Zero,
    Minus1000,
    Minus1,
    Plus1,
    ToMinus1,
    To,
    ToPlus1,
    Plus1e9,
    /// just past 2^32 and 2^48 ms: comparisons done in a narrower type would wrap
    Plus2p32,
    Plus2p48,
}
pub const DELAYS: [Delay; 10] = [Delay::Zero, Delay::Minus1000, Delay::Minus1, Delay::Plus1, Delay::ToMinus1, Delay::To, Delay::ToPlus1, Delay::Plus1e9, Delay::Plus2p32, Delay::Plus2p48];

#[derive(Copy, Clone, Debug, PartialEq, Eq, Hash, Serialize, Deserialize)]
pub enum TsTamper {
    None,
    Plus1,
    Minus1,
    TopBit,
    /// the timestamp replaced by a value derived from it the way a unit, width or byte-order mix-up would: byte-reversed,
    /// bit-reversed, complemented, halves exchanged, low 32 bits only, seconds for milliseconds and back, negated
    Derived(u8),
    /// proof components
    UAddG,
    VNeg,
    MsgOther,
    PkOther,
    Transport(Codec),
}

#[derive(Clone, Debug, PartialEq, Eq, Hash, Serialize, Deserialize)]
pub enum TSt {
    Clock { s: Scheme, tg: usize, to: usize, dl: Delay, tamper: TsTamper, prefixed: bool },
    /// no-abort sweep with the real clock: timestamp := value, every timeout
    Sweep { s: Scheme, ts: u64, to: usize },
    /// real clock, real sleep: generate, wait 30 ms, verify with 5 ms (reject) and 10 s (accept)
    FreeRunning { s: Scheme },
    /// real clock with its sub-millisecond part: a proof whose true age is provably below the timeout must verify
    RealClockWithin { s: Scheme, timeout_ms: u64 },
}

#[derive(Clone, Debug, PartialEq)]
pub enum TAct {
    Timeout(usize),
    Delay(Delay),
    Tamper(TsTamper),
}

pub struct M10T<C: Suite> {
    seed: u64,
    sk: SecretKey<C>,
    sk2: SecretKey<C>,
    msg: Vec<u8>,
    _c: PhantomData<C>,
}

impl<C: Suite> M10T<C> {
    pub fn new(_tier: Tier, seed: u64) -> Self {
        let ka = key_alphabet(seed, false);
        M10T {
            seed,
            sk: sk_from_be::<C>(&ka.be[3]).unwrap(),
            sk2: sk_from_be::<C>(&ka.be[4]).unwrap(),
            msg: msg_of(seed, 33, 3),
            _c: PhantomData,
        }
    }
}

fn delay_value(d: Delay, timeout: Option<u64>) -> Option<i128> {
    Some(match d {
        Delay::Zero => 0,
        Delay::Minus1000 => -1000,
        Delay::Minus1 => -1,
        Delay::Plus1 => 1,
        Delay::Plus1e9 => 1_000_000_000,
        Delay::Plus2p32 => (1i128 << 32) + 7,
        Delay::Plus2p48 => (1i128 << 48) + 3,
        Delay::ToMinus1 => timeout? as i128 - 1,
        Delay::To => timeout? as i128,
        Delay::ToPlus1 => timeout? as i128 + 1,
    })
}

impl<C: Suite> Model for M10T<C> {
    type State = TSt;
    type Action = TAct;
    fn name(&self) -> String {
        format!("c10-pok-timestamp/{}", C::G)
    }
    fn init(&self) -> Vec<TSt> {
        let mut v = vec![];
        for s in SCHEMES {
            for tg in 0..TGEN.len() {
                v.push(TSt::Clock { s, tg, to: 0, dl: Delay::Zero, tamper: TsTamper::None, prefixed: false });
                if s == Scheme::Aug {
                    v.push(TSt::Clock { s, tg, to: 0, dl: Delay::Zero, tamper: TsTamper::None, prefixed: true });
                }
            }
            let mut sweep: Vec<u64> = (0..64).map(|b| 1u64 << b).collect();
            sweep.push(0);
            sweep.push(u64::MAX);
            sweep.push(u64::MAX - 1);
            for ts in sweep {
                for to in 0..TIMEOUT.len() {
                    v.push(TSt::Sweep { s, ts, to });
                }
            }
            v.push(TSt::FreeRunning { s });
            for timeout_ms in [2u64, 5] {
                v.push(TSt::RealClockWithin { s, timeout_ms });
            }
        }
        v
    }
    fn actions(&self, st: &TSt) -> Vec<TAct> {
        let TSt::Clock { s, tg, to, dl, tamper, prefixed } = st else {
            return vec![];
        };
        if *s == Scheme::Aug && !*prefixed {
            return vec![];
        }
        let mut a = vec![];
        // stage order: pick the verifier's timeout, then let time pass, then the adversary acts
        if *to == 0 && *dl == Delay::Zero && *tamper == TsTamper::None {
            for i in 1..TIMEOUT.len() {
                a.push(TAct::Timeout(i));
            }
        }
        if *dl == Delay::Zero && *tamper == TsTamper::None {
            for d in DELAYS.iter().skip(1) {
                if let Some(dv) = delay_value(*d, TIMEOUT[*to]) {
                    let now = TGEN[*tg] as i128 + dv;
                    if now >= 0 && now <= u64::MAX as i128 {
                        a.push(TAct::Delay(*d));
                    }
                }
            }
        }
        if *tamper == TsTamper::None {
            for t in [TsTamper::Plus1, TsTamper::Minus1, TsTamper::TopBit] {
                a.push(TAct::Tamper(t));
            }
            for k in 0..8u8 {
                a.push(TAct::Tamper(TsTamper::Derived(k)));
            }
            if *tg == 2 {
                for t in [TsTamper::UAddG, TsTamper::VNeg, TsTamper::MsgOther, TsTamper::PkOther, TsTamper::Transport(Codec::Bytes), TsTamper::Transport(Codec::Bare), TsTamper::Transport(Codec::Json)] {
                    a.push(TAct::Tamper(t));
                }
            }
        }
        a
    }
    fn step(&self, st: &TSt, a: &TAct) -> Option<TSt> {
        let TSt::Clock { s, tg, to, dl, tamper, prefixed } = st.clone() else {
            return None;
        };
        Some(match a {
            TAct::Timeout(i) => TSt::Clock { s, tg, to: *i, dl, tamper, prefixed },
            TAct::Delay(d) => TSt::Clock { s, tg, to, dl: *d, tamper, prefixed },
            TAct::Tamper(t) => TSt::Clock { s, tg, to, dl, tamper: *t, prefixed },
        })
    }
    fn describe(&self, st: &TSt) -> String {
        match st {
            TSt::Clock { s, tg, to, dl, tamper, prefixed } => format!(
                "{} {}{} generate at clock={} ; tamper {:?} ; clock advances by {:?} ; verify(timeout={:?})",
                C::G, s.name(), if *prefixed { " [pk||msg form]" } else { "" }, TGEN[*tg], tamper, dl, TIMEOUT[*to]
            ),
            TSt::Sweep { s, ts, to } => format!("{} {} real clock: proof with timestamp {} verified with timeout {:?} must return", C::G, s.name(), ts, TIMEOUT[*to]),
            TSt::FreeRunning { s } => format!("{} {} real clock, real 30 ms sleep: timeout 5 ms rejects, timeout 10 s accepts", C::G, s.name()),
            TSt::RealClockWithin { s, timeout_ms } => format!("{} {} real clock (a sample): generated late in a millisecond, verified early in the millisecond {} ms later - the time between the two instants is below the timeout, so the proof must verify", C::G, s.name(), timeout_ms),
        }
    }
    fn required_outcomes(&self) -> Vec<String> {
        vec!["no-timeout:accept".into(), "within-timeout:accept".into(), "elapsed:reject".into(), "timestamp-tampered:reject".into(), "sweep:returned".into(), "free-running:ok".into()]
    }
    fn check(&self, st: &TSt, o: &mut Obs) {
        let g = C::G;
        o.nontrivial = true;
        let pk = self.sk.public_key();
        match st {
            TSt::Clock { s, tg, to, dl, tamper, prefixed } => {
                let ls = lib_scheme(*s);
                let pmsg = if *prefixed { prefixed_msg(&pk, &self.msg) } else { self.msg.clone() };
                let t_gen = TGEN[*tg];
                let timeout = TIMEOUT[*to];
                let dv = delay_value(*dl, timeout).unwrap_or(0);
                let now = (t_gen as i128 + dv) as u64;
                let ent = entropy_stream(self.seed, &format!("c10t-{}-{}", s.name(), tg), 4);
                let sig = self.sk.sign(ls, &self.msg).unwrap();
                let gen_r = with_env(ent, Some(t_gen), || ProofOfKnowledgeTimestamp::<C>::generate(&pmsg, sig));
                o.calls(1);
                let mut p = match gen_r {
                    Ok(Ok(p)) => p,
                    r => {
                        o.expect(&format!("C10:pok-complete:scheme={}:timestamp:{}:generate", s.name(), g), false, "Ok", verdict(&r));
                        return;
                    }
                };
                o.expect(&format!("C10:timestamp-is-clock:{}", g), p.timestamp == t_gen, &format!("{}", t_gen), &format!("{}", p.timestamp));
                let (u, v) = parts(&p.proof);
                let mut vmsg = pmsg.clone();
                let mut vpk = pk;
                let mut tampered = true;
                let mut relative = false;
                match tamper {
                    TsTamper::None => tampered = false,
                    TsTamper::Plus1 => p.timestamp = p.timestamp.wrapping_add(1),
                    TsTamper::Minus1 => p.timestamp = p.timestamp.wrapping_sub(1),
                    TsTamper::TopBit => p.timestamp ^= 1 << 63,
                    TsTamper::Derived(k) => {
                        let t = p.timestamp;
                        let n = match k {
                            0 => t.swap_bytes(),
                            1 => t.reverse_bits(),
                            2 => !t,
                            3 => t.rotate_left(32),
                            4 => t & 0xffff_ffff,
                            5 => t / 1000,
                            6 => t.wrapping_mul(1000),
                            _ => t.wrapping_neg(),
                        };
                        // (a value that maps to itself is no alteration)
                        tampered = n != t;
                        p.timestamp = n;
                    }
                    TsTamper::UAddG => p.proof = mk_pok::<C>(*s, u + SgP::<C>::generator(), v),
                    TsTamper::VNeg => p.proof = mk_pok::<C>(*s, u, -v),
                    TsTamper::MsgOther => vmsg.push(0),
                    TsTamper::PkOther => vpk = self.sk2.public_key(),
                    TsTamper::Transport(c) => {
                        let r: Result<ProofOfKnowledgeTimestamp<C>, String> = match c {
                            Codec::Bytes => ProofOfKnowledgeTimestamp::<C>::try_from(Vec::<u8>::from(&p).as_slice()).map_err(|e| e.to_string()),
                            Codec::Bare => via_bare(&p),
                            _ => via_json(&p),
                        };
                        match r {
                            Ok(q) => {
                                o.expect(&format!("C10:timestamp-transport-equal:{}:{:?}", g, c), q == p, "equal", "differs");
                                p = q;
                            }
                            Err(e) => {
                                o.expect(&format!("C10:timestamp-transport:{}:{:?}", g, c), false, "Ok", &e);
                                return;
                            }
                        }
                        tampered = false;
                        relative = true;
                    }
                }
                let vr = with_env(vec![], Some(now), || p.verify(vpk, &vmsg, timeout));
                o.calls(1);
                o.record("v", verdict(&vr).as_bytes());
                let cls = format!("{:?}", tamper).split('(').next().unwrap().to_string();
                if vr.is_err() {
                    o.outcome("panic");
                    o.expect(&format!("C10:timestamp-verify-aborts:{}:{}:{}", g, s.name(), cls), false, "returns", &vr.clone().err().unwrap());
                    return;
                }
                let acc = matches!(vr, Ok(Ok(())));
                let form = if *prefixed { ":pk||msg-form" } else { "" };
                let _ = relative;
                if tampered {
                    o.outcome(if acc { "timestamp-tampered:accept" } else { "timestamp-tampered:reject" });
                    o.expect(&format!("C10:timestamp-sound:{}:{}:{}", g, s.name(), cls), !acc, "rejected", "accepted");
                } else if timeout.is_none() {
                    o.outcome(if acc { "no-timeout:accept" } else { "no-timeout:reject" });
                    o.expect(&format!("C10:pok-complete:scheme={}:timestamp:{}{}", s.name(), g, form), acc, "verifies without a timeout", "rejected");
                } else if dv < 0 {
                    o.outcome(if acc { "clock-backwards:accept" } else { "clock-backwards:reject" });
                    o.note(format!("clock went backwards by {}: {}", -dv, if acc { "accepted" } else { "rejected" }));
                } else if (dv as u128) < timeout.unwrap() as u128 {
                    o.outcome(if acc { "within-timeout:accept" } else { "within-timeout:reject" });
                    o.expect(&format!("C10:pok-complete:scheme={}:timestamp-within-timeout:{}{}", s.name(), g, form), acc, "verifies within the timeout", "rejected");
                } else if dv as u128 == timeout.unwrap() as u128 {
                    o.outcome(if acc { "boundary:accept" } else { "boundary:reject" });
                    o.note(format!("elapsed == timeout: {}", if acc { "accepted" } else { "rejected" }));
                } else {
                    o.outcome(if acc { "elapsed:accept" } else { "elapsed:reject" });
                    o.expect(&format!("C10:timeout-enforced:{}:{}", g, s.name()), !acc, "rejected once the timeout has elapsed", "accepted");
                }
            }
            TSt::Sweep { s, ts, to } => {
                let ls = lib_scheme(*s);
                let sig = self.sk.sign(ls, &self.msg).unwrap();
                let ent = entropy_stream(self.seed, "c10-sweep", 2);
                let p = with_env(ent, None, || ProofOfKnowledgeTimestamp::<C>::generate(&self.msg, sig));
                let Ok(Ok(mut p)) = p else {
                    o.expect(&format!("C10:sweep-generate:{}", g), false, "Ok", "failed");
                    return;
                };
                p.timestamp = *ts;
                let vr = guard(|| p.verify(pk, &self.msg, TIMEOUT[*to]));
                o.calls(2);
                let cls = if *ts == 0 { "zero" } else if *ts >= u64::MAX - 1 { "max" } else { "single-bit" };
                // digest: real clock -> only record whether it returned
                o.record("returned", &[vr.is_ok() as u8]);
                o.outcome(if vr.is_ok() { "sweep:returned" } else { "sweep:panic" });
                o.expect(&format!("C10:timestamp-verify-aborts:{}:{}:sweep-{}", g, s.name(), cls), vr.is_ok(), "returns", &vr.clone().err().unwrap_or_default());
                if let Ok(r) = &vr {
                    // an altered timestamp never verifies, whatever the timeout
                    o.expect(&format!("C10:timestamp-sound:{}:{}:sweep", g, s.name()), r.is_err(), "rejected", "accepted");
                }
            }
            TSt::RealClockWithin { s, timeout_ms } => {
                use std::time::{SystemTime, UNIX_EPOCH};
                let ls = lib_scheme(*s);
                let pmsg = if *s == Scheme::Aug { prefixed_msg(&pk, &self.msg) } else { self.msg.clone() };
                let sig = self.sk.sign(ls, &self.msg).unwrap();
                let now_ns = || SystemTime::now().duration_since(UNIX_EPOCH).unwrap().as_nanos();
                let (mut accepted, mut judged_rejections, mut open) = (0, 0, 0);
                for _attempt in 0..12 {
                    // start in the middle of a millisecond: the proof's clock read then falls late in that millisecond
                    loop {
                        let f = now_ns() % 1_000_000;
                        if (400_000..550_000).contains(&f) {
                            break;
                        }
                        std::hint::spin_loop();
                    }
                    let t_before = now_ns();
                    let Ok(Ok(p)) = guard(|| ProofOfKnowledgeTimestamp::<C>::generate(&pmsg, sig)) else {
                        o.expect(&format!("C10:real-clock-generate:{}", g), false, "Ok", "failed");
                        return;
                    };
                    // verify right at the start of the millisecond in which the whole-millisecond age reaches the timeout
                    while (now_ns() / 1_000_000) as u64 - p.timestamp < *timeout_ms {
                        std::hint::spin_loop();
                    }
                    let r = guard(|| p.verify(pk, &pmsg, Some(*timeout_ms)));
                    let t_after = now_ns();
                    o.calls(2);
                    if matches!(r, Ok(Ok(()))) {
                        accepted += 1;
                    } else if t_after - t_before < (*timeout_ms as u128) * 1_000_000 {
                        // rejected, and less than `timeout` passed between a moment BEFORE the proof was stamped and a
                        // moment AFTER the verdict: the true age was below the timeout whatever the rounding
                        judged_rejections += 1;
                        o.expect(&format!("C10:verifies-within-timeout:{}:{}:real-clock-sub-millisecond", g, s.name()), false, "accept (true age below the timeout)", &format!("{} after at most {} ns", verdict(&r), t_after - t_before));
                    } else {
                        // rejected at an age that may have exceeded the timeout (scheduling delay): not judged
                        open += 1;
                    }
                }
                o.outcome(if accepted > 0 { "real-clock-within:accepted" } else { "real-clock-within:never-accepted" });
                if judged_rejections == 0 && accepted == 0 {
                    o.note(format!("{} attempts ended in a rejection at an age that may have exceeded the timeout; nothing judged", open));
                }
            }
            TSt::FreeRunning { s } => {
                let ls = lib_scheme(*s);
                let pmsg = if *s == Scheme::Aug { prefixed_msg(&pk, &self.msg) } else { self.msg.clone() };
                let sig = self.sk.sign(ls, &self.msg).unwrap();
                let p = guard(|| ProofOfKnowledgeTimestamp::<C>::generate(&pmsg, sig));
                let Ok(Ok(p)) = p else {
                    o.expect(&format!("C10:free-running-generate:{}", g), false, "Ok", "failed");
                    return;
                };
                std::thread::sleep(std::time::Duration::from_millis(30));
                let late = guard(|| p.verify(pk, &pmsg, Some(5)));
                let fine = guard(|| p.verify(pk, &pmsg, Some(10_000)));
                o.calls(3);
                let ok = matches!(late, Ok(Err(_))) && matches!(fine, Ok(Ok(())));
                o.outcome(if ok { "free-running:ok" } else { "free-running:wrong" });
                o.expect(&format!("C10:timeout-enforced:{}:{}:real-clock", g, s.name()), ok, "5 ms timeout rejects after 30 ms, 10 s accepts", &format!("{}/{}", verdict(&late), verdict(&fine)));
            }
        }
    }
}

fn depth_t<C: Suite>(_m: &M10T<C>, s: &TSt) -> usize {
    match s {
        TSt::Clock { to, dl, tamper, .. } => (*to != 0) as usize + (*dl != Delay::Zero) as usize + (*tamper != TsTamper::None) as usize,
        _ => 0,
    }
}

// ---- valid proofs whose two points stand in a simple relation ---------------------------------------------------
//
// u = x*H(m) and v = -(x+y)*sk*H(m) are multiples of the same point, so for every non-zero c there are valid proofs with
// u = c*v: choose x, derive y (for the timestamp variant y = H(u || t) is known once x is), and take the key
// sk = -x / (c*(x+y)). A verifier that tells "u and v cannot be equal / opposite / the double of one another" is wrong
// for exactly these honest proofs. The reference decides every case.

#[derive(Clone, Copy, Debug, PartialEq, Eq, Hash, Serialize, Deserialize)]
pub struct RelSt {
    s: Scheme,
    /// u = c * v with c = REL[rel]
    rel: usize,
    /// 0 interactive with a hash-derived challenge, 1 timestamp without a timeout, 2 timestamp within a timeout
    variant: u8,
    x: u8,
}

const REL: [(&str, i64); 6] = [("u == v", 1), ("u == -v", -1), ("u == 2v", 2), ("v == 2u", 0 /* c = 1/2 */), ("u == -2v", -2), ("u == 3v", 3)];

pub struct M10Rel<C: Suite> {
    seed: u64,
    _c: PhantomData<C>,
}

impl<C: Suite> Model for M10Rel<C> {
    type State = Option<RelSt>;
    type Action = RelSt;
    fn name(&self) -> String {
        format!("c10-valid-proofs-with-related-points/{}", C::G)
    }
    fn init(&self) -> Vec<Option<RelSt>> {
        vec![None]
    }
    fn actions(&self, st: &Option<RelSt>) -> Vec<RelSt> {
        if st.is_some() {
            return vec![];
        }
        let mut v = vec![];
        for s in [Scheme::Basic, Scheme::Pop] {
            for rel in 0..REL.len() {
                for variant in 0..3u8 {
                    for x in 0..2u8 {
                        v.push(RelSt { s, rel, variant, x });
                    }
                }
            }
        }
        v
    }
    fn step(&self, _s: &Option<RelSt>, a: &RelSt) -> Option<Option<RelSt>> {
        Some(Some(*a))
    }
    fn describe(&self, st: &Option<RelSt>) -> String {
        format!("{} valid proof of knowledge crafted so that {:?}", C::G, st.map(|s| (s.s.name(), REL[s.rel].0, ["interactive", "timestamp, no timeout", "timestamp within the timeout"][s.variant as usize], s.x)))
    }
    fn required_outcomes(&self) -> Vec<String> {
        vec!["related-points:accepted".into()]
    }
    fn check(&self, st: &Option<RelSt>, o: &mut Obs) {
        use bls12_381_plus::ff::Field as _;
        let Some(st) = st else { return };
        o.nontrivial = true;
        let g = C::G;
        let msg = data(self.seed, "c10-related-points-msg", 24);
        let a = <C::R as rf::RefSuite>::hash_to_sig(&msg, rf::sig_dst::<C::R>(st.s));
        let x = rf::hash_to_scalar(&data(self.seed, &format!("c10-related-x-{}", st.x), 32), rf::SALT_POK);
        let u = a * x;
        let t = CLOCK0;
        let y = if st.variant == 0 { rf::hash_to_scalar(&data(self.seed, "c10-related-y", 32), rf::SALT_POK) } else { rf::pok_y::<C::R>(&u, t) };
        let small = |i: i64| if i < 0 { -bls12_381_plus::Scalar::from((-i) as u64) } else { bls12_381_plus::Scalar::from(i as u64) };
        let c = if REL[st.rel].1 == 0 { small(2).invert().unwrap() } else { small(REL[st.rel].1) };
        let sk = -x * (c * (x + y)).invert().unwrap();
        let rpk = rf::sk_to_pk::<C::R>(&sk);
        let v = -(a * (sk * (x + y)));
        assert!(u == v * c, "crafted relation does not hold");
        let want = rf::pok_verify::<C::R>(&u, &v, &rpk, &y, &msg, st.s);
        let lu = pt_from::<SgP<C>>(&rf::enc(&u)).unwrap();
        let lv = pt_from::<SgP<C>>(&rf::enc(&v)).unwrap();
        let pk = sk_from_be::<C>(&rf::scalar_to_be(&sk)).unwrap().public_key();
        let proof = mk_pok::<C>(st.s, lu, lv);
        let r = match st.variant {
            0 => guard(|| proof.verify(pk, &msg, ProofCommitmentChallenge(sc_from_be::<C>(&rf::scalar_to_be(&y))))),
            _ => {
                let p = ProofOfKnowledgeTimestamp::<C> { proof, timestamp: t };
                let to = if st.variant == 1 { None } else { Some(60_000) };
                with_env(vec![], Some(t + 1_000), || p.verify(pk, &msg, to))
            }
        };
        o.calls(1);
        let acc = matches!(r, Ok(Ok(())));
        o.outcome(if acc { "related-points:accepted" } else { "related-points:rejected" });
        o.expect(&format!("C10:valid-proof-with-related-points:{}:{}:{}:{}", g, st.s.name(), REL[st.rel].0, ["interactive", "timestamp", "timestamp-with-timeout"][st.variant as usize]), acc == want && r.is_ok() && want, "accept (the reference accepts)", &verdict(&r));
    }
}

pub fn models(tier: Tier, seed: u64) -> Vec<Box<dyn DynModel>> {
    vec![
        bounded(M10::<Bls12381G1Impl>::new(tier, seed), 1),
        bounded(M10::<Bls12381G2Impl>::new(tier, seed), 1),
        bounded_cross(M10T::<Bls12381G1Impl>::new(tier, seed), 3, depth_t::<Bls12381G1Impl>),
        bounded_cross(M10T::<Bls12381G2Impl>::new(tier, seed), 3, depth_t::<Bls12381G2Impl>),
    ]
    .into_iter()
    .chain([bounded(M10Rel::<Bls12381G1Impl> { seed, _c: PhantomData }, 1), bounded(M10Rel::<Bls12381G2Impl> { seed, _c: PhantomData }, 1)])
    .chain(crate::props::tsurf::models("C10", tier, seed))
    .collect()
}

pub fn describe(_tier: Tier, r: &mut Report) {
    r.rule = "interactive: four-stage machine commit -> challenge -> finalize -> verify over (scheme, 2 keys, 3 messages, 5 challenges incl. new() under the entropy seam); one adversarial action between two stages (replace u before or after finalize, v, y, message, public key, x, the signature, or transport commitment / secret / challenge / proof through a codec); every verdict is also compared with the reference verifier's own pairing equation. timestamp: protocol machine with the hooked clock as a state variable: generate at t_gen in {0,1,1.7e12,2^63,MAX-10}; actions choose the verifier's timeout in {None,0,1,5,1000,MAX}, let the clock advance by a delay in {-1000,-1,0,1,timeout-1,timeout,timeout+1,1e9}, and tamper (timestamp +1/-1/top bit, u, v, message, key, codecs); plus a no-abort sweep of every single-bit / 0 / MAX timestamp x every timeout under the real clock and one free-running real-sleep check".into();
    r.deviation_bound_completed = "1 adversarial action (interactive); timeout x delay x tamper (timestamp)".into();
    r.assumptions = vec!["elapsed == timeout and a clock that went backwards are recorded, not judged (the property leaves them open)".into(), "for MessageAugmentation the soundness states use the pk||msg message form because the plain form never verifies (known finding)".into()];
}
