//! Histories explored from the initial state of the PROCESS.
//!
//! Every state is a sequence of at most two operations executed in a freshly started child process (one process per
//! history, nothing of the library has run before the first operation). Operations consume artefacts made by the
//! reference model - they never need a library call as preparation - or produce values under the entropy seam, and
//! every one carries its own oracle (the reference value, or the verdict the property fixes). The last operation of a
//! history is judged. Process wide state (statics, once-cells, lazily built tables, caches keyed incompletely) that an
//! earlier, differently parameterised call leaves behind - or that is wrong when nothing ran before - shows up here
//! deterministically, which the in-process explorer, whose worker threads share such state, cannot guarantee.
use crate::common::*;
use crate::engine::*;
use crate::refmodel::{self as rf, RefSuite, Scheme, SCHEMES};
use blsful::inner_types::Group;
use blsful::vsss_rs::Share;
use blsful::*;
use serde::{Deserialize, Serialize};

#[derive(Copy, Clone, Debug, PartialEq, Eq, Hash, Serialize, Deserialize)]
pub enum Kind {
    Sign(Scheme),
    Verify(Scheme),
    /// a genuine signature over another message presented for this message: reject
    VerifyWrong(Scheme),
    Pop,
    PopVerify,
    /// the proof of possession presented as a PoP-scheme signature over the public key bytes: reject
    PopAsSigRejected,
    /// a PoP-scheme signature over the public key bytes presented as proof of possession: reject
    SigOverPkAsPopRejected,
    /// identity public key with identity signature: reject
    IdentityPair(Scheme),
    AggVerify,
    MultiVerify,
    CombineShares,
    PartialSign,
    PokVerify,
    PokTsVerify,
    /// seal under the entropy seam (bit identical to the reference), then an altered copy as the first validity check
    SignCryptSeal,
    SignCryptOpen,
    /// a decryption share verifies against its own ciphertext and not against another one
    ShareOtherCiphertext,
    TimeLockSeal(Scheme),
    TimeLockOpen,
    ElGamalVerify,
    ElGamalSeal,
    DecodePk,
    DecodeSig,
    DecodeSk,
    /// split under a pinned generator, recombine key and public key, shares verify each other's partial signatures
    Split,
    /// component-wise sum of two reference made ElGamal ciphertexts decrypts to the sum
    ElGamalSum,
    /// decryption keys recombined from shares (signcryption and ElGamal) open reference made ciphertexts
    DecryptionKeysFromShares,
}

#[derive(Copy, Clone, Debug, PartialEq, Eq, Hash, Serialize, Deserialize)]
pub struct FOp {
    g: u8,
    kind: Kind,
}

fn all_kinds() -> Vec<Kind> {
    let mut v = vec![];
    for s in SCHEMES {
        v.push(Kind::Sign(s));
        v.push(Kind::Verify(s));
        v.push(Kind::VerifyWrong(s));
        v.push(Kind::TimeLockSeal(s));
    }
    v.extend([
        Kind::Pop,
        Kind::PopVerify,
        Kind::PopAsSigRejected,
        Kind::SigOverPkAsPopRejected,
        Kind::IdentityPair(Scheme::Basic),
        Kind::IdentityPair(Scheme::Pop),
        Kind::AggVerify,
        Kind::MultiVerify,
        Kind::CombineShares,
        Kind::PartialSign,
        Kind::PokVerify,
        Kind::PokTsVerify,
        Kind::SignCryptSeal,
        Kind::SignCryptOpen,
        Kind::ShareOtherCiphertext,
        Kind::TimeLockOpen,
        Kind::ElGamalVerify,
        Kind::ElGamalSeal,
        Kind::DecodePk,
        Kind::DecodeSig,
        Kind::DecodeSk,
        Kind::Split,
        Kind::ElGamalSum,
        Kind::DecryptionKeysFromShares,
    ]);
    v
}

/// which operations a property judges
fn own_kinds(prop: &str) -> Vec<Kind> {
    let per_scheme = |f: fn(Scheme) -> Kind| SCHEMES.iter().map(|s| f(*s)).collect::<Vec<_>>();
    match prop {
        "C01" => [per_scheme(Kind::Sign), per_scheme(Kind::Verify)].concat(),
        "C02" => [per_scheme(Kind::VerifyWrong), vec![Kind::PopAsSigRejected, Kind::SigOverPkAsPopRejected]].concat(),
        "C03" => [per_scheme(Kind::Sign), vec![Kind::Pop, Kind::AggVerify]].concat(),
        "C04" => vec![Kind::IdentityPair(Scheme::Basic), Kind::IdentityPair(Scheme::Pop)],
        "C05" => vec![Kind::PopAsSigRejected, Kind::SigOverPkAsPopRejected],
        "C06" => vec![Kind::AggVerify],
        "C07" => vec![Kind::MultiVerify],
        "C08" => vec![Kind::CombineShares, Kind::PartialSign, Kind::Split],
        "C09" => vec![Kind::Pop, Kind::PopVerify, Kind::SigOverPkAsPopRejected],
        "C10" => vec![Kind::PokVerify, Kind::PokTsVerify],
        "C11" => vec![Kind::SignCryptSeal, Kind::SignCryptOpen],
        "C12" => vec![Kind::ShareOtherCiphertext, Kind::DecryptionKeysFromShares],
        "C13" => [per_scheme(Kind::TimeLockSeal), vec![Kind::TimeLockOpen]].concat(),
        "C14" => vec![Kind::ElGamalVerify, Kind::ElGamalSeal, Kind::ElGamalSum, Kind::DecryptionKeysFromShares],
        "C15" => vec![Kind::DecodePk, Kind::DecodeSig, Kind::DecodeSk],
        _ => vec![],
    }
}

const MSG: &[u8] = b"fresh process message";
const OTHER: &[u8] = b"another message";
const ID: &[u8] = b"round 7";

fn lsg<C: Suite>(p: &<C::R as RefSuite>::Sig) -> SgP<C> {
    pt_from::<SgP<C>>(&rf::enc(p)).expect("reference point decodes")
}
fn lpk<C: Suite>(p: &<C::R as RefSuite>::Pk) -> PkP<C> {
    pt_from::<PkP<C>>(&rf::enc(p)).expect("reference point decodes")
}
fn drawn(seed: &[u8; 32]) -> [u8; 32] {
    use rand::Rng;
    use rand_core::SeedableRng;
    rand_chacha::ChaCha20Rng::from_seed(*seed).gen::<[u8; 32]>()
}
fn ensure(ok: bool, what: &str) -> Result<(), String> {
    if ok {
        Ok(())
    } else {
        Err(what.to_string())
    }
}

/// one operation in group assignment `C`; the key is the same scalar in both assignments on purpose
fn run<C: Suite>(kind: Kind, seed: u64) -> Result<(), String> {
    let kb = key_alphabet(seed, false).be[3];
    let rsk = rf::scalar_from_be(&kb).unwrap();
    let rpk = rf::sk_to_pk::<C::R>(&rsk);
    let pkb = rf::enc(&rpk);
    // the library's values are built from the field element and the reference's bytes, not by library arithmetic
    let sk = SecretKey::<C>(sc_from_be::<C>(&kb));
    let pk = PublicKey::<C>(lpk::<C>(&rpk));
    match kind {
        Kind::Sign(s) => {
            let got = sk.sign(lib_scheme(s), MSG).map_err(|e| e.to_string())?;
            ensure(pt(got.as_raw_value()) == rf::enc(&rf::sign::<C::R>(&rsk, s, MSG)), "signature differs from the reference value")
        }
        Kind::Verify(s) => mk_sig::<C>(s, lsg::<C>(&rf::sign::<C::R>(&rsk, s, MSG))).verify(&pk, MSG).map_err(|e| format!("genuine signature rejected: {}", e)),
        Kind::VerifyWrong(s) => ensure(mk_sig::<C>(s, lsg::<C>(&rf::sign::<C::R>(&rsk, s, OTHER))).verify(&pk, MSG).is_err(), "a signature over another message was accepted"),
        Kind::Pop => {
            let got = sk.proof_of_possession().map_err(|e| e.to_string())?;
            ensure(pt(&got.0) == rf::enc(&rf::pop_prove::<C::R>(&rsk)), "proof of possession differs from the reference value")
        }
        Kind::PopVerify => ProofOfPossession::<C>(lsg::<C>(&rf::pop_prove::<C::R>(&rsk))).verify(pk).map_err(|e| format!("genuine proof of possession rejected: {}", e)),
        Kind::PopAsSigRejected => ensure(
            mk_sig::<C>(Scheme::Pop, lsg::<C>(&rf::pop_prove::<C::R>(&rsk))).verify(&pk, &pkb).is_err(),
            "a proof of possession was accepted as a signature over the public key bytes",
        ),
        Kind::SigOverPkAsPopRejected => ensure(
            ProofOfPossession::<C>(lsg::<C>(&rf::sign::<C::R>(&rsk, Scheme::Pop, &pkb))).verify(pk).is_err(),
            "a signature over the public key bytes was accepted as proof of possession",
        ),
        Kind::IdentityPair(s) => ensure(
            mk_sig::<C>(s, SgP::<C>::identity()).verify(&PublicKey::<C>(PkP::<C>::identity()), MSG).is_err(),
            "identity public key with identity signature was accepted",
        ),
        Kind::AggVerify | Kind::MultiVerify => {
            let multi = kind == Kind::MultiVerify;
            let mut sum = <C::R as RefSuite>::Sig::identity();
            let mut list = vec![];
            for i in 1..=3u64 {
                let ski = rsk * rf::RScalar::from(i);
                let m: Vec<u8> = if multi { MSG.to_vec() } else { [MSG, &[i as u8]].concat() };
                sum += rf::sign::<C::R>(&ski, Scheme::Pop, &m);
                list.push((PublicKey::<C>(lpk::<C>(&rf::sk_to_pk::<C::R>(&ski))), m));
            }
            if multi {
                let keys: Vec<PublicKey<C>> = list.iter().map(|(k, _)| *k).collect();
                let mpk = MultiPublicKey::<C>::from_public_keys(&keys);
                mk_multi_sig::<C>(Scheme::Pop, lsg::<C>(&sum)).verify(mpk, MSG).map_err(|e| format!("genuine multi-signature rejected: {}", e))
            } else {
                mk_agg_sig::<C>(Scheme::Pop, lsg::<C>(&sum)).verify(&list).map_err(|e| format!("genuine aggregate rejected: {}", e))
            }
        }
        Kind::CombineShares | Kind::PartialSign => {
            // f(x) = sk + c x, shares 1 and 2 built from field elements
            let c = rf::hash_to_scalar(b"fresh coefficient", rf::KEYGEN_SALT);
            let mut shares = vec![];
            for i in 1u8..=2 {
                let val = rsk + c * rf::RScalar::from(i as u64);
                let raw = <C as Pairing>::SecretKeyShare::from_field_element(i, sc_from_be::<C>(&rf::scalar_to_be(&val))).map_err(|e| format!("{:?}", e))?;
                shares.push((SecretKeyShare::<C>(raw), val));
            }
            if kind == Kind::CombineShares {
                let only: Vec<SecretKeyShare<C>> = shares.iter().map(|s| s.0.clone()).collect();
                let got = SecretKey::<C>::combine(&only).map_err(|e| e.to_string())?;
                ensure(got == sk, "recombined key differs")?;
                let pks: Vec<PublicKeyShare<C>> = only.iter().map(|s| s.public_key().unwrap()).collect();
                ensure(PublicKey::<C>::from_shares(&pks).map_err(|e| e.to_string())? == pk, "recombined public key differs")
            } else {
                let mut parts = vec![];
                for (sh, val) in &shares {
                    let p = sh.sign(SignatureSchemes::Basic, MSG).map_err(|e| e.to_string())?;
                    ensure(p.as_raw_value().value_vec() == rf::enc(&rf::sign::<C::R>(val, Scheme::Basic, MSG)), "partial signature differs from the reference value")?;
                    ensure(sh.public_key().unwrap().verify(&p, MSG).is_ok(), "partial signature rejected by its own key share")?;
                    parts.push(p);
                }
                let got = Signature::<C>::from_shares(&parts).map_err(|e| e.to_string())?;
                ensure(pt(got.as_raw_value()) == rf::enc(&rf::sign::<C::R>(&rsk, Scheme::Basic, MSG)), "recombined signature differs from the whole key signature")
            }
        }
        Kind::PokVerify | Kind::PokTsVerify => {
            let rsig = rf::sign::<C::R>(&rsk, Scheme::Basic, MSG);
            let x = rf::hash_to_scalar(b"fresh x", rf::SALT_POK);
            let u = <C::R as RefSuite>::hash_to_sig(MSG, rf::sig_dst::<C::R>(Scheme::Basic)) * x;
            let t = CLOCK0;
            let y = if kind == Kind::PokVerify { rf::hash_to_scalar(b"fresh y", rf::SALT_POK) } else { rf::pok_y::<C::R>(&u, t) };
            let (wu, wv) = rf::pok_prove::<C::R>(&rsig, MSG, Scheme::Basic, &x, &y);
            let proof = ProofOfKnowledge::<C>::Basic { u: lsg::<C>(&wu), v: lsg::<C>(&wv) };
            if kind == Kind::PokVerify {
                proof.verify(pk, MSG, ProofCommitmentChallenge::<C>(sc_from_be::<C>(&rf::scalar_to_be(&y)))).map_err(|e| format!("genuine proof of knowledge rejected: {}", e))
            } else {
                ProofOfKnowledgeTimestamp::<C> { proof, timestamp: t }.verify(pk, MSG, None).map_err(|e| format!("genuine timestamp proof rejected: {}", e))
            }
        }
        Kind::SignCryptSeal => {
            let ent = data32(seed, "fresh-signcrypt");
            let want = rf::signcrypt_seal::<C::R>(&rpk, MSG, Scheme::Basic, &drawn(&ent));
            let ct = with_env(vec![ent], None, || pk.sign_crypt(SignatureSchemes::Basic, MSG))?;
            ensure(pt(&ct.u) == rf::enc(&want.u) && ct.v == want.v && pt(&ct.w) == rf::enc(&want.w), "ciphertext differs from the reference for the same entropy")?;
            // the first validity check after the seal is on an altered copy
            let mut alt = ct.clone();
            alt.v[0] ^= 1;
            ensure(!bool::from(alt.is_valid()), "altered ciphertext reports valid right after the seal")?;
            ensure(Option::<Vec<u8>>::from(alt.decrypt(&sk)).is_none(), "altered ciphertext decrypts")?;
            ensure(bool::from(ct.is_valid()) && Option::<Vec<u8>>::from(ct.decrypt(&sk)).as_deref() == Some(MSG), "honest ciphertext does not round trip")
        }
        Kind::SignCryptOpen => {
            let want = rf::signcrypt_seal::<C::R>(&rpk, MSG, Scheme::Pop, &data32(seed, "fresh-signcrypt-open"));
            let ct = SignCryptCiphertext::<C> { u: lpk::<C>(&want.u), v: want.v.clone(), w: lsg::<C>(&want.w), scheme: SignatureSchemes::ProofOfPossession };
            ensure(bool::from(ct.is_valid()), "reference made ciphertext reports invalid")?;
            ensure(Option::<Vec<u8>>::from(ct.decrypt(&sk)).as_deref() == Some(MSG), "reference made ciphertext does not decrypt to the message")
        }
        Kind::ShareOtherCiphertext => {
            let c = rf::hash_to_scalar(b"fresh coefficient", rf::KEYGEN_SALT);
            let mk = |label: &str, m: &[u8]| {
                let w = rf::signcrypt_seal::<C::R>(&rpk, m, Scheme::Basic, &data32(seed, label));
                SignCryptCiphertext::<C> { u: lpk::<C>(&w.u), v: w.v.clone(), w: lsg::<C>(&w.w), scheme: SignatureSchemes::Basic }
            };
            let (a, b) = (mk("fresh-share-a", MSG), mk("fresh-share-b", OTHER));
            let mut ds = vec![];
            for i in 1u8..=2 {
                let val = rsk + c * rf::RScalar::from(i as u64);
                let sh = SecretKeyShare::<C>(<C as Pairing>::SecretKeyShare::from_field_element(i, sc_from_be::<C>(&rf::scalar_to_be(&val))).map_err(|e| format!("{:?}", e))?);
                let d = a.create_decryption_share(&sh).map_err(|e| e.to_string())?;
                let pks = sh.public_key().map_err(|e| e.to_string())?;
                ensure(d.verify(&pks, &a).is_ok(), "decryption share rejected for its own ciphertext")?;
                ensure(d.verify(&pks, &b).is_err(), "decryption share accepted for another ciphertext")?;
                ds.push(d);
            }
            ensure(Option::<Vec<u8>>::from(a.decrypt_with_shares(&ds)).as_deref() == Some(MSG), "t shares do not decrypt")?;
            ensure(Option::<Vec<u8>>::from(b.decrypt_with_shares(&ds)).as_deref() != Some(OTHER), "shares of another ciphertext decrypt")
        }
        Kind::TimeLockSeal(s) => {
            let ent = data32(seed, "fresh-timelock");
            let want = rf::timelock_seal::<C::R>(&rpk, MSG, ID, s, &drawn(&ent)).ok_or("reference refuses")?;
            let ct = with_env(vec![ent], None, || pk.encrypt_time_lock(lib_scheme(s), MSG, ID))?.map_err(|e| e.to_string())?;
            ensure(pt(&ct.u) == rf::enc(&want.u) && ct.v == want.v && ct.w == want.w, "time lock ciphertext differs from the reference for the same entropy")?;
            let sig = mk_sig::<C>(s, lsg::<C>(&rf::sign::<C::R>(&rsk, s, ID)));
            ensure(Option::<Vec<u8>>::from(ct.decrypt(&sig)).as_deref() == Some(MSG), "time lock ciphertext does not open with the signature over its identifier")
        }
        Kind::TimeLockOpen => {
            let want = rf::timelock_seal::<C::R>(&rpk, MSG, ID, Scheme::Pop, &data32(seed, "fresh-timelock-open")).ok_or("reference refuses")?;
            let ct = TimeCryptCiphertext::<C> { u: lpk::<C>(&want.u), v: want.v, w: want.w.clone(), scheme: SignatureSchemes::ProofOfPossession };
            let sig = mk_sig::<C>(Scheme::Pop, lsg::<C>(&rf::sign::<C::R>(&rsk, Scheme::Pop, ID)));
            ensure(Option::<Vec<u8>>::from(ct.decrypt(&sig)).as_deref() == Some(MSG), "reference made time lock ciphertext does not open")
        }
        Kind::ElGamalVerify => {
            let m = rf::hash_to_scalar(b"fresh plaintext", rf::KEYGEN_SALT);
            let (b, r) = (rf::hash_to_scalar(b"fresh b", rf::SALT_ELGAMAL), rf::hash_to_scalar(b"fresh r", rf::SALT_ELGAMAL));
            let (c1, c2, mp, bp, ch) = rf::elgamal_prove::<C::R>(&rpk, &m, &b, &r);
            let l = |x: &rf::RScalar| sc_from_be::<C>(&rf::scalar_to_be(x));
            let p = ElGamalProof::<C> { ciphertext: ElGamalCiphertext { c1: lpk::<C>(&c1), c2: lpk::<C>(&c2) }, message_proof: l(&mp), blinder_proof: l(&bp), challenge: l(&ch) };
            p.verify(pk).map_err(|e| format!("reference made proof rejected: {}", e))?;
            let d = p.verify_and_decrypt(&sk).map_err(|e| format!("reference made proof rejected by verify_and_decrypt: {}", e))?;
            ensure(pt(&d) == rf::enc(&(rf::elgamal_generator::<C::R>() * m)), "decrypts to another point")
        }
        Kind::ElGamalSeal => {
            let plain = SecretKey::<C>(sc_from_be::<C>(&rf::scalar_to_be(&rf::hash_to_scalar(b"fresh plaintext", rf::KEYGEN_SALT))));
            let p = with_env(entropy_stream(seed, "fresh-elgamal", 2), None, || pk.encrypt_key_el_gamal_with_proof(&plain))?.map_err(|e| e.to_string())?;
            let r = |x: &Sc<C>| rf::scalar_from_be(&sc_to_be::<C>(x)).unwrap();
            let (c1, c2) = (<C::R as RefSuite>::pk_from(&pt(&p.ciphertext.c1)).ok_or("c1")?, <C::R as RefSuite>::pk_from(&pt(&p.ciphertext.c2)).ok_or("c2")?);
            ensure(rf::elgamal_verify::<C::R>(&rpk, &c1, &c2, &r(&p.message_proof), &r(&p.blinder_proof), &r(&p.challenge)), "the reference rejects the library's proof")
        }
        Kind::Split => {
            use rand_core::SeedableRng;
            let shares = sk.split_with_rng(3, 5, rand_chacha::ChaCha20Rng::from_seed(data32(seed, "fresh-split"))).map_err(|e| e.to_string())?;
            ensure(shares.len() == 5, "not 5 shares")?;
            ensure(SecretKey::<C>::combine(&shares[1..4]).map_err(|e| e.to_string())? == sk, "three shares do not recombine to the key")?;
            ensure(SecretKey::<C>::combine(&shares[..2]).map(|k| k != sk).unwrap_or(true), "two of three shares give the key")?;
            let pks: Vec<PublicKeyShare<C>> = shares.iter().map(|s| s.public_key().unwrap()).collect();
            ensure(PublicKey::<C>::from_shares(&pks[2..]).map_err(|e| e.to_string())? == pk, "public key shares do not recombine")?;
            let part = shares[4].sign(SignatureSchemes::ProofOfPossession, MSG).map_err(|e| e.to_string())?;
            ensure(pks[4].verify(&part, MSG).is_ok() && pks[3].verify(&part, MSG).is_err(), "partial signature verifies for the wrong key share (or not for its own)")
        }
        Kind::ElGamalSum => {
            let l = |x: &rf::RScalar| sc_from_be::<C>(&rf::scalar_to_be(x));
            let (m1, m2) = (rf::hash_to_scalar(b"fresh m1", rf::KEYGEN_SALT), rf::hash_to_scalar(b"fresh m2", rf::KEYGEN_SALT));
            let mk = |m: &rf::RScalar, tag: &[u8]| {
                let (c1, c2, _, _, _) = rf::elgamal_prove::<C::R>(&rpk, m, &rf::hash_to_scalar(tag, rf::SALT_ELGAMAL), &rf::hash_to_scalar(b"r", rf::SALT_ELGAMAL));
                ElGamalCiphertext::<C> { c1: lpk::<C>(&c1), c2: lpk::<C>(&c2) }
            };
            let (a, b) = (mk(&m1, b"b1"), mk(&m2, b"b2"));
            let _ = l;
            let want = rf::enc(&(rf::elgamal_generator::<C::R>() * (m1 + m2)));
            ensure(pt(&(a + b).decrypt(&sk)) == want, "the sum of two ciphertexts does not decrypt to the sum")?;
            ensure(pt(&a.decrypt(&sk)) == rf::enc(&(rf::elgamal_generator::<C::R>() * m1)), "a ciphertext does not decrypt to its plaintext point")
        }
        Kind::DecryptionKeysFromShares => {
            let c = rf::hash_to_scalar(b"fresh coefficient", rf::KEYGEN_SALT);
            let shares: Vec<SecretKeyShare<C>> = (1u8..=2)
                .map(|i| SecretKeyShare::<C>(<C as Pairing>::SecretKeyShare::from_field_element(i, sc_from_be::<C>(&rf::scalar_to_be(&(rsk + c * rf::RScalar::from(i as u64))))).unwrap()))
                .collect();
            let w = rf::signcrypt_seal::<C::R>(&rpk, MSG, Scheme::Aug, &data32(seed, "fresh-keys-sc"));
            let ct = SignCryptCiphertext::<C> { u: lpk::<C>(&w.u), v: w.v.clone(), w: lsg::<C>(&w.w), scheme: SignatureSchemes::MessageAugmentation };
            let ds: Vec<SignDecryptionShare<C>> = shares.iter().map(|s| ct.create_decryption_share(s).unwrap()).collect();
            let key = SignCryptDecryptionKey::<C>::from_shares(&ds).map_err(|e| e.to_string())?;
            ensure(Option::<Vec<u8>>::from(key.decrypt(&ct)).as_deref() == Some(MSG), "the combined decryption key does not open the ciphertext")?;
            let m = rf::hash_to_scalar(b"fresh plaintext", rf::KEYGEN_SALT);
            let (c1, c2, _, _, _) = rf::elgamal_prove::<C::R>(&rpk, &m, &rf::hash_to_scalar(b"fresh b", rf::SALT_ELGAMAL), &rf::hash_to_scalar(b"fresh r", rf::SALT_ELGAMAL));
            let eg = ElGamalCiphertext::<C> { c1: lpk::<C>(&c1), c2: lpk::<C>(&c2) };
            let es: Vec<ElGamalDecryptionShare<C>> = shares.iter().map(|s| ElGamalDecryptionShare(<C as BlsSignatureCore>::public_key_share_with_generator(&s.0, eg.c1).unwrap())).collect();
            let ek = ElGamalDecryptionKey::<C>::from_shares(&es).map_err(|e| e.to_string())?;
            ensure(pt(&ek.decrypt(&eg)) == rf::enc(&(rf::elgamal_generator::<C::R>() * m)), "the combined ElGamal decryption key decrypts to another point")
        }
        Kind::DecodePk => {
            let a = PublicKey::<C>::try_from(pkb.as_slice()).map_err(|e| format!("valid public key bytes refused: {}", e))?;
            let b = PublicKey::<C>::try_from(pkb.clone()).map_err(|e| format!("valid public key Vec refused: {}", e))?;
            let c = PublicKey::<C>::try_from(pkb.clone().into_boxed_slice()).map_err(|e| format!("valid public key Box refused: {}", e))?;
            ensure(a == pk && b == pk && c == pk && Vec::<u8>::from(&a) == pkb, "public key changed by the byte round trip")
        }
        Kind::DecodeSig => {
            let raw = rf::enc(&rf::sign::<C::R>(&rsk, Scheme::Basic, MSG));
            let mut wire = vec![0u8];
            wire.extend_from_slice(&raw);
            let a = Signature::<C>::try_from(wire.as_slice()).map_err(|e| format!("valid signature bytes refused: {}", e))?;
            ensure(pt(a.as_raw_value()) == raw && Vec::<u8>::from(&a) == wire, "signature changed by the byte round trip")
        }
        Kind::DecodeSk => {
            let a = SecretKey::<C>::try_from(kb.as_slice()).map_err(|e| format!("valid secret key bytes refused: {}", e))?;
            let b = Option::<SecretKey<C>>::from(SecretKey::<C>::from_be_bytes(&kb)).ok_or("from_be_bytes refused")?;
            ensure(a == sk && b == sk && a.to_be_bytes() == kb, "secret key changed by the byte round trip")
        }
    }
}

/// child: `blsful-mc child fresh <seed> <json list of operations>` - one line per operation
pub fn child(args: &[String]) -> i32 {
    let seed: u64 = args.first().and_then(|s| s.parse().ok()).unwrap_or(1);
    let ops: Vec<FOp> = match args.get(1).map(|s| serde_json::from_str(s)) {
        Some(Ok(o)) => o,
        _ => return 2,
    };
    for (i, op) in ops.iter().enumerate() {
        let r = guard(|| if op.g == 0 { run::<Bls12381G1Impl>(op.kind, seed) } else { run::<Bls12381G2Impl>(op.kind, seed) });
        match r {
            Ok(Ok(())) => println!("FRESH {} ok", i),
            Ok(Err(e)) => println!("FRESH {} BAD {}", i, e),
            Err(p) => println!("FRESH {} BAD PANIC {}", i, p),
        }
    }
    0
}

pub struct MFresh {
    prop: &'static str,
    seed: u64,
    ops: Vec<FOp>,
    own: Vec<usize>,
    depth: usize,
}

impl MFresh {
    pub fn new(prop: &'static str, tier: Tier, seed: u64) -> Self {
        let own_k = own_kinds(prop);
        let mut ops = vec![];
        let mut own = vec![];
        for g in 0..2u8 {
            for kind in all_kinds() {
                if own_k.contains(&kind) {
                    own.push(ops.len());
                }
                ops.push(FOp { g, kind });
            }
        }
        // a third step, over this property's own operations only (quick: when there are at most 8 of them)
        let depth = if tier.thorough() || own.len() <= 8 { 3 } else { 2 };
        MFresh { prop, seed, ops, own, depth }
    }
    pub fn applicable(prop: &str) -> bool {
        !own_kinds(prop).is_empty()
    }
}

impl Model for MFresh {
    type State = Vec<usize>;
    type Action = usize;
    fn name(&self) -> String {
        format!("{}-fresh-process-histories", self.prop.to_lowercase())
    }
    fn init(&self) -> Vec<Vec<usize>> {
        vec![vec![]]
    }
    fn actions(&self, st: &Vec<usize>) -> Vec<usize> {
        match st.len() {
            // every operation may come first
            0 => (0..self.ops.len()).collect(),
            // the last operation of a judged history belongs to this property
            1 => self.own.clone(),
            // a third step only behind two operations of this property
            2 if self.depth >= 3 && self.own.contains(&st[0]) => self.own.clone(),
            _ => vec![],
        }
    }
    fn step(&self, st: &Vec<usize>, a: &usize) -> Option<Vec<usize>> {
        let mut n = st.clone();
        n.push(*a);
        Some(n)
    }
    fn describe(&self, st: &Vec<usize>) -> String {
        let d = |i: &usize| format!("{:?}/{}", self.ops[*i].kind, GROUPS[self.ops[*i].g as usize]);
        format!("fresh process, then [{}]: the last operation judged against the reference / the property's verdict", st.iter().map(d).collect::<Vec<_>>().join(" then "))
    }
    fn required_outcomes(&self) -> Vec<String> {
        vec!["fresh:last-operation-holds".into()]
    }
    fn check(&self, st: &Vec<usize>, o: &mut Obs) {
        let Some(last) = st.last() else { return };
        if !self.own.contains(last) {
            return;
        }
        o.nontrivial = true;
        let ops: Vec<FOp> = st.iter().map(|i| self.ops[*i]).collect();
        // the running image itself (also when the file on disk was replaced by a rebuild in the meantime)
        let exe = if std::path::Path::new("/proc/self/exe").exists() {
            std::path::PathBuf::from("/proc/self/exe")
        } else {
            match std::env::current_exe() {
                Ok(e) => e,
                Err(e) => {
                    o.note(format!("cannot locate the own binary: {}", e));
                    return;
                }
            }
        };
        let out = std::process::Command::new(exe).arg("child").arg("fresh").arg(self.seed.to_string()).arg(serde_json::to_string(&ops).unwrap()).output();
        o.calls(ops.len() as u64);
        let lk = self.ops[*last];
        let after = if st.len() >= 2 {
            st[..st.len() - 1].iter().map(|i| format!("after-{:?}-{}", self.ops[*i].kind, GROUPS[self.ops[*i].g as usize])).collect::<Vec<_>>().join(":")
        } else {
            "first-in-process".to_string()
        };
        let key = format!("{}:fresh-process:{:?}:{}:{}", self.prop, lk.kind, GROUPS[lk.g as usize], after);
        match out {
            Err(e) => o.note(format!("cannot start the child process: {}", e)),
            Ok(out) => {
                let text = String::from_utf8_lossy(&out.stdout);
                let line = text.lines().find(|l| l.starts_with(&format!("FRESH {} ", st.len() - 1)));
                match line {
                    Some(l) if l.ends_with(" ok") => o.outcome("fresh:last-operation-holds"),
                    Some(l) => {
                        o.outcome("fresh:last-operation-fails");
                        o.expect(&key, false, "the reference value / the verdict the property fixes", l.splitn(4, ' ').nth(3).unwrap_or(l));
                    }
                    None => {
                        o.outcome("fresh:child-died");
                        o.expect(&format!("{}:aborted", key), false, "returns", &format!("child exit {:?} before the operation reported", out.status.code()));
                    }
                }
                o.record("out", text.as_bytes());
            }
        }
    }
}

pub fn models(prop: &'static str, tier: Tier, seed: u64) -> Vec<Box<dyn DynModel>> {
    if MFresh::applicable(prop) {
        vec![bounded(MFresh::new(prop, tier, seed), 3)]
    } else {
        vec![]
    }
}
