//! C09 - a proof of possession verifies only for the key that made it.
use crate::common::*;
use crate::engine::*;
use crate::refmodel::{self as rf, Scheme, SCHEMES};
use blsful::*;
use serde::{Deserialize, Serialize};
use std::marker::PhantomData;

#[derive(Copy, Clone, Debug, PartialEq, Eq, Hash, Serialize, Deserialize)]
pub enum Dev {
    /// verify against the public key of key j
    OtherKey(usize),
    AddG,
    Neg,
    Dbl,
    Identity,
    /// replace by a signature (scheme) over the public key bytes
    SigOverPk(Scheme),
    /// same point in another projective representation (must still verify)
    Repr,
    /// carried through a codec (must still verify)
    Transport(Codec),
    /// every single-bit flip of the encoded proof: decode must fail or verification must fail
    BitFlip(usize),
    /// the encoded proof plus a point outside the prime order subgroup (pairs like the honest proof):
    /// presented through decoder #i (0 bytes, 1 serde_bare, 2 serde_json)
    AddTorsion(u8),
}

#[derive(Clone, Debug, PartialEq, Eq, Hash, Serialize, Deserialize)]
pub struct St {
    k: usize,
    dev: Option<Dev>,
}

pub struct M09<C: Suite> {
    keys: KeyAlpha,
    sks: Vec<SecretKey<C>>,
    flips: bool,
    _c: PhantomData<C>,
}

impl<C: Suite> M09<C> {
    pub fn new(tier: Tier, seed: u64) -> Self {
        let keys = key_alphabet(seed, true);
        let sks = keys.be.iter().map(|b| sk_from_be::<C>(b).unwrap()).collect();
        M09 {
            keys,
            sks,
            flips: tier.thorough(),
            _c: PhantomData,
        }
    }
}

impl<C: Suite> Model for M09<C> {
    type State = St;
    type Action = Dev;
    fn name(&self) -> String {
        format!("c09-pop/{}", C::G)
    }
    fn init(&self) -> Vec<St> {
        (0..self.sks.len()).map(|k| St { k, dev: None }).collect()
    }
    fn actions(&self, st: &St) -> Vec<Dev> {
        if st.dev.is_some() {
            return vec![];
        }
        let mut a = vec![];
        for j in 0..self.sks.len() {
            if j != st.k {
                a.push(Dev::OtherKey(j));
            }
        }
        a.extend([Dev::AddG, Dev::Neg, Dev::Dbl, Dev::Identity, Dev::Repr, Dev::AddTorsion(0), Dev::AddTorsion(1), Dev::AddTorsion(2), Dev::AddTorsion(3), Dev::AddTorsion(4)]);
        for s in SCHEMES {
            a.push(Dev::SigOverPk(s));
        }
        for c in [Codec::Bytes, Codec::Bare, Codec::Json] {
            a.push(Dev::Transport(c));
        }
        let nbits = <C::R as rf::RefSuite>::SIG_LEN * 8;
        if self.flips || st.k < 2 {
            for b in 0..nbits {
                a.push(Dev::BitFlip(b));
            }
        }
        a
    }
    fn step(&self, st: &St, a: &Dev) -> Option<St> {
        Some(St { k: st.k, dev: Some(*a) })
    }
    fn describe(&self, st: &St) -> String {
        format!("{} {} proof_of_possession, deviation {:?}, verify", C::G, self.keys.names[st.k], st.dev)
    }
    fn required_outcomes(&self) -> Vec<String> {
        vec!["own-key:accept".into(), "other-key:reject".into(), "perturbed:reject".into(), "bitflip:undecodable".into(), "bitflip:decodes-and-rejected".into(), "torsion:undecodable".into()]
    }
    fn check(&self, st: &St, o: &mut Obs) {
        let g = C::G;
        o.nontrivial = true;
        let sk = &self.sks[st.k];
        let pk = sk.public_key();
        let p1 = guard(|| sk.proof_of_possession());
        let p2 = guard(|| sk.proof_of_possession());
        o.calls(2);
        let (pop, pop2) = match (p1, p2) {
            (Ok(Ok(a)), Ok(Ok(b))) => (a, b),
            (a, _) => {
                o.expect(&format!("C09:prove-ok:{}", g), false, "Ok", verdict(&a));
                return;
            }
        };
        o.expect(&format!("C09:prove-deterministic:{}", g), pop == pop2, "equal", "differ");
        if st.dev.is_none() {
            // a proof moved by the constant time selection helpers is still the proof of the key that made it
            if let Ok(other) = self.sks[(st.k + 1) % self.sks.len()].proof_of_possession() {
                expect_ct_move(o, "C09", &format!("ProofOfPossession<{}>", g), &pop, &other);
            }
        }
        let mut vpk = pk;
        let mut proof = Some(pop);
        let mut want = true;
        let mut cls = "own-key".to_string();
        if let Some(d) = st.dev {
            cls = format!("{:?}", d).split('(').next().unwrap().to_string();
            want = false;
            let gen = SgP::<C>::generator();
            match d {
                Dev::OtherKey(j) => vpk = self.sks[j].public_key(),
                Dev::AddG => proof = Some(ProofOfPossession(pop.0 + gen)),
                Dev::Neg => proof = Some(ProofOfPossession(-pop.0)),
                Dev::Dbl => proof = Some(ProofOfPossession(pop.0 + pop.0)),
                Dev::Identity => proof = Some(ProofOfPossession(SgP::<C>::identity())),
                Dev::SigOverPk(s) => {
                    let sig = sk.sign(lib_scheme(s), &Vec::<u8>::from(&pk)).unwrap();
                    proof = Some(ProofOfPossession(*sig.as_raw_value()));
                }
                Dev::Repr => {
                    proof = Some(ProofOfPossession((pop.0 + gen) - gen));
                    want = true;
                }
                Dev::Transport(c) => {
                    let r: Result<ProofOfPossession<C>, String> = match c {
                        Codec::Bytes => ProofOfPossession::<C>::try_from(Vec::<u8>::from(&pop).as_slice()).map_err(|e| e.to_string()),
                        Codec::Bare => via_bare(&pop),
                        _ => via_json(&pop),
                    };
                    match r {
                        Ok(p) => {
                            o.expect(&format!("C09:transport-equal:{}:{:?}", g, c), p == pop, "equal", "differs");
                            proof = Some(p);
                        }
                        Err(e) => {
                            o.expect(&format!("C09:transport:{}:{:?}", g, c), false, "Ok", &e);
                            return;
                        }
                    }
                    want = true;
                }
                Dev::AddTorsion(dec) => {
                    let bytes = rf::torsion_perturbed(&Vec::<u8>::from(&pop)).expect("torsion point");
                    o.expect(&format!("C09:torsion-perturbation-differs:{}", g), bytes != Vec::<u8>::from(&pop), "different bytes", "same");
                    let r = guard(|| match dec {
                        0 => ProofOfPossession::<C>::try_from(bytes.as_slice()).ok(),
                        1 => serde_bare::from_slice::<ProofOfPossession<C>>(&bytes).ok(),
                        2 => serde_json::from_str::<ProofOfPossession<C>>(&format!("\"{}\"", hex::encode(&bytes))).ok(),
                        3 => serde_json::from_reader::<_, ProofOfPossession<C>>(format!("\"{}\"", hex::encode(&bytes)).as_bytes()).ok(),
                        _ => serde_json::from_value::<ProofOfPossession<C>>(serde_json::Value::String(hex::encode(&bytes))).ok(),
                    });
                    proof = r.ok().flatten();
                    if proof.is_none() {
                        o.outcome("torsion:undecodable");
                        return;
                    }
                }
                Dev::BitFlip(b) => {
                    let mut bytes = Vec::<u8>::from(&pop);
                    bytes[b / 8] ^= 0x80 >> (b % 8);
                    proof = guard(|| ProofOfPossession::<C>::try_from(bytes.as_slice())).ok().and_then(|r| r.ok());
                    if proof.is_none() {
                        o.outcome("bitflip:undecodable");
                        // the reference must not consider these bytes a valid subgroup point either
                        let rv = <C::R as rf::RefSuite>::sig_from(&bytes).is_some();
                        o.expect(&format!("C09:bitflip-decode-vs-reference:{}", g), !rv, "undecodable for the reference too", "reference decodes it");
                        return;
                    }
                }
            }
        }
        let proof = proof.unwrap();
        let v = guard(|| proof.verify(vpk));
        o.calls(1);
        let acc = matches!(v, Ok(Ok(())));
        o.record("acc", &[acc as u8]);
        match st.dev {
            None => o.outcome(if acc { "own-key:accept" } else { "own-key:reject" }),
            Some(Dev::OtherKey(_)) => o.outcome(if acc { "other-key:accept" } else { "other-key:reject" }),
            Some(Dev::BitFlip(_)) => o.outcome(if acc { "bitflip:decodes-and-accepted" } else { "bitflip:decodes-and-rejected" }),
            Some(Dev::AddTorsion(_)) => o.outcome(if acc { "torsion:decodes-and-accepted" } else { "torsion:decodes-and-rejected" }),
            Some(Dev::Repr) | Some(Dev::Transport(_)) => o.outcome(if acc { "relative:accept" } else { "relative:reject" }),
            _ => o.outcome(if acc { "perturbed:accept" } else { "perturbed:reject" }),
        }
        o.expect(&format!("C09:verify:{}:{}", g, cls), acc == want && v.is_ok(), if want { "accept" } else { "reject" }, verdict(&v));
        let tv = guard(|| <C as BlsSignaturePop>::pop_verify(vpk.0, proof.0));
        o.calls(1);
        o.expect(&format!("C09:trait-pop_verify-agrees:{}:{}", g, cls), matches!(tv, Ok(Ok(()))) == acc && tv.is_ok(), verdict(&v), verdict(&tv));
        if st.dev.is_none() {
            let tp = <C as BlsSignaturePop>::pop_prove(&sk.0);
            o.expect(&format!("C09:trait-pop_prove-agrees:{}", g), matches!(&tp, Ok(x) if *x == pop.0), "same proof", "differs");
        }
        let r = rf::pop_verify::<C::R>(&Vec::<u8>::from(&vpk), &Vec::<u8>::from(&proof));
        o.expect(&format!("C09:verify-vs-reference:{}:{}", g, cls), acc == r, if r { "accept" } else { "reject" }, verdict(&v));
    }
}

pub fn models(tier: Tier, seed: u64) -> Vec<Box<dyn DynModel>> {
    let mut v: Vec<Box<dyn DynModel>> = vec![bounded(M09::<Bls12381G1Impl>::new(tier, seed), 1), bounded(M09::<Bls12381G2Impl>::new(tier, seed), 1)];
    v
}

pub fn describe(tier: Tier, r: &mut Report) {
    r.rule = "initial states = the 12 alphabet keys (prove twice, verify against the own key); one action: verify against each of the 11 other keys (all 132 ordered pairs), perturb the proof point (+G, negate, double, identity, a signature of each scheme over the public key bytes), a validity preserving relative (other projective form, each codec), or flip one bit of the encoded proof (every bit)".into();
    r.deviation_bound_completed = "1".into();
    r.alphabet.insert("bit_flips".into(), serde_json::json!(if tier.thorough() { "every bit of the proof of every key" } else { "every bit of the proof of 2 keys" }));
}
