#!/bin/sh
set -e
cd /verif/harness && CARGO_NET_OFFLINE=true cargo build --release --offline
