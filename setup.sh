#!/bin/sh
# Build the framework from files on disk only (offline): harness in the release and checked profiles,
# and the cross-backend tool once per arithmetic backend.
set -e
export CARGO_NET_OFFLINE=true
export CARGO_TARGET_DIR=/verif/.target
cd /verif/harness
cargo build --release --offline
cargo build --profile checked --offline
cd /verif/xb
for b in blst rust; do
  cargo build --release --offline --no-default-features --features $b --target-dir /verif/.target/xb-$b
done
