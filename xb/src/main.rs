use blsful::inner_types::{Field, Group, GroupEncoding, PrimeField};
use blsful::vsss_rs::Share;
use blsful::*;
use serde::{de::DeserializeOwned, Serialize};
use serde_json::{json, Map, Value};
use sha3::digest::{ExtendableOutput, Update, XofReader};

fn hx<T: AsRef<[u8]>>(b: T) -> String {
    hex::encode(b)
}
fn hb(v: &Value) -> Vec<u8> {
    hex::decode(v.as_str().unwrap_or("")).unwrap_or_default()
}
fn data(seed: u64, label: &str, n: usize) -> Vec<u8> {
    let mut h = sha3::Shake128::default();
    h.update(&seed.to_le_bytes());
    h.update(label.as_bytes());
    let mut r = h.finalize_xof();
    let mut out = vec![0u8; n];
    r.read(&mut out);
    out
}
const R_HEX: &str = "73eda753299d7d483339d80809a1d80553bda402fffe5bfeffffffff00000001";

pub trait S: BlsSignatureImpl + Serialize + DeserializeOwned + PartialEq + Eq + Copy + std::fmt::Debug {}
impl S for Bls12381G1Impl {}
impl S for Bls12381G2Impl {}

const SCHEMES: [(&str, SignatureSchemes); 3] = [("Basic", SignatureSchemes::Basic), ("MessageAugmentation", SignatureSchemes::MessageAugmentation), ("ProofOfPossession", SignatureSchemes::ProofOfPossession)];

fn three<T: Serialize>(m: &mut Map<String, Value>, key: &str, bytes: Vec<u8>, v: &T) {
    m.insert(format!("{}/bytes", key), json!(hx(bytes)));
    m.insert(format!("{}/bare", key), json!(hx(serde_bare::to_vec(v).unwrap())));
    m.insert(format!("{}/json", key), json!(String::from_utf8(serde_json::to_vec(v).unwrap()).unwrap()));
}

fn keys<C: S>(seed: u64) -> Vec<(String, SecretKey<C>)> {
    let mut v = vec![];
    let r = hex::decode(R_HEX).unwrap();
    let mut edge = |name: &str, be: [u8; 32]| v.push((name.to_string(), Option::<SecretKey<C>>::from(SecretKey::<C>::from_be_bytes(&be)).expect("edge key")));
    let mut one = [0u8; 32];
    one[31] = 1;
    edge("1", one);
    let mut b = [0u8; 32];
    b[31] = 128;
    edge("128", b);
    let mut rm1: [u8; 32] = r.clone().try_into().unwrap();
    rm1[31] -= 1;
    edge("r-1", rm1);
    for s in [b"".to_vec(), b"a".to_vec(), data(seed, "key-seed-1", 32), data(seed, "key-seed-2", 33), data(seed, "key-seed-3", 255)] {
        v.push((format!("from_hash({})", hx(&s[..s.len().min(4)])), SecretKey::<C>::from_hash(&s)));
    }
    v
}

fn msgs(seed: u64) -> Vec<Vec<u8>> {
    // indices 0..=8 are referred to by number below; the large band follows
    [0usize, 1, 32, 33, 127, 128, 255, 256, 4096, 16383, 16384, 65535, 65536, 65537, 2097152].iter().map(|l| data(seed, &format!("msg-{}", l), *l)).collect()
}

fn transcript<C: S>(g: &str, seed: u64, m: &mut Map<String, Value>) {
    let ks = keys::<C>(seed);
    let ms = msgs(seed);
    for (kn, sk) in &ks {
        let pk = sk.public_key();
        three(m, &format!("{}/sk/{}", g, kn), Vec::from(sk), sk);
        m.insert(format!("{}/sk/{}/le", g, kn), json!(hx(sk.to_le_bytes())));
        three(m, &format!("{}/pk/{}", g, kn), Vec::from(&pk), &pk);
        let pop = sk.proof_of_possession().unwrap();
        three(m, &format!("{}/pop/{}", g, kn), Vec::from(&pop), &pop);
        m.insert(format!("{}/pop-verifies/{}", g, kn), json!(pop.verify(pk).is_ok()));
        for (sn, s) in SCHEMES {
            for (mi, msg) in ms.iter().enumerate() {
                let sig = sk.sign(s, msg).unwrap();
                if mi < 3 {
                    three(m, &format!("{}/sig/{}/{}/{}", g, kn, sn, mi), Vec::from(&sig), &sig);
                } else {
                    m.insert(format!("{}/sig/{}/{}/{}/bytes", g, kn, sn, mi), json!(hx(Vec::from(&sig))));
                }
                m.insert(format!("{}/sig-verifies/{}/{}/{}", g, kn, sn, mi), json!(sig.verify(&pk, msg).is_ok()));
            }
        }
    }
    // aggregates and multi-signatures over the first 4 keys
    for (sn, s) in SCHEMES {
        let sigs: Vec<Signature<C>> = ks.iter().take(4).enumerate().map(|(i, (_, k))| k.sign(s, &ms[i + 1]).unwrap()).collect();
        let agg = AggregateSignature::<C>::from_signatures(&sigs).unwrap();
        three(m, &format!("{}/aggregate/{}", g, sn), Vec::from(&agg), &agg);
        let pairs: Vec<(PublicKey<C>, Vec<u8>)> = ks.iter().take(4).enumerate().map(|(i, (_, k))| (k.public_key(), ms[i + 1].clone())).collect();
        m.insert(format!("{}/aggregate-verifies/{}", g, sn), json!(agg.verify(&pairs).is_ok()));
        if sn != "MessageAugmentation" {
            let sigs: Vec<Signature<C>> = ks.iter().take(4).map(|(_, k)| k.sign(s, &ms[3]).unwrap()).collect();
            let multi = MultiSignature::<C>::from_signatures(&sigs).unwrap();
            let mpk = MultiPublicKey::<C>::from_public_keys(ks.iter().take(4).map(|(_, k)| k.public_key()).collect::<Vec<_>>());
            three(m, &format!("{}/multisig/{}", g, sn), Vec::from(&multi), &multi);
            three(m, &format!("{}/multikey/{}", g, sn), Vec::from(&mpk), &mpk);
            m.insert(format!("{}/multisig-verifies/{}", g, sn), json!(multi.verify(mpk, &ms[3]).is_ok()));
        }
    }
    // accumulated keys over lists in which the SAME key occurs in different internal representations (the point as
    // decoded, identity + P, P + identity, (P + Q) - Q, -(-P), 2P - P, P + Q against Q + P): the two backends keep
    // different coordinates for the same point, the accumulated key and the verdicts derived from it must not show it
    {
        let (a, b) = (&ks[3].1, &ks[4].1);
        let (pa, pb) = (a.public_key().0, b.public_key().0);
        let id = <C as Pairing>::PublicKey::identity();
        let reps_a: Vec<(&str, <C as Pairing>::PublicKey)> = vec![
            ("plain", pa),
            ("identity+P", id + pa),
            ("P+identity", pa + id),
            ("P-identity", pa - id),
            ("(P+Q)-Q", (pa + pb) - pb),
            ("-(-P)", -(-pa)),
            ("2P-P", pa.double() - pa),
            ("one-member-committee", MultiPublicKey::<C>::from_public_keys([PublicKey::<C>(pa)]).0),
            ("decoded", PublicKey::<C>::try_from(Vec::from(&PublicKey::<C>(pa)).as_slice()).unwrap().0),
        ];
        let msg = &ms[3];
        let s = SignatureSchemes::ProofOfPossession;
        let (sa, sb) = (a.sign(s, msg).unwrap(), b.sign(s, msg).unwrap());
        let multi = MultiSignature::<C>::from_signatures([sa, sa, sb]).unwrap();
        for (ni, ri) in &reps_a {
            for (nj, rj) in &reps_a {
                for (shape, list) in [("a-a-b", vec![*ri, *rj, pb]), ("a-b-a", vec![*ri, pb, *rj]), ("b-a-a", vec![pb, *ri, *rj])] {
                    let mpk = MultiPublicKey::<C>::from_public_keys(list.iter().map(|p| PublicKey::<C>(*p)).collect::<Vec<_>>());
                    m.insert(format!("{}/multikey-representations/{}/{}/{}/bytes", g, shape, ni, nj), json!(hx(Vec::from(&mpk))));
                    m.insert(format!("{}/multikey-representations/{}/{}/{}/verifies", g, shape, ni, nj), json!(multi.verify(mpk, msg).is_ok()));
                }
            }
        }
        // two committees holding the same key computed in the two orders
        let (ab, ba) = (pa + pb, pb + pa);
        for (name, list) in [("A+B,B+A", vec![ab, ba]), ("A+B,A+B", vec![ab, ab]), ("B+A,A+B,b", vec![ba, ab, pb]), ("A+B,b,B+A", vec![ab, pb, ba])] {
            let mpk = MultiPublicKey::<C>::from_public_keys(list.iter().map(|p| PublicKey::<C>(*p)).collect::<Vec<_>>());
            m.insert(format!("{}/multikey-representations/committees/{}/bytes", g, name), json!(hx(Vec::from(&mpk))));
            let from_slice = MultiPublicKey::<C>::from(list.iter().map(|p| PublicKey::<C>(*p)).collect::<Vec<_>>().as_slice());
            m.insert(format!("{}/multikey-representations/committees/{}/from-slice-bytes", g, name), json!(hx(Vec::from(&from_slice))));
        }
        // the same for accumulated signatures and aggregates
        let (ga, gb) = (*sa.as_raw_value(), *sb.as_raw_value());
        let sid = <C as Pairing>::Signature::identity();
        for (name, rep) in [("plain", ga), ("identity+S", sid + ga), ("(S+T)-T", (ga + gb) - gb), ("2S-S", ga.double() - ga)] {
            let list = [sa, Signature::<C>::ProofOfPossession(rep), sb];
            m.insert(format!("{}/multisig-representations/{}/bytes", g, name), json!(MultiSignature::<C>::from_signatures(list).map(|x| hx(Vec::from(&x))).unwrap_or_else(|e| e.to_string())));
            m.insert(format!("{}/aggregate-representations/{}/bytes", g, name), json!(AggregateSignature::<C>::from_signatures(list).map(|x| hx(Vec::from(&x))).unwrap_or_else(|e| e.to_string())));
        }
    }
    // aggregates over a collision alphabet: equal keys (adjacent or not), a key and its negation, equal messages,
    // messages that differ only in bytes that are not valid UTF-8; every list of length 2, and of length 3 under PoP
    {
        let cks: Vec<&SecretKey<C>> = vec![&ks[0].1, &ks[2].1, &ks[3].1];
        let cms: Vec<Vec<u8>> = vec![vec![0x01, 0xff], vec![0x01, 0xfe], vec![]];
        let np = cks.len() * cms.len();
        for (sn, s) in SCHEMES {
            let table: Vec<(PublicKey<C>, Vec<u8>, Signature<C>)> = (0..np).map(|i| (cks[i / cms.len()].public_key(), cms[i % cms.len()].clone(), cks[i / cms.len()].sign(s, &cms[i % cms.len()]).unwrap())).collect();
            let mut lists: Vec<Vec<usize>> = vec![];
            for a in 0..np {
                for b in 0..np {
                    lists.push(vec![a, b]);
                    if sn == "ProofOfPossession" {
                        for c in 0..np {
                            lists.push(vec![a, b, c]);
                        }
                    }
                }
            }
            for l in lists {
                let sigs: Vec<Signature<C>> = l.iter().map(|i| table[*i].2).collect();
                let pairs: Vec<(PublicKey<C>, Vec<u8>)> = l.iter().map(|i| (table[*i].0, table[*i].1.clone())).collect();
                let agg = AggregateSignature::<C>::from_signatures(&sigs).unwrap();
                let name = l.iter().map(|i| i.to_string()).collect::<Vec<_>>().join("-");
                m.insert(format!("{}/aggregate-collision/{}/{}/bytes", g, sn, name), json!(hx(Vec::from(&agg))));
                m.insert(format!("{}/aggregate-collision/{}/{}/verifies", g, sn, name), json!(agg.verify(&pairs).is_ok()));
                // the first signature alone presented for the whole list
                let first = AggregateSignature::<C>::try_from(Vec::from(&agg).as_slice()).map(|_| ()).is_ok();
                let lone = match s {
                    SignatureSchemes::Basic => AggregateSignature::<C>::Basic(*sigs[0].as_raw_value()),
                    SignatureSchemes::MessageAugmentation => AggregateSignature::<C>::MessageAugmentation(*sigs[0].as_raw_value()),
                    SignatureSchemes::ProofOfPossession => AggregateSignature::<C>::ProofOfPossession(*sigs[0].as_raw_value()),
                };
                m.insert(format!("{}/aggregate-collision/{}/{}/first-part-alone-verifies", g, sn, name), json!(lone.verify(&pairs).is_ok() && first));
            }
        }
    }
    // caller chosen tags through the trait level verifier: the genuine pair, then the same bytes split differently
    {
        let sk = &ks[3].1;
        let dst: &[u8] = b"BLSFUL-XB-V01_";
        let sig = <C as BlsSignatureCore>::core_sign(&sk.0, &ms[2], dst).unwrap();
        m.insert(format!("{}/core-verify-custom-tag/genuine", g), json!(<C as BlsSignatureCore>::core_verify(sk.public_key().0, sig, &ms[2], dst).is_ok()));
        let mut shifted = ms[2].clone();
        shifted.extend_from_slice(&dst[..3]);
        m.insert(format!("{}/core-verify-custom-tag/boundary-shifted-after-genuine", g), json!(<C as BlsSignatureCore>::core_verify(sk.public_key().0, sig, &shifted, &dst[3..]).is_ok()));
        m.insert(format!("{}/core-verify-custom-tag/genuine-again", g), json!(<C as BlsSignatureCore>::core_verify(sk.public_key().0, sig, &ms[2], dst).is_ok()));
    }
    // larger aggregates and multi-signatures (many pairing terms): verdicts must agree across backends
    for n in [15usize, 16, 17, 33] {
        let sks: Vec<SecretKey<C>> = (0..n).map(|i| SecretKey::<C>::from_hash(format!("xb-agg-{}", i))).collect();
        for (sn, s) in SCHEMES {
            let sigs: Vec<Signature<C>> = sks.iter().enumerate().map(|(i, k)| k.sign(s, format!("m{}", i).as_bytes()).unwrap()).collect();
            let agg = AggregateSignature::<C>::from_signatures(&sigs).unwrap();
            let pairs: Vec<(PublicKey<C>, Vec<u8>)> = sks.iter().enumerate().map(|(i, k)| (k.public_key(), format!("m{}", i).into_bytes())).collect();
            m.insert(format!("{}/aggregate-large/{}/{}/bytes", g, n, sn), json!(hx(Vec::from(&agg))));
            m.insert(format!("{}/aggregate-large/{}/{}/verifies", g, n, sn), json!(agg.verify(&pairs).is_ok()));
            let mut wrong = pairs.clone();
            wrong[n - 1].1.push(0);
            m.insert(format!("{}/aggregate-large/{}/{}/altered-rejected", g, n, sn), json!(agg.verify(&wrong).is_err()));
        }
        let sigs: Vec<Signature<C>> = sks.iter().map(|k| k.sign(SignatureSchemes::ProofOfPossession, b"same").unwrap()).collect();
        let multi = MultiSignature::<C>::from_signatures(&sigs).unwrap();
        let mpk = MultiPublicKey::<C>::from_public_keys(sks.iter().map(|k| k.public_key()).collect::<Vec<_>>());
        m.insert(format!("{}/multisig-large/{}/bytes", g, n), json!(hx(Vec::from(&multi))));
        m.insert(format!("{}/multisig-large/{}/verifies", g, n), json!(multi.verify(mpk, b"same").is_ok()));
    }
    // combination of given shares: f(x) = sk + c x, identifiers 1..5
    let sk = &ks[3].1;
    let c = SecretKey::<C>::from_hash(b"xb coefficient");
    let mut shares = vec![];
    for i in 1u8..=5 {
        let mut x = <C::PublicKey as Group>::Scalar::ZERO;
        for _ in 0..i {
            x += <C::PublicKey as Group>::Scalar::ONE;
        }
        let val = sk.0 + c.0 * x;
        let raw = <C as Pairing>::SecretKeyShare::from_field_element(i, val).unwrap();
        shares.push(SecretKeyShare::<C>(raw));
    }
    for (i, sh) in shares.iter().enumerate() {
        three(m, &format!("{}/share/{}", g, i + 1), Vec::from(sh), sh);
        let p = sh.public_key().unwrap();
        three(m, &format!("{}/pk-share/{}", g, i + 1), Vec::from(&p), &p);
        let s = sh.sign(SignatureSchemes::ProofOfPossession, &ms[3]).unwrap();
        three(m, &format!("{}/sig-share/{}", g, i + 1), Vec::from(&s), &s);
    }
    for (a, b) in [(0usize, 1usize), (1, 4), (2, 3)] {
        let k = SecretKey::<C>::combine(&[shares[a].clone(), shares[b].clone()]).unwrap();
        m.insert(format!("{}/combine/{}-{}", g, a + 1, b + 1), json!(hx(k.to_be_bytes())));
        let p = PublicKey::<C>::from_shares(&[shares[a].public_key().unwrap(), shares[b].public_key().unwrap()]).unwrap();
        m.insert(format!("{}/pk-from-shares/{}-{}", g, a + 1, b + 1), json!(hx(Vec::from(&p))));
        let s = Signature::<C>::from_shares(&[shares[a].sign(SignatureSchemes::Basic, &ms[2]).unwrap(), shares[b].sign(SignatureSchemes::Basic, &ms[2]).unwrap()]).unwrap();
        m.insert(format!("{}/sig-from-shares/{}-{}", g, a + 1, b + 1), json!(hx(Vec::from(&s))));
    }
    // challenges, generators, hash to point / scalar
    for s in [b"".to_vec(), b"challenge".to_vec(), data(seed, "challenge", 64)] {
        let ch = ProofCommitmentChallenge::<C>::from_hash(&s);
        three(m, &format!("{}/challenge/{}", g, hx(&s[..s.len().min(4)])), Vec::from(&ch), &ch);
    }
    m.insert(format!("{}/elgamal-generator", g), json!(hx(<C as BlsElGamal>::message_generator().to_bytes())));
    for (i, msg) in ms.iter().enumerate().take(4) {
        let p = <C as HashToPoint>::hash_to_point(msg, b"XB-V01-CS02-with-BLS12381_XMD:SHA-256_SSWU_RO_");
        m.insert(format!("{}/hash-to-point/{}", g, i), json!(hx(p.to_bytes())));
        let s = <C as HashToScalar>::hash_to_scalar(msg, b"xb salt");
        m.insert(format!("{}/hash-to-scalar/{}", g, i), json!(hx(s.to_repr())));
    }
    // seeded CS-PRNG routes (deterministic given the seed)
    for sd in [[0u8; 32], [7u8; 32]] {
        use rand_core::SeedableRng;
        let mk = || rand_chacha::ChaCha20Rng::from_seed(sd);
        m.insert(format!("{}/seeded/{}/SecretKey::random", g, sd[0]), json!(hx(SecretKey::<C>::random(mk()).to_be_bytes())));
        m.insert(format!("{}/seeded/{}/random_secret_key", g, sd[0]), json!(hx(BlsSignature::<C>::random_secret_key(mk()).to_be_bytes())));
        m.insert(format!("{}/seeded/{}/ProofCommitmentChallenge::random", g, sd[0]), json!(hx(ProofCommitmentChallenge::<C>::random(mk()).to_be_bytes())));
        m.insert(format!("{}/seeded/{}/random_proof_challenge", g, sd[0]), json!(hx(BlsSignature::<C>::random_proof_challenge(mk()).to_be_bytes())));
        m.insert(format!("{}/seeded/{}/SecretKeyEnum::random", g, sd[0]), json!(hx(SecretKeyEnum::random(if g == "G1" { Bls12381::G1 } else { Bls12381::G2 }, mk()).to_be_bytes())));
    }
    // timestamp challenge derivation
    let u = *ks[3].1.sign(SignatureSchemes::Basic, &ms[1]).unwrap().as_raw_value();
    for t in [0u64, 1_700_000_000_000, u64::MAX] {
        m.insert(format!("{}/pok-y/{}", g, t), json!(hx(<C as BlsSignatureProof>::compute_y(u, t).to_repr())));
    }
    // pairing products that contain the point at infinity, and verdicts on proofs whose blinded commitment cancels
    {
        let k = &ks[3].1;
        let pk = k.public_key();
        let sig = k.sign(SignatureSchemes::Basic, &ms[1]).unwrap();
        let s = *sig.as_raw_value();
        let id_s = <C as Pairing>::Signature::identity();
        let id_p = <C as Pairing>::PublicKey::identity();
        let pairs: Vec<(&str, Vec<(<C as Pairing>::Signature, <C as Pairing>::PublicKey)>)> = vec![
            ("one-pair", vec![(s, pk.0)]),
            ("with-identity-signature-pair", vec![(s, pk.0), (id_s, pk.0)]),
            ("with-identity-key-pair", vec![(s, pk.0), (s, id_p)]),
            ("only-identity", vec![(id_s, id_p)]),
            ("three-pairs", vec![(s, pk.0), (s + s, pk.0), (s, pk.0 + pk.0)]),
        ];
        for (n, p) in pairs {
            m.insert(format!("{}/pairing-product/{}", g, n), json!(hx(<C as Pairing>::pairing(&p).to_bytes())));
        }
        let y = ProofCommitmentChallenge::<C>::from_hash(b"xb forged");
        let h = <C as HashToPoint>::hash_to_point(&ms[1], <C as BlsSignatureBasic>::DST);
        let forged = ProofOfKnowledge::<C>::Basic { u: -(h * y.0), v: s };
        m.insert(format!("{}/pok-forged/u-cancels-challenge", g), json!(forged.verify(pk, &ms[1], y).is_ok()));
        let forged2 = ProofOfKnowledge::<C>::Basic { u: -(h * y.0), v: h };
        m.insert(format!("{}/pok-forged/u-cancels-challenge-v-arbitrary", g), json!(forged2.verify(pk, &ms[1], y).is_ok()));
        m.insert(format!("{}/pok-forged/trait-level", g), json!(<C as BlsSignatureProof>::verify(-(h * y.0), h, pk.0, y.0, &ms[1], <C as BlsSignatureBasic>::DST).is_ok()));
    }
    // pairing result bytes (they feed the time lock key derivation)
    let gt = <C as Pairing>::pairing(&[(u, ks[3].1.public_key().0)]);
    m.insert(format!("{}/pairing-bytes", g), json!(hx(gt.to_bytes())));
    // decisions on malformed / non canonical input
    let r = hex::decode(R_HEX).unwrap();
    let mut rp1 = r.clone();
    rp1[31] += 1;
    for (n, b) in [("zero", vec![0u8; 32]), ("r", r.clone()), ("r+1", rp1), ("ff", vec![0xff; 32])] {
        let a: [u8; 32] = b.clone().try_into().unwrap();
        let d = Option::<SecretKey<C>>::from(SecretKey::<C>::from_be_bytes(&a)).map(|k| hx(k.to_be_bytes()));
        m.insert(format!("{}/import-scalar/{}", g, n), json!(d));
        let j = serde_json::from_str::<SecretKey<C>>(&format!("\"{}\"", hx(&b))).ok().map(|k| hx(k.to_be_bytes()));
        m.insert(format!("{}/import-scalar-json/{}", g, n), json!(j));
        let bb = serde_bare::from_slice::<SecretKey<C>>(&{ let mut l = b.clone(); l.reverse(); l }).ok().map(|k| hx(k.to_be_bytes()));
        m.insert(format!("{}/import-scalar-bare-le/{}", g, n), json!(bb));
        let bb2 = serde_bare::from_slice::<SecretKey<C>>(&b).ok().map(|k| hx(k.to_be_bytes()));
        m.insert(format!("{}/import-scalar-bare-be/{}", g, n), json!(bb2));
    }
    let pkb = Vec::from(&ks[3].1.public_key());
    let mut cases: Vec<(String, Vec<u8>)> = vec![];
    let mut b = pkb.clone();
    b[0] &= 0x7f;
    cases.push(("compression-bit-cleared".into(), b));
    let mut b = pkb.clone();
    b[0] |= 0x40;
    cases.push(("infinity-bit-set".into(), b));
    let mut b = vec![0u8; pkb.len()];
    b[0] = 0xc0;
    cases.push(("identity".into(), b.clone()));
    b[0] = 0xe0;
    cases.push(("identity-with-sort-bit".into(), b));
    for x in 1u8..12 {
        let mut b = vec![0u8; pkb.len()];
        let l = b.len();
        b[l - 1] = x;
        b[0] |= 0x80;
        cases.push((format!("small-x-{}", x), b));
    }
    for (n, b) in cases {
        m.insert(format!("{}/decode-pk/{}", g, n), json!(PublicKey::<C>::try_from(b.as_slice()).is_ok()));
        m.insert(format!("{}/decode-pk-json/{}", g, n), json!(serde_json::from_str::<PublicKey<C>>(&format!("\"{}\"", hx(&b))).is_ok()));
        m.insert(format!("{}/decode-pk-bare/{}", g, n), json!(serde_bare::from_slice::<PublicKey<C>>(&b).is_ok()));
    }
    for (n, j) in [("short", "\"00\""), ("non-hex", "\"zz\""), ("empty", "\"\""), ("number", "7"), ("upper", &format!("\"{}\"", hx(&pkb).to_uppercase()))] {
        m.insert(format!("{}/decode-pk-json-malformed/{}", g, n), json!(std::panic::catch_unwind(|| serde_json::from_str::<PublicKey<C>>(j).is_ok()).map_err(|_| "PANIC").map(|b| b.to_string())));
    }
}

/// human readable scalar documents that are NOT what the library writes: whatever each backend makes of them (error
/// or value) must be the same
fn scalar_documents<C: S>(g: &str, seed: u64, m: &mut Map<String, Value>) {
    let ks = keys::<C>(seed);
    let canon = serde_json::to_string(&ks[3].1).unwrap();
    let hexs = canon.trim_matches('"').to_string();
    let docs: Vec<(&str, String)> = vec![
        ("canonical", canon.clone()),
        ("0x-prefixed", format!("\"0x{}\"", hexs)),
        ("0x-short-even", "\"0x1234\"".to_string()),
        ("0x-short-odd", "\"0x123\"".to_string()),
        ("upper-case", format!("\"{}\"", hexs.to_uppercase())),
        ("leading-space", format!("\" {}\"", hexs)),
        ("63-digits", format!("\"{}\"", &hexs[1..])),
        ("65-digits", format!("\"0{}\"", hexs)),
        ("array-of-numbers", format!("[{}]", ks[3].1.to_be_bytes().iter().map(|b| b.to_string()).collect::<Vec<_>>().join(","))),
        ("number", "7".to_string()),
    ];
    for (n, d) in docs {
        let r = std::panic::catch_unwind(|| serde_json::from_str::<SecretKey<C>>(&d).map(|k| hx(k.to_be_bytes())).map_err(|_| "Err".to_string()));
        let v = match r {
            Ok(Ok(h)) => h,
            Ok(Err(e)) => e,
            Err(_) => "PANIC".to_string(),
        };
        m.insert(format!("{}/decode-scalar-json/{}", g, n), json!(v));
    }
}

fn produce<C: S>(g: &str, seed: u64, out: &mut Vec<Value>) {
    let ks = keys::<C>(seed);
    let sk = &ks[4].1;
    let pk = sk.public_key();
    let ms = msgs(seed);
    for (sn, s) in SCHEMES {
        for msg in ms.iter().take(6) {
            let ct = pk.sign_crypt(s, msg);
            out.push(json!({"kind":"signcrypt","group":g,"scheme":sn,"sk":hx(sk.to_be_bytes()),"ct":hx(Vec::from(&ct)),"ct_json":String::from_utf8(serde_json::to_vec(&ct).unwrap()).unwrap(),"expect":hx(msg)}));
            let tl = pk.encrypt_time_lock(s, msg, b"xb id").unwrap();
            out.push(json!({"kind":"timelock","group":g,"scheme":sn,"sig":hx(Vec::from(&sk.sign(s, b"xb id").unwrap())),"ct":hx(Vec::from(&tl)),"expect":hx(msg)}));
        }
        // large band: 64 KiB payloads and identifiers (hash-to-curve inputs beyond 16 bit lengths)
        for msg in ms.iter().filter(|m| m.len() == 65536 || m.len() == 65537) {
            let ct = pk.sign_crypt(s, msg);
            out.push(json!({"kind":"signcrypt","group":g,"scheme":sn,"sk":hx(sk.to_be_bytes()),"ct":hx(Vec::from(&ct)),"ct_json":String::from_utf8(serde_json::to_vec(&ct).unwrap()).unwrap(),"expect":hx(msg)}));
            let tl = pk.encrypt_time_lock(s, b"short", msg).unwrap();
            out.push(json!({"kind":"timelock","group":g,"scheme":sn,"sig":hx(Vec::from(&sk.sign(s, msg).unwrap())),"ct":hx(Vec::from(&tl)),"expect":hx(b"short")}));
            let pmsg: Vec<u8> = if sn == "MessageAugmentation" { let mut m = Vec::from(&pk); m.extend_from_slice(msg); m } else { msg.clone() };
            let sig = sk.sign(s, msg).unwrap();
            let pt = ProofOfKnowledgeTimestamp::<C>::generate(&pmsg, sig).unwrap();
            out.push(json!({"kind":"pok_ts","group":g,"scheme":sn,"pk":hx(Vec::from(&pk)),"msg":hx(&pmsg),"proof":hx(Vec::from(&pt)),"expect":"ok"}));
        }
        let msg = &ms[3];
        let pmsg: Vec<u8> = if sn == "MessageAugmentation" { let mut m = Vec::from(&pk); m.extend_from_slice(msg); m } else { msg.clone() };
        let sig = sk.sign(s, msg).unwrap();
        let (c, x) = ProofCommitment::<C>::generate(&pmsg, sig).unwrap();
        let y = ProofCommitmentChallenge::<C>::new();
        let p = c.finalize(x, y, sig).unwrap();
        out.push(json!({"kind":"pok","group":g,"scheme":sn,"pk":hx(Vec::from(&pk)),"msg":hx(&pmsg),"y":hx(Vec::from(&y)),"proof":hx(Vec::from(&p)),"expect":"ok"}));
        let pt = ProofOfKnowledgeTimestamp::<C>::generate(&pmsg, sig).unwrap();
        out.push(json!({"kind":"pok_ts","group":g,"scheme":sn,"pk":hx(Vec::from(&pk)),"msg":hx(&pmsg),"proof":hx(Vec::from(&pt)),"expect":"ok"}));
    }
    let plain = &ks[5].1;
    let eg = pk.encrypt_key_el_gamal(plain).unwrap();
    let gen = <C as BlsElGamal>::message_generator();
    out.push(json!({"kind":"elgamal","group":g,"sk":hx(sk.to_be_bytes()),"ct":hx(Vec::from(&eg)),"expect":hx((gen * plain.0).to_bytes())}));
    let egp = pk.encrypt_key_el_gamal_with_proof(plain).unwrap();
    out.push(json!({"kind":"elgamal_proof","group":g,"sk":hx(sk.to_be_bytes()),"pk":hx(Vec::from(&pk)),"proof":hx(Vec::from(&egp)),"expect":hx((gen * plain.0).to_bytes())}));
    // randomized share sets
    for (t, n) in [(2usize, 3usize), (3, 5)] {
        let shares = sk.split(t, n).unwrap();
        let msg = &ms[2];
        let ct = pk.sign_crypt(SignatureSchemes::ProofOfPossession, msg);
        out.push(json!({"kind":"shares","group":g,"t":t,"n":n,"sk":hx(sk.to_be_bytes()),"pk":hx(Vec::from(&pk)),"msg":hx(msg),
            "whole_sig":hx(Vec::from(&sk.sign(SignatureSchemes::ProofOfPossession, msg).unwrap())),
            "shares":shares.iter().map(|s| hx(Vec::from(s))).collect::<Vec<_>>(),
            "shares_json":shares.iter().map(|s| String::from_utf8(serde_json::to_vec(s).unwrap()).unwrap()).collect::<Vec<_>>(),
            "ct":hx(Vec::from(&ct)),
            "dec_shares":shares.iter().map(|s| hx(Vec::from(&ct.create_decryption_share(s).unwrap()))).collect::<Vec<_>>()}));
    }
}

fn consume<C: S>(e: &Value) -> Value {
    let kind = e["kind"].as_str().unwrap_or("");
    let r: Result<String, String> = (|| match kind {
        "signcrypt" => {
            let sk = SecretKey::<C>::try_from(hb(&e["sk"]).as_slice()).map_err(|x| x.to_string())?;
            let ct = SignCryptCiphertext::<C>::try_from(hb(&e["ct"]).as_slice()).map_err(|x| x.to_string())?;
            let ctj: SignCryptCiphertext<C> = serde_json::from_str(e["ct_json"].as_str().unwrap_or("")).map_err(|x| x.to_string())?;
            if ctj != ct {
                return Err("json and byte forms decode to different ciphertexts".into());
            }
            if !bool::from(ct.is_valid()) {
                return Err("invalid".into());
            }
            Option::<Vec<u8>>::from(ct.decrypt(&sk)).map(hx).ok_or("decrypts to nothing".to_string())
        }
        "timelock" => {
            let sig = Signature::<C>::try_from(hb(&e["sig"]).as_slice()).map_err(|x| x.to_string())?;
            let ct = TimeCryptCiphertext::<C>::try_from(hb(&e["ct"]).as_slice()).map_err(|x| x.to_string())?;
            Option::<Vec<u8>>::from(ct.decrypt(&sig)).map(hx).ok_or("decrypts to nothing".to_string())
        }
        "pok" => {
            let pk = PublicKey::<C>::try_from(hb(&e["pk"]).as_slice()).map_err(|x| x.to_string())?;
            let y = ProofCommitmentChallenge::<C>::try_from(hb(&e["y"]).as_slice()).map_err(|x| x.to_string())?;
            let p = ProofOfKnowledge::<C>::try_from(hb(&e["proof"]).as_slice()).map_err(|x| x.to_string())?;
            p.verify(pk, hb(&e["msg"]), y).map(|_| "ok".to_string()).map_err(|x| x.to_string())
        }
        "pok_ts" => {
            let pk = PublicKey::<C>::try_from(hb(&e["pk"]).as_slice()).map_err(|x| x.to_string())?;
            let p = ProofOfKnowledgeTimestamp::<C>::try_from(hb(&e["proof"]).as_slice()).map_err(|x| x.to_string())?;
            p.verify(pk, hb(&e["msg"]), None).map(|_| "ok".to_string()).map_err(|x| x.to_string())
        }
        "elgamal" => {
            let sk = SecretKey::<C>::try_from(hb(&e["sk"]).as_slice()).map_err(|x| x.to_string())?;
            let ct = ElGamalCiphertext::<C>::try_from(hb(&e["ct"]).as_slice()).map_err(|x| x.to_string())?;
            Ok(hx(ct.decrypt(&sk).to_bytes()))
        }
        "elgamal_proof" => {
            let sk = SecretKey::<C>::try_from(hb(&e["sk"]).as_slice()).map_err(|x| x.to_string())?;
            let pk = PublicKey::<C>::try_from(hb(&e["pk"]).as_slice()).map_err(|x| x.to_string())?;
            let p = ElGamalProof::<C>::try_from(hb(&e["proof"]).as_slice()).map_err(|x| x.to_string())?;
            p.verify(pk).map_err(|x| x.to_string())?;
            p.verify_and_decrypt(&sk).map(|x| hx(x.to_bytes())).map_err(|x| x.to_string())
        }
        "shares" => {
            let t = e["t"].as_u64().unwrap() as usize;
            let shares: Vec<SecretKeyShare<C>> = e["shares"].as_array().unwrap().iter().map(|b| SecretKeyShare::<C>::try_from(hb(b).as_slice()).map_err(|x| x.to_string())).collect::<Result<_, _>>()?;
            let sj: Vec<SecretKeyShare<C>> = e["shares_json"].as_array().unwrap().iter().map(|b| serde_json::from_str(b.as_str().unwrap_or("")).map_err(|x: serde_json::Error| x.to_string())).collect::<Result<_, _>>()?;
            if sj != shares {
                return Err("json and byte forms of the shares differ".into());
            }
            let msg = hb(&e["msg"]);
            let k = SecretKey::<C>::combine(&shares[..t]).map_err(|x| x.to_string())?;
            if k.to_be_bytes().to_vec() != hb(&e["sk"]) {
                return Err("first t shares do not recombine to the key".into());
            }
            let k2 = SecretKey::<C>::combine(&shares[shares.len() - t..]).map_err(|x| x.to_string())?;
            if k2 != k {
                return Err("last t shares do not recombine to the key".into());
            }
            let pks: Vec<PublicKeyShare<C>> = shares.iter().map(|s| s.public_key().unwrap()).collect();
            let p = PublicKey::<C>::from_shares(&pks[..t]).map_err(|x| x.to_string())?;
            if Vec::from(&p) != hb(&e["pk"]) {
                return Err("public key shares do not recombine".into());
            }
            let sg: Vec<SignatureShare<C>> = shares.iter().map(|s| s.sign(SignatureSchemes::ProofOfPossession, &msg).unwrap()).collect();
            let s = Signature::<C>::from_shares(&sg[..t]).map_err(|x| x.to_string())?;
            if Vec::from(&s) != hb(&e["whole_sig"]) {
                return Err("signature shares do not recombine to the whole-key signature".into());
            }
            let ct = SignCryptCiphertext::<C>::try_from(hb(&e["ct"]).as_slice()).map_err(|x| x.to_string())?;
            let ds: Vec<SignDecryptionShare<C>> = e["dec_shares"].as_array().unwrap().iter().map(|b| SignDecryptionShare::<C>::try_from(hb(b).as_slice()).map_err(|x| x.to_string())).collect::<Result<_, _>>()?;
            for (i, d) in ds.iter().enumerate() {
                d.verify(&pks[i], &ct).map_err(|x| format!("decryption share {}: {}", i, x))?;
            }
            let m = Option::<Vec<u8>>::from(ct.decrypt_with_shares(&ds[..t])).ok_or("decrypt_with_shares gives nothing")?;
            if m != msg {
                return Err("decrypt_with_shares gives another message".into());
            }
            Ok("ok".into())
        }
        _ => Err("unknown kind".into()),
    })();
    match r {
        Ok(v) => json!({"ok": v}),
        Err(e) => json!({"err": e}),
    }
}

fn main() {
    let args: Vec<String> = std::env::args().collect();
    let seed: u64 = std::env::var("VERIF_SEED").ok().and_then(|s| s.parse().ok()).unwrap_or(1);
    let backend = if cfg!(feature = "blst") { "blst" } else { "rust" };
    match args.get(1).map(|s| s.as_str()) {
        Some("transcript") => {
            let mut m = Map::new();
            transcript::<Bls12381G1Impl>("G1", seed, &mut m);
            transcript::<Bls12381G2Impl>("G2", seed, &mut m);
            scalar_documents::<Bls12381G1Impl>("G1", seed, &mut m);
            scalar_documents::<Bls12381G2Impl>("G2", seed, &mut m);
            std::fs::write(&args[2], serde_json::to_string(&json!({"backend":backend,"items":m})).unwrap()).unwrap();
        }
        Some("produce") => {
            let mut out = vec![];
            produce::<Bls12381G1Impl>("G1", seed, &mut out);
            produce::<Bls12381G2Impl>("G2", seed, &mut out);
            std::fs::write(&args[2], serde_json::to_string(&json!({"backend":backend,"artefacts":out})).unwrap()).unwrap();
        }
        Some("consume") => {
            let doc: Value = serde_json::from_str(&std::fs::read_to_string(&args[2]).unwrap()).unwrap();
            let mut res = vec![];
            for e in doc["artefacts"].as_array().unwrap() {
                let r = std::panic::catch_unwind(|| if e["group"] == "G1" { consume::<Bls12381G1Impl>(e) } else { consume::<Bls12381G2Impl>(e) });
                res.push(r.unwrap_or(json!({"err":"PANIC"})));
            }
            std::fs::write(&args[3], serde_json::to_string(&json!({"backend":backend,"results":res})).unwrap()).unwrap();
        }
        _ => {
            eprintln!("usage: xb transcript <out> | produce <out> | consume <in> <out>");
            std::process::exit(2);
        }
    }
}
